"""C18 — Small molecules survive MOL/SDF files and the RDKit bridge.

Plugin (see harness/README.md).  Ops (file lines inside one protocol line are TAB separated):
  W <auto|V2000|V3000|V1000> <default BondType int> <atoms> <bonds>   write_structure_to_ctab
  R\t<line>\t...                                                       read_structure_from_ctab
  K n <name> ri (re)      Metadata.Key(...).serialize()      KD\t<text>   Metadata.Key.deserialize
  MS\tK ...\tV<line>...   Metadata(...).serialize()          MD\t<line>.. Metadata.deserialize
  SS\t<line>...           SDFile.deserialize + SDRecord.deserialize (names, header/ctab/metadata lines)
  SE\t<line>...\t#OPS\t...  parsed SDFile + edit history (rename/del/header edit) -> serialize()
  SF\t<line>...           SDFile.deserialize and every record read completely (header, get_structure(), metadata)
  HS\t<9 fields>          Header.serialize                   HD\tl0\tl1\tl2  Header.deserialize
The oracle never looks at the Lean model: it writes with the real code, checks the standard
columns of every V2000 line, reads back with the real code and compares with what was written.
"""
import ast
import io
import math
import os
import re
import warnings
from fractions import Fraction

PROP = "C18"
PROPS_MODULE = "BiotiteModel.Props.C18"
DRIVER_MODULE = "BiotiteModel.Driver.C18"
EXT_MODULES = []
GEN_FILES = ["BiotiteModel/Gen/C18.lean"]
RULE = ("seeded molecules (1..1500 atoms, sizes and bond counts around 999/1000, all ten bond types, charges -15..15, "
        "float32 coordinates incl. the column limits and exact rounding ties) written by the real writer and by the Lean "
        "model (text compared line by line, V2000/V3000/auto), reference CTAB files in foreign styles read by both; "
        "metadata keys from the key grammar, metadata, multi-record SD files and headers serialised and parsed by both; "
        "edit histories on parsed SDFiles (rename/del/header/metadata/molecule/insert) against a list reference and, op by op, "
        "against the lazy-container model (incl. SDFile(dict) from records of a parsed file); MOLFile set_structure histories with "
        "rejected calls; an `api` stream (objects reused across calls vs fresh objects, refused calls leave receiver and "
        "arguments unchanged, NumPy spellings of scalars/arrays, every entry level of the convert wrappers with non-default "
        "arguments, mapping mix-ins, copy/eq/str/lines/record, limits: 8/9/16/17 charges, 999 atoms, 80-character names); "
        "to_mol/from_mol options (kekulize, explicit_hydrogen, extra annotations, conformer_id, residue info) in a forked "
        "child; metadata value lines beginning with 'M  END'; strings with `$$$$` inside a line; kekulisable aromatic rings through RDKit with "
        "argument-unchanged and call-twice checks; "
        "oracle: write->read on the real code through ctab/MOLFile/SDFile and to_mol/from_mol (RDKit), V2000 column "
        "audit of every written line. non-trivial = molecule with >= 2 atoms or a bond or a charge, a key with >= 2 "
        "components, multi-line metadata, >= 2 records, or an error branch; distinct = different op lines / payload")
TRUSTED = ["Python float formatting/parsing ('.4f', float()) and the float64->float32 store are modelled as exact "
           "correctly-rounded decimal conversion",
           "str.split/strip/splitlines modelled on printable ASCII only",
           "RDKit (Chem.Mol, conformers, Kekulize) is an external library: exercised, not modelled"]
ASSUMPTIONS = ["element symbols are upper case, 1-2 characters, without blanks or quotes (biotite convention, U2 dtype)",
               "coordinates are float32 values (AtomArray.coord), which is what rules out the 99999.99996 -> '100000.0000' carry",
               "metadata values: non-empty lines without leading/trailing blanks, not starting with '>' or '$$$$'; "
               "header fields within their column widths, without surrounding blanks; no line-break characters anywhere"]
TECHNIQUE = ("Lean 4 proof (induction over digit strings, token lists, line lists and batches; refinement of the slice/"
             "split-based readers against the f-string writers; decide on the tables regenerated from the source) + "
             "text-level correspondence of writer and reader + write/read oracle")
LEVEL_TEXT = ("Theorems over the character-level model, all inputs, no size bound: the full-file theorem C18_sdf_file_roundtrip "
              "(records with pairwise different names, valid headers, well-formed non-empty molecules, valid metadata, no "
              "'$$$$'-leading line: serialise -> split -> every record's header, molecule and metadata read back, same order), "
              "composed from C18_sdf_record_roundtrip, C18_header_roundtrip (ValidHeader), C18_ctab_roundtrip (V2000, V3000 and "
              "every version argument: atoms in order, elements, charges, coordinates as 4-decimal scaled integers, bonds in "
              "order with every expressible type), C18_metadata_roundtrip, C18_key_roundtrip, C18_records; V2000 column "
              "layout, version switch, CHG batching; the writer's digit guard implies the column condition on the float32 "
              "grid; over Q: the decimal written is within 0.5e-4 of the float32 and a nearest-float32 re-rounding of it is "
              "within 1e-4 + 2*eps (C18_coord_reround; IEEE nearest rounding of numpy/float() is assumed, eps = float64 "
              "parse error); bond/charge/RDKit tables, V2000 reader slices = writer fields and header slices = header fields "
              "as decide obligations on tables regenerated from the source; C18_sdf_lazy_refines: every edit history on a parsed "
              "SDFile (records/headers/metadata parsed lazily and cached; item assignment and the dict constructor adopt and "
              "rename any record: C18_sdfile_adopt) equals the history on a plain mapping of parsed records; "
              "C18_molfile_set_structure: a rejected set_structure leaves a MOLFile unchanged, an accepted one reads back; "
              "C18_molfile_header_edit: a header edited in place is what is written; C18_chg_full_lines; refusals outside the "
              "hypotheses are theorems too (C18_v2000_long_element_rejects, C18_key_accepted_iff, C18_metadata_setitem, "
              "C18_sdf_delim_line_rejects, C18_sdf_empty_rejects, C18_v3000_empty_rejects) and demanded by the oracle (edge stream). Partial: the RDKit bridge (to_mol/from_mol, "
              "conformers) is an external library: tables proved, behaviour tied by the oracle only.")
LEVEL_NOTE = ("modelled-not-verified: Python float/int formatting and parsing, str methods on ASCII, numpy U2/uint32 stores, "
              "BondList normalisation; RDKit external")

BT = {"ANY": 0, "SINGLE": 1, "DOUBLE": 2, "TRIPLE": 3, "QUADRUPLE": 4, "AROMATIC_SINGLE": 5, "AROMATIC_DOUBLE": 6,
      "AROMATIC_TRIPLE": 7, "COORDINATION": 8, "AROMATIC": 9}
BT_NAME = {v: k for k, v in BT.items()}
# what the MDL bond block can express (DESIGN §7 C18 / MDL spec codes 1-8), stated independently of the source table
CTAB_EXPRESSIBLE = {0, 1, 2, 3, 5, 6, 9}
RDKIT_EXACT = {0, 1, 2, 3, 4}          # UNSPECIFIED, SINGLE, DOUBLE, TRIPLE, QUADRUPLE (+ DATIVE with use_dative_bonds)
AROMATIC = {5, 6, 7, 9}
ELEMENTS = ["H", "C", "N", "O", "S", "P", "F", "CL", "BR", "I", "FE", "ZN", "MG", "NA", "SE", "B", "SI", "CA", "K", "CU"]


# ------------------------------------------------------------------------------------------ translator (Gen)
def _find_assign(tree, name):
    for node in ast.walk(tree):
        if isinstance(node, ast.Assign) and len(node.targets) == 1 and isinstance(node.targets[0], ast.Name) \
                and node.targets[0].id == name:
            return node.value
        if isinstance(node, ast.AnnAssign) and isinstance(node.target, ast.Name) and node.target.id == name and node.value is not None:
            return node.value                     # a type annotation does not change the value
    raise ValueError(f"assignment to {name} not found")


def _nodes(root):
    """ast.walk without the subtrees of `assert` statements (added invariants are not facts of the format)."""
    todo = [root]
    while todo:
        n = todo.pop(0)
        yield n
        for c in ast.iter_child_nodes(n):
            if not isinstance(c, ast.Assert):
                todo.append(c)


def _assign_pairs(func):
    """(target name, value) of every simple assignment, annotated or not, in source order."""
    out = []
    for n in _nodes(func):
        if isinstance(n, ast.Assign) and len(n.targets) == 1 and isinstance(n.targets[0], ast.Name):
            out.append((n.lineno, n.targets[0].id, n.value))
        elif isinstance(n, ast.AnnAssign) and isinstance(n.target, ast.Name) and n.value is not None:
            out.append((n.lineno, n.target.id, n.value))
    return [(a, b) for _, a, b in sorted(out, key=lambda t: t[0])]


def _case_callee(func, literal):
    """`case "<literal>": return F(...)` in a match statement of `func` -> 'F' (the last such case)."""
    names = []
    for n in _nodes(func):
        if isinstance(n, ast.match_case) and isinstance(n.pattern, ast.MatchValue) and isinstance(n.pattern.value, ast.Constant) \
                and n.pattern.value.value == literal:
            for r in ast.walk(n):
                if isinstance(r, ast.Return) and isinstance(r.value, ast.Call) and isinstance(r.value.func, ast.Name):
                    names.append(r.value.func.id)
    if not names:
        raise ValueError(f"{func.name}: no `case {literal!r}: return f(...)`")
    return names[-1]


def _private_calls(func):
    """Names of module-private functions (leading underscore) called in `func`, in source order, without repetition."""
    out = []
    for n in sorted((x for x in _nodes(func) if isinstance(x, ast.Call) and isinstance(x.func, ast.Name) and x.func.id.startswith("_")),
                    key=lambda x: (x.lineno, x.col_offset)):
        if n.func.id not in out:
            out.append(n.func.id)
    return out


def _fstringish(node, env=()):
    return isinstance(node, ast.JoinedStr) or (isinstance(node, ast.Name) and node.id in env) or \
        (isinstance(node, ast.BinOp) and isinstance(node.op, (ast.Add, ast.Mult)) and (_fstringish(node.left, env) or _fstringish(node.right, env)))


def _writer_parts(func, counts_marker):
    """The pieces of a CTAB writer found by what they are: the counts-line f-string (contains `counts_marker`), the two list
    comprehensions of f-strings (atom lines, then bond lines), and the local names that hold them."""
    counts = [(nm, v) for nm, v in _assign_pairs(func) if _fstringish(v) or isinstance(v, ast.JoinedStr)]
    counts = [(nm, v) for nm, v in counts if any(isinstance(c, ast.Constant) and isinstance(c.value, str) and counts_marker in c.value
                                                  for c in ast.walk(v))]
    env = {nm: v for nm, v in _assign_pairs(func) if _fstringish(v)}
    comps = [(nm, v) for nm, v in _assign_pairs(func) if isinstance(v, ast.ListComp) and _fstringish(v.elt, env)]
    if len(counts) != 1 or len(comps) not in (2, 3):
        raise ValueError(f"{func.name}: counts line / atom lines / bond lines not found ({len(counts)}, {len(comps)})")
    roles = {counts[0][0]: "counts", comps[0][0]: "atoms", comps[1][0]: "bonds"}
    if len(comps) == 3:
        roles[comps[2][0]] = "charges"
    return {"counts": counts[0][1], "atoms": comps[0][1].elt, "bonds": comps[1][1].elt, "env": env, "roles": roles,
            "charges": comps[2][1].elt if len(comps) == 3 else None}


def _ctab_functions(ctab):
    """(V2000 writer, V3000 writer, V2000 reader, V3000 reader) found by what they contain — however the public dispatchers
    select them (match, if/elif, a table)."""
    funcs = [g for g in ctab.body if isinstance(g, ast.FunctionDef)]

    def only(cands, what):
        if len(cands) != 1:
            raise ValueError(f"ctab.py: {what} not found by content ({len(cands)} candidates)")
        return cands[0]

    def is_writer(g, marker):
        try:
            _writer_parts(g, marker)
            return True
        except ValueError:
            return False
    w2 = only([g for g in funcs if is_writer(g, "V2000")], "the V2000 writer (counts line with `V2000`, atom and bond line f-strings)")
    w3 = only([g for g in funcs if is_writer(g, "COUNTS")], "the V3000 writer (`COUNTS` line, atom and bond line f-strings)")
    r2 = only([g for g in funcs if "M  CHG" in _str_calls(g, "startswith") and len(_slices_of(g)) >= 5], "the V2000 reader (column slices, `M  CHG`)")
    r3 = only([g for g in funcs if "M  V30" in _str_calls(g, "startswith")], "the V3000 reader (`M  V30`)")
    return w2, w3, r2, r3


def _digit_guard(func, tree=None):
    """`n = number_of_integer_digits(...)` ... `if n > K` -> (K, line number in `func`); the local's name does not matter, and the
    guard may live in a module-private helper that `func` calls (then the line of that call counts)."""
    def direct(g):
        vars_ = [nm for nm, v in _assign_pairs(g) if isinstance(v, ast.Call) and getattr(v.func, "id", "") == "number_of_integer_digits"]
        return [n for n in _nodes(g) if isinstance(n, ast.Compare) and isinstance(n.left, ast.Name) and n.left.id in vars_
                and isinstance(n.ops[0], ast.Gt) and isinstance(n.comparators[0], ast.Constant)]
    hits = [(n.comparators[0].value, n.lineno) for n in direct(func)]
    if not hits and tree is not None:
        for call in sorted((c for c in _nodes(func) if isinstance(c, ast.Call) and isinstance(c.func, ast.Name) and c.func.id.startswith("_")),
                           key=lambda c: c.lineno):
            for g in tree.body:
                if isinstance(g, ast.FunctionDef) and g.name == call.func.id:
                    hits += [(n.comparators[0].value, call.lineno) for n in direct(g)]
    if len(hits) != 1:
        raise ValueError(f"{func.name}: coordinate digit guard not found")
    return hits[0]


def _module_value(tree, name):
    """Literal value of a module-level constant (plain or annotated assignment)."""
    for n in tree.body:
        if isinstance(n, ast.Assign) and len(n.targets) == 1 and isinstance(n.targets[0], ast.Name) and n.targets[0].id == name:
            return ast.literal_eval(n.value)
        if isinstance(n, ast.AnnAssign) and isinstance(n.target, ast.Name) and n.target.id == name and n.value is not None:
            return ast.literal_eval(n.value)
    raise ValueError(f"module constant {name} not found")


def _dicts_of(tree, key_kind, val_kind):
    """Module-level dict literals whose keys / values are `BondType.X` ('bt') or `Chem.BondType.X` ('rd')."""
    def kind(node):
        try:
            _, chem = _attr_name(node, "BondType")
            return "rd" if chem else "bt"
        except ValueError:
            return None
    out = []
    for n in tree.body:
        v = n.value if isinstance(n, (ast.Assign, ast.AnnAssign)) else None
        if isinstance(v, ast.Dict) and v.keys and all(kind(k) == key_kind for k in v.keys) and all(kind(x) == val_kind for x in v.values):
            out.append(v)
    if len(out) != 1:
        raise ValueError(f"expected exactly one {key_kind}->{val_kind} bond type table, found {len(out)}")
    return out[0]


def _find_func(tree, name):
    for node in ast.walk(tree):
        if isinstance(node, ast.FunctionDef) and node.name == name:
            return node
    raise ValueError(f"function {name} not found")


def _attr_name(node, base):
    """`BondType.X` -> 'X'; `Chem.BondType.Y` -> 'Y' (base = 'BondType')."""
    if isinstance(node, ast.Attribute) and isinstance(node.value, (ast.Name, ast.Attribute)):
        inner = node.value
        if (isinstance(inner, ast.Name) and inner.id == base) or (isinstance(inner, ast.Attribute) and inner.attr == base):
            return node.attr, isinstance(inner, ast.Attribute)
    raise ValueError(f"expected {base}.<member>, got {ast.dump(node)[:80]}")


def _slices_of(func, var=None):
    """All `x[a:b]` constant slices of a plain name in a function (any name unless `var` is given), in source order (deduplicated)."""
    out = []
    for node in _nodes(func):
        if isinstance(node, ast.Subscript) and isinstance(node.value, ast.Name) and (var is None or node.value.id == var) \
                and isinstance(node.slice, ast.Slice):
            lo, hi = node.slice.lower, node.slice.upper
            if isinstance(lo, ast.Constant) and isinstance(hi, ast.Constant):
                out.append((node.lineno, node.col_offset, lo.value, hi.value))
    out.sort()
    res = []
    for _, _, a, b in out:
        if (a, b) not in res:
            res.append((a, b))
    return res


def _format_widths(joined):
    """Field widths of an f-string: literal text counts its length, `{v:>10.4f}` its width."""
    ws = []
    for part in joined:
        if isinstance(part, ast.Constant):
            ws.append(("lit", len(part.value)))
        elif isinstance(part, ast.FormattedValue):
            spec = ""
            if part.format_spec is not None:
                spec = "".join(p.value for p in part.format_spec.values if isinstance(p, ast.Constant))
            m = re.fullmatch(r"([<>^]?)(\d+)(?:\.(\d+))?([df]?)", spec)
            if not m:
                raise ValueError(f"unexpected format spec {spec!r}")
            ws.append((m.group(1) or "<", int(m.group(2))))
        else:
            raise ValueError("unexpected f-string part")
    return ws


def _flatten_fstring(node, env=None):
    """`f"a" f"b" + f"c" * 10` -> list of (parts, repeat); a plain name stands for the f-string expression it was bound to in
    the same function (`env`: a hoisted invariant part)."""
    env = env or {}
    if isinstance(node, ast.JoinedStr):
        return [(node.values, 1)]
    if isinstance(node, ast.BinOp) and isinstance(node.op, ast.Add):
        return _flatten_fstring(node.left, env) + _flatten_fstring(node.right, env)
    if isinstance(node, ast.BinOp) and isinstance(node.op, ast.Mult) and isinstance(node.right, ast.Constant):
        return [(p, r * node.right.value) for p, r in _flatten_fstring(node.left, env)]
    if isinstance(node, ast.Constant) and isinstance(node.value, str):
        return [([node], 1)]
    if isinstance(node, ast.Name) and node.id in env:
        return _flatten_fstring(env[node.id], {k: v for k, v in env.items() if k != node.id})
    raise ValueError("unexpected expression in line template")


def _line_template_widths(func, var):
    """Widths of the fields of the list-comprehension element assigned to `var` in `func`."""
    for node in ast.walk(func):
        if isinstance(node, ast.Assign) and isinstance(node.targets[0], ast.Name) and node.targets[0].id == var:
            val = node.value
            if isinstance(val, ast.ListComp):
                val = val.elt
            out = []
            for parts, rep in _flatten_fstring(val):
                out += _format_widths(parts) * rep
            return out
    raise ValueError(f"{var} template not found")


# ---- pass 7: more of the source turned into regenerated facts (structure, literals, defaults, exception classes)
def _lq(x):
    """Lean string literal."""
    return '"' + str(x).replace("\\", "\\\\").replace('"', '\\"').replace("\n", "\\n").replace("\t", "\\t") + '"'


def _lstrs(xs):
    return "[" + ", ".join(_lq(x) for x in xs) + "]"


def _find_class(tree, name):
    for node in ast.walk(tree):
        if isinstance(node, ast.ClassDef) and node.name == name:
            return node
    raise ValueError(f"class {name} not found")


def _method(cls, name):
    for node in cls.body:
        if isinstance(node, ast.FunctionDef) and node.name == name:
            return node
    raise ValueError(f"method {cls.name}.{name} not found")


def _raises(func, tree=None, keep=()):
    """Exception class names raised in a function, in source order.  With `tree`: the raises of module-private helpers called by
    the function are inserted at the call (an extracted helper does not change which errors are raised, nor their order);
    helpers named in `keep` have their own row and are not inlined."""
    out = []
    for node in _nodes(func):
        if isinstance(node, ast.Raise) and node.exc is not None:
            exc = node.exc.func if isinstance(node.exc, ast.Call) else node.exc
            out.append((node.lineno, node.col_offset, [exc.id if isinstance(exc, ast.Name) else ast.unparse(exc)]))
        elif tree is not None and isinstance(node, ast.Call) and isinstance(node.func, ast.Name) and node.func.id.startswith("_") \
                and node.func.id not in keep and node.func.id != func.name:
            for g in tree.body:
                if isinstance(g, ast.FunctionDef) and g.name == node.func.id:
                    out.append((node.lineno, node.col_offset, _raises(g)))
    return [n for _, _, ns in sorted(out, key=lambda t: (t[0], t[1])) for n in ns]


def _defaults(func, skip_self=True):
    """[(argument, default as source text or '<required>')]"""
    args = func.args.args
    defs = [None] * (len(args) - len(func.args.defaults)) + list(func.args.defaults)
    out = []
    for a, d in zip(args, defs):
        if skip_self and a.arg in ("self", "cls"):
            continue
        out.append((a.arg, "<required>" if d is None else ast.unparse(d)))
    for a, d in zip(func.args.kwonlyargs, func.args.kw_defaults):
        out.append((a.arg, "<required>" if d is None else ast.unparse(d)))
    return out


def _fstring_shape(node, env=None):
    """An f-string (or implicit concatenation / + of them) as a list of pieces: ('lit', text) | ('fmt', spec, kind)."""
    out = []
    for parts, rep in _flatten_fstring(node, env):
        one = []
        for part in parts:
            if isinstance(part, ast.Constant):
                one.append(("lit", str(part.value), ""))
            else:
                spec = ""
                if part.format_spec is not None:
                    spec = "".join(x.value for x in part.format_spec.values if isinstance(x, ast.Constant))
                val = part.value
                if isinstance(val, ast.Constant):
                    kind = "const:" + repr(val.value)
                elif isinstance(val, ast.Call) and isinstance(val.func, ast.Attribute) and val.func.attr == "capitalize":
                    kind = "call:capitalize"
                elif isinstance(val, ast.Call) and isinstance(val.func, ast.Attribute) and val.func.attr == "get" and len(val.args) == 2 \
                        and isinstance(val.args[1], ast.Constant):
                    kind = "dictget-default:" + repr(val.args[1].value)
                elif isinstance(val, ast.BinOp) and isinstance(val.op, ast.Add) and isinstance(val.right, ast.Constant):
                    kind = "plus:" + repr(val.right.value)
                elif isinstance(val, ast.Call) and isinstance(val.func, ast.Name):
                    kind = "call:" + ("private" if val.func.id.startswith("_") else val.func.id)
                else:
                    kind = "value"
                one.append(("fmt", spec, kind))
        out += one * rep
    return out


def _shape_lean(shape):
    return "[" + ", ".join(f"({_lq(a)}, {_lq(b)}, {_lq(c)})" for a, b, c in shape) + "]"


def _assigned(func, var):
    for node in ast.walk(func):
        if isinstance(node, ast.Assign) and isinstance(node.targets[0], ast.Name) and node.targets[0].id == var:
            return node.value
    raise ValueError(f"{func.name}: assignment to {var} not found")


def _sum_items(node):
    """`[a] + xs + ["b"]` -> ['lit:a', 'name:xs', 'lit:b']"""
    if isinstance(node, ast.BinOp) and isinstance(node.op, ast.Add):
        return _sum_items(node.left) + _sum_items(node.right)
    if isinstance(node, ast.List):
        out = []
        for e in node.elts:
            if isinstance(e, ast.Constant):
                out.append("lit:" + str(e.value))
            elif isinstance(e, ast.Name):
                out.append("name:" + e.id)
            else:
                raise ValueError("unexpected list element in a line-list expression")
        return out
    if isinstance(node, ast.Name):
        return ["name:" + node.id]
    raise ValueError("unexpected term in a line-list expression")


def _str_calls(func, method):
    """String constants passed to `<x>.method("...")` in source order."""
    out = []
    for node in ast.walk(func):
        if isinstance(node, ast.Call) and isinstance(node.func, ast.Attribute) and node.func.attr == method and node.args:
            a = node.args[0]
            if isinstance(a, ast.Constant) and isinstance(a.value, str):
                out.append((node.lineno, node.col_offset, a.value))
            elif isinstance(a, ast.JoinedStr):
                out.append((node.lineno, node.col_offset, "".join(x.value if isinstance(x, ast.Constant) else "{}" for x in a.values)))
            elif isinstance(a, ast.Name):
                out.append((node.lineno, node.col_offset, "name:" + a.id))
    return [t for _, _, t in sorted(out)]


def _open_slices(func, exclude=()):
    """`x[k:]` lower bounds of plain names (not in `exclude`) in source order."""
    out = []
    for node in _nodes(func):
        if isinstance(node, ast.Subscript) and isinstance(node.value, ast.Name) and node.value.id not in exclude and isinstance(node.slice, ast.Slice) \
                and node.slice.upper is None and isinstance(node.slice.lower, ast.Constant):
            out.append((node.lineno, node.col_offset, node.slice.lower.value))
    return [k for _, _, k in sorted(out)]


def _const_offsets(func, op):
    """Right-hand constants of `x <op> k` (op = ast.Add / ast.Sub) in a function."""
    return sorted({n.right.value for n in ast.walk(func) if isinstance(n, ast.BinOp) and isinstance(n.op, op)
                   and isinstance(n.right, ast.Constant) and isinstance(n.right.value, int)})


def _gen_more(base, L):
    ctab = ast.parse(open(os.path.join(base, "structure/io/mol/ctab.py")).read())
    sdf = ast.parse(open(os.path.join(base, "structure/io/mol/sdf.py")).read())
    molpy = ast.parse(open(os.path.join(base, "structure/io/mol/mol.py")).read())
    conv = ast.parse(open(os.path.join(base, "structure/io/mol/convert.py")).read())
    hdr = ast.parse(open(os.path.join(base, "structure/io/mol/header.py")).read())
    rd = ast.parse(open(os.path.join(base, "interface/rdkit/mol.py")).read())

    def emit(doc, name, typ, val):
        L.append(f"/-- {doc} -/")
        L.append(f"def {name} : {typ} := {val}")

    wtop, rtop = _find_func(ctab, "write_structure_to_ctab"), _find_func(ctab, "read_structure_from_ctab")
    w2, w3, r2, r3 = _ctab_functions(ctab)
    p2, p3 = _writer_parts(w2, "V2000"), _writer_parts(w3, "COUNTS")
    T3 = "List (String × String × String)"
    emit("ctab.py `V2000_COMPATIBILITY_LINE`", "compatLine", "String", _lq(ast.literal_eval(_find_assign(ctab, "V2000_COMPATIBILITY_LINE"))))
    emit("V2000 counts line f-string: (lit|fmt, text|spec, kind of the formatted value)", "countsLineShape", T3, _shape_lean(_fstring_shape(p2["counts"], p2["env"])))
    emit("V2000 atom line f-string", "atomLineShape", T3, _shape_lean(_fstring_shape(p2["atoms"], p2["env"])))
    emit("V2000 bond line f-string", "bondLineShape", T3, _shape_lean(_fstring_shape(p2["bonds"], p2["env"])))
    # charge line: the argument of charge_lines.append(...)
    app = [n for n in _nodes(w2) if isinstance(n, ast.Call) and isinstance(n.func, ast.Attribute) and n.func.attr == "append"
           and isinstance(n.func.value, ast.Name) and n.args and _fstringish(n.args[0])]
    if len(app) == 1:
        chg_expr, chg_name = app[0].args[0], app[0].func.value.id            # charge_lines.append(f"M  CHG…" + "".join(…))
    elif p2["charges"] is not None:
        chg_expr, chg_name = p2["charges"], None                               # … or a comprehension of the same expression
    else:
        raise ValueError("ctab.py: the `M  CHG` line expression was not found")
    if not (isinstance(chg_expr, ast.BinOp) and isinstance(chg_expr.op, ast.Add)):
        raise ValueError("ctab.py: `f\"M  CHG...\" + \"\".join(...)` not found")
    head, tail = chg_expr.left, chg_expr.right
    if not (isinstance(tail, ast.Call) and isinstance(tail.func, ast.Attribute) and tail.func.attr == "join"
            and isinstance(tail.func.value, ast.Constant) and tail.func.value.value == "" and isinstance(tail.args[0], ast.GeneratorExp)):
        raise ValueError("ctab.py: charge entries are not joined with ''")
    emit("`M  CHG` line head f-string", "chargeHeadShape", T3, _shape_lean(_fstring_shape(head)))
    emit("one `M  CHG` entry f-string", "chargeEntryShape", T3, _shape_lean(_fstring_shape(tail.args[0].elt)))
    roles2 = dict(p2["roles"], **({chg_name: "charges"} if chg_name else {}))

    def by_role(items, roles):
        return [("role:" + roles[i[5:]]) if i.startswith("name:") and i[5:] in roles else i for i in items]
    ret2 = [n for n in ast.walk(w2) if isinstance(n, ast.Return)]
    emit("order of the line groups returned by the V2000 writer (locals named by what they hold)", "v2000LineOrder", "List String",
         _lstrs(by_role(_sum_items(ret2[-1].value), roles2)))
    emit("V3000 counts line f-string", "v3000CountsShape", T3, _shape_lean(_fstring_shape(p3["counts"], p3["env"])))
    emit("V3000 atom line f-string", "v3000AtomShape", T3, _shape_lean(_fstring_shape(p3["atoms"], p3["env"])))
    emit("V3000 bond line f-string", "v3000BondShape", T3, _shape_lean(_fstring_shape(p3["bonds"], p3["env"])))
    # lines = (["BEGIN CTAB"] + ...); lines = ["M  V30 " + line for line in lines]; return [COMPAT] + lines + ["M  END"]
    pairs3 = _assign_pairs(w3)
    skeleton = [(nm, v) for nm, v in pairs3 if isinstance(v, ast.BinOp) and isinstance(v.op, ast.Add) and not _fstringish(v)
                and any(isinstance(c, ast.List) for c in ast.walk(v))]
    prefixed = [(nm, v) for nm, v in pairs3 if isinstance(v, ast.ListComp) and isinstance(v.elt, ast.BinOp) and isinstance(v.elt.left, ast.Constant)]
    if len(skeleton) != 1 or len(prefixed) != 1:
        raise ValueError("ctab.py: V3000 line skeleton / `M  V30 ` prefix not found")
    roles3 = dict(p3["roles"], **{skeleton[0][0]: "lines", prefixed[0][0]: "lines"})
    skeleton, prefixed = [skeleton[0][1]], [prefixed[0][1]]
    emit("V3000 block skeleton", "v3000Skeleton", "List String", _lstrs(by_role(_sum_items(skeleton[0]), roles3)))
    emit("prefix of every V3000 line", "v30Prefix", "String", _lq(prefixed[0].elt.left.value))
    ret3 = [n for n in ast.walk(w3) if isinstance(n, ast.Return)]
    emit("what the V3000 writer returns", "v3000Return", "List String", _lstrs(by_role(_sum_items(ret3[-1].value), roles3)))
    # the two private helpers of the V3000 atom line, in the order they are used: quoting, charge property
    helpers3 = [x.value.func.id for parts_, _ in _flatten_fstring(p3["atoms"], p3["env"]) for x in parts_ if isinstance(x, ast.FormattedValue)
                and isinstance(x.value, ast.Call) and isinstance(x.value.func, ast.Name) and x.value.func.id.startswith("_")]
    if len(helpers3) != 2:
        raise ValueError("ctab.py: the quoting / charge-property helpers of the V3000 atom line were not found")
    tp = _find_func(ctab, helpers3[1])
    emit("`_to_property`: compare ops / constants and the f-string", "toPropertyShape", "List String",
         _lstrs([type(n.ops[0]).__name__ + ":" + repr(n.comparators[0].value) for n in ast.walk(tp) if isinstance(n, ast.Compare)]
                + ["".join(x.value if isinstance(x, ast.Constant) else "{}" for x in n.values) for n in ast.walk(tp) if isinstance(n, ast.JoinedStr)]
                + [repr(n.value.value) for n in ast.walk(tp) if isinstance(n, ast.Return) and isinstance(n.value, ast.Constant)]))
    qf = _find_func(ctab, helpers3[0])
    def cmp_kinds(func):
        """compare operators with their constant operand, boolean connectives — without the names of locals"""
        out = []
        for n in ast.walk(func):
            if isinstance(n, ast.BoolOp):
                out.append((n.lineno, n.col_offset, type(n.op).__name__))
            elif isinstance(n, ast.Compare):
                consts = [repr(c.value) for c in [n.left] + n.comparators if isinstance(c, ast.Constant)]
                out.append((n.lineno, n.col_offset + 1, type(n.ops[0]).__name__ + ":" + ",".join(consts)))
        return [t for _, _, t in sorted(out)]
    emit("`_quote`: connective, tests (operator:constant) and the quoted form", "quoteShape", "List String",
         _lstrs(cmp_kinds(qf)
                + ["".join(x.value if isinstance(x, ast.Constant) else "{}" for x in n.values) for n in ast.walk(qf) if isinstance(n, ast.JoinedStr)]))
    # reader literals
    emit("`startswith(...)` literals of the V2000 reader", "r2StartsWith", "List String", _lstrs(_str_calls(r2, "startswith")))
    emit("`line[k:]` of the V2000 reader (`M  CHGnn8` prefix)", "r2OpenSlices", "List Nat", str(_open_slices(r2)))
    emit("`startswith(...)` literals of the V3000 reader", "r3StartsWith", "List String", _lstrs(_str_calls(r3, "startswith")))
    # names holding the blank-separated columns of a line: assigned from a `.split(...)` call
    col_vars = {nm for nm, v in _assign_pairs(r3) if isinstance(v, ast.Call) and getattr(v.func, "attr", "") == "split"}
    emit("`line[k:]` of the V3000 reader", "r3OpenSlices", "List Nat", str(_open_slices(r3, exclude=col_vars)))
    block_calls = [n for n in _nodes(r3) if isinstance(n, ast.Call) and isinstance(n.func, ast.Name) and len(n.args) == 2
                   and isinstance(n.args[1], ast.Constant) and isinstance(n.args[1].value, str)]
    if not block_calls or len({n.func.id for n in block_calls}) != 1:
        raise ValueError("ctab.py: the block scanner called by the V3000 reader was not found")
    gb = _find_func(ctab, block_calls[0].func.id)
    emit("`_get_block_v3000`: startswith patterns in source order", "blockMarkers", "List String", _lstrs(_str_calls(gb, "startswith")))
    blocks = [n.args[1].value for n in sorted(block_calls, key=lambda n: n.lineno)]
    emit("blocks the V3000 reader asks for, in order", "blocksRead", "List String", _lstrs(blocks))
    # V3000 reader column indices: columns[k] and columns[a:b], columns[k:]
    cols = []
    for n in ast.walk(r3):
        if isinstance(n, ast.Subscript) and isinstance(n.value, ast.Name) and n.value.id in col_vars:
            cols.append((n.lineno, n.col_offset, ast.unparse(n.slice)))
    emit("`columns[...]` subscripts of the V3000 reader in source order", "r3Columns", "List String", _lstrs([c for _, _, c in sorted(cols)]))
    emit("string constants compared / looked up by the V3000 reader", "r3Strings", "List String",
         _lstrs(sorted({n.value for n in ast.walk(r3) if isinstance(n, ast.Constant) and isinstance(n.value, str) and n.value in ("R#", "CHG", "'", '"')})))
    pd = _find_func(ctab, "create_property_dict_v3000")
    emit("`create_property_dict_v3000`: split separator", "propSplit", "List String", _lstrs(_str_calls(pd, "split")))
    emit("`x - k` constants in the readers (1-based file indices)", "readerMinus", "List Int", str(sorted(set(_const_offsets(r2, ast.Sub) + _const_offsets(r3, ast.Sub)))))
    emit("`x + k` constants in the writers", "writerPlus", "List Int", str(sorted(set(_const_offsets(w2, ast.Add) + _const_offsets(w3, ast.Add)))))
    emit("version strings matched by the dispatchers (`case \"…\"`)", "versionCases", "List String",
         _lstrs([n.pattern.value.value if isinstance(n.pattern, ast.MatchValue) else ("None" if isinstance(n.pattern, ast.MatchSingleton) else "<capture>")
                 for f in (rtop, wtop) for n in ast.walk(f) if isinstance(n, ast.match_case)]))
    # order of the guards of the V2000 writer
    def line_of(func, pred, what):
        ls = [n.lineno for n in ast.walk(func) if pred(n)]
        if not ls:
            raise ValueError(f"{func.name}: {what} not found")
        return min(ls)
    coord_guard = _digit_guard(w2, ctab)[1]
    elem_cmp = [n for n in _nodes(w2) if isinstance(n, ast.Compare) and isinstance(n.left, ast.Call) and getattr(n.left.func, "id", "") == "len"
                and isinstance(n.comparators[0], ast.Constant)]
    if len(elem_cmp) != 1:
        raise ValueError("_write_structure_to_ctab_v2000: element width guard not found")
    dflt_line = line_of(w2, lambda n: isinstance(n, ast.Subscript) and isinstance(n.value, ast.Name) and n.value.id == "BOND_TYPE_MAPPING_REV", "default bond lookup")
    atom_line = p2["atoms"].lineno
    emit("V2000 writer: the element width guard `len(element) <op> k`", "elemGuard", "String × Nat",
         f"({_lq(type(elem_cmp[0].ops[0]).__name__)}, {elem_cmp[0].comparators[0].value})")
    emit("V2000 writer: coordinate guard < element guard < atom lines < default-bond lookup (source order)", "v2000GuardOrder", "Bool",
         "true" if coord_guard < elem_cmp[0].lineno < atom_line < dflt_line else "false")
    # exceptions
    mdcls, sdcls, srcls, mfcls = _find_class(sdf, "Metadata"), _find_class(sdf, "SDFile"), _find_class(sdf, "SDRecord"), _find_class(molpy, "MOLFile")
    keycls = [n for n in mdcls.body if isinstance(n, ast.ClassDef) and n.name == "Key"][0]
    hcls = _find_class(hdr, "Header")
    def sole_private_callee(func, what, tree, pred=lambda g: True):
        names = [n for n in _private_calls(func) if any(isinstance(g, ast.FunctionDef) and g.name == n and pred(g) for g in tree.body)]
        if len(names) != 1:
            raise ValueError(f"{what}: expected exactly one module-private helper to be called, found {names}")
        return _find_func(tree, names[0])
    cmv = sole_private_callee(_method(mdcls, "__setitem__"), "Metadata.__setitem__ (value check)", sdf,
                              lambda g: any(isinstance(n, ast.Call) and getattr(n.func, "attr", "") == "splitlines" for n in ast.walk(g)))
    addpair = [n for n in _private_calls(_method(mdcls, "deserialize")) if any(isinstance(g, ast.FunctionDef) and g.name == n for g in sdf.body)]
    if not addpair:
        raise ValueError("Metadata.deserialize: the helper that stores a key/value pair was not found")
    keep_c = {w2.name, w3.name, r2.name, r3.name, gb.name}
    raises = [("write_structure_to_ctab", _raises(wtop, ctab, keep_c)), ("v2000-writer", _raises(w2, ctab, keep_c)), ("v3000-writer", _raises(w3, ctab, keep_c)),
              ("read_structure_from_ctab", _raises(rtop, ctab, keep_c)), ("v3000-reader", _raises(r3, ctab, keep_c)), ("v3000-block-scan", _raises(gb)),
              ("Key.__post_init__", _raises(_method(keycls, "__post_init__"))), ("Key.deserialize", _raises(_method(keycls, "deserialize"))),
              ("Metadata.deserialize", _raises(_method(mdcls, "deserialize"))), ("metadata-value-check", _raises(cmv)),
              ("metadata-add-pair", _raises(_find_func(sdf, addpair[0]))),
              ("SDRecord.get_structure", _raises(_method(srcls, "get_structure"))), ("SDFile.serialize", _raises(_method(sdcls, "serialize"))),
              ("SDFile.__getitem__", _raises(_method(sdcls, "__getitem__"))), ("SDFile.__setitem__", _raises(_method(sdcls, "__setitem__"))),
              ("SDFile.record", _raises(_method(sdcls, "record"))), ("Header.serialize", _raises(_method(hcls, "serialize"))),
              ("MOLFile.get_structure", _raises(_method(mfcls, "get_structure"))), ("to_mol", _raises(_find_func(rd, "to_mol"), rd)),
              ("from_mol", _raises(_find_func(rd, "from_mol"), rd))]
    emit("exception classes raised, per function, in source order", "raisesTable", "List (String × List String)",
         "[" + ", ".join(f"({_lq(n)}, {_lstrs(r)})" for n, r in raises) + "]")
    # defaults
    defs = [("write_structure_to_ctab", _defaults(wtop)), ("MOLFile.set_structure", _defaults(_method(mfcls, "set_structure"))),
            ("SDRecord.set_structure", _defaults(_method(srcls, "set_structure"))), ("SDRecord.__init__", _defaults(_method(srcls, "__init__"))),
            ("SDFile.__init__", _defaults(_method(sdcls, "__init__"))), ("Metadata.__init__", _defaults(_method(mdcls, "__init__"))),
            ("convert.get_structure", _defaults(_find_func(conv, "get_structure"))), ("convert.set_structure", _defaults(_find_func(conv, "set_structure"))),
            ("to_mol", _defaults(_find_func(rd, "to_mol"))), ("from_mol", _defaults(_find_func(rd, "from_mol")))]
    for cls, nm in ((hcls, "Header"), (keycls, "Metadata.Key")):
        fs = [(n.target.id, ast.unparse(n.value) if n.value is not None else "<required>") for n in cls.body
              if isinstance(n, ast.AnnAssign) and isinstance(n.target, ast.Name) and not n.target.id.startswith("_")]
        defs.append((nm, fs))
    emit("default values of the public entry points (argument, default as source text)", "defaultsTable", "List (String × List (String × String))",
         "[" + ", ".join(f"({_lq(n)}, [" + ", ".join(f"({_lq(a)}, {_lq(d)})" for a, d in ds) + "])" for n, ds in defs) + "]")
    # sdf.py / mol.py / convert.py constants
    # the function that finds the end of the CTAB in a record / in a MOL file: the private helper called by the public method
    gcs = sole_private_callee(_method(srcls, "deserialize"), "SDRecord.deserialize (CTAB end)",
                              ast.Module(body=[g for g in sdf.body if isinstance(g, ast.FunctionDef) and any(
                                  isinstance(c, ast.Constant) and c.value == "M  END" for c in ast.walk(g))], type_ignores=[]))
    gcl = sole_private_callee(_method(mfcls, "get_structure"), "MOLFile.get_structure (CTAB lines)", molpy)

    def value_of(tree, node):
        """an int/str constant, or the literal value of the module constant a name refers to"""
        if isinstance(node, ast.Constant):
            return node.value
        if isinstance(node, ast.Name):
            return _module_value(tree, node.id)
        raise ValueError("constant or module constant expected")
    sdes, sser = _method(sdcls, "deserialize"), _method(sdcls, "serialize")
    delim_names = {n.args[0].id for n in _nodes(sdes) if isinstance(n, ast.Call) and getattr(n.func, "attr", "") == "startswith" and n.args
                   and isinstance(n.args[0], ast.Name)} | \
        {c.id for n in _nodes(sdes) if isinstance(n, ast.Compare) and isinstance(n.ops[0], ast.In) for c in [n.left] if isinstance(c, ast.Name)}
    delim_names = {d_ for d_ in delim_names if any(isinstance(b, (ast.Assign, ast.AnnAssign)) for b in sdf.body) and
                   any((isinstance(b, ast.Assign) and getattr(b.targets[0], "id", None) == d_) or
                       (isinstance(b, ast.AnnAssign) and getattr(b.target, "id", None) == d_) for b in sdf.body)}
    if len(delim_names) != 1:
        raise ValueError("SDFile.deserialize: the record delimiter constant was not found")
    delim_name = delim_names.pop()
    rng_calls = [n for n in _nodes(gcs) if isinstance(n, ast.Call) and getattr(n.func, "id", "") == "range"]
    enum_calls = [n for n in _nodes(gcs) if isinstance(n, ast.Call) and getattr(n.func, "id", "") == "enumerate" and len(n.args) == 1 and not n.keywords]
    ge = [n for n in _nodes(gcs) if isinstance(n, ast.Compare) and isinstance(n.ops[0], ast.GtE) and isinstance(n.left, ast.Name)]
    if len(rng_calls) == 1:
        scan = (f"args:{len(rng_calls[0].args)}", value_of(sdf, rng_calls[0].args[0]))
    elif len(enum_calls) == 1 and len(ge) == 1:
        scan = ("args:2", value_of(sdf, ge[0].comparators[0]))      # `for i, line in enumerate(lines): if i >= K and …` = range(K, len)
    else:
        raise ValueError("CTAB end of a record: neither `range(start, len)` nor `enumerate(lines)` with `i >= start` found")
    emit("sdf.py: number of header lines (start of the scan for the CTAB end), mol.py `N_HEADER`", "nHeader", "Nat × Nat",
         f"({scan[1]}, {_module_value(molpy, 'N_HEADER')})")
    emit("sdf.py: the record delimiter", "recordDelimiter", "String", _lq(_module_value(sdf, delim_name)))
    def regex_src(node):
        if isinstance(node, ast.Call) and getattr(node.func, "attr", "") == "compile" and isinstance(node.args[0], ast.Constant):
            return node.args[0].value
        raise ValueError("re.compile(<literal>) expected")
    class_values = [n.value for n in keycls.body if isinstance(n, (ast.Assign, ast.AnnAssign)) and n.value is not None]
    name_re = [v for v in class_values if isinstance(v, ast.Call) and getattr(v.func, "attr", "") == "compile"]
    comp_re = [v for v in class_values if isinstance(v, ast.Dict) and v.values and all(
        isinstance(x, ast.Call) and getattr(x.func, "attr", "") == "compile" for x in v.values)]
    if len(name_re) != 1 or len(comp_re) != 1 or not isinstance(comp_re[0], ast.Dict):
        raise ValueError("sdf.py: key regexes not found")
    emit("`Metadata.Key._NAME_INPUT_REGEX`", "keyNameRegex", "String", _lq(regex_src(name_re[0])))
    emit("`Metadata.Key._COMPONENT_REGEX` in dict order", "keyComponentRegex", "List (String × String)",
         "[" + ", ".join(f"({_lq(k.value)}, {_lq(regex_src(v))})" for k, v in zip(comp_re[0].keys, comp_re[0].values)) + "]")
    post = _method(keycls, "__post_init__")
    ext_re = [n.args[0].value for n in ast.walk(post) if isinstance(n, ast.Call) and getattr(n.func, "attr", "") == "match" and n.args
              and isinstance(n.args[0], ast.Constant)]
    emit("regex applied to `registry_external` in `__post_init__`", "keyExtRegex", "List String", _lstrs(ext_re))
    emit("`__post_init__`: compare ops against constants (`< 0` …)", "keyNumberGuards", "List String",
         _lstrs([type(n.ops[0]).__name__ + ":" + repr(n.comparators[0].value) for n in ast.walk(post) if isinstance(n, ast.Compare)
                 and isinstance(n.comparators[0], ast.Constant) and isinstance(n.comparators[0].value, int)]))
    kser = _method(keycls, "serialize")
    pieces = []
    for n in ast.walk(kser):
        if isinstance(n, ast.Assign) and isinstance(n.value, ast.Constant):
            pieces.append((n.lineno, "init:" + n.value.value))
        elif isinstance(n, ast.AugAssign) and isinstance(n.value, ast.JoinedStr):
            pat = "".join(x.value if isinstance(x, ast.Constant) else "{" + (x.value.attr if isinstance(x.value, ast.Attribute) else "?") + "}" for x in n.value.values)
            pieces.append((n.lineno, pat))
    emit("`Key.serialize`: the pieces appended, in order", "keySerializePieces", "List String", _lstrs([t for _, t in sorted(pieces)]))
    emit("`_check_metadata_value`: startswith / split literals, then the tests (operator:constant; `call:` = a method result is tested)", "valueChecks", "List String",
         _lstrs(_str_calls(cmv, "startswith") + _str_calls(cmv, "split")
                + [("call:" + n.test.func.attr) if isinstance(n.test, ast.Call) and isinstance(n.test.func, ast.Attribute) else
                   (type(n.test.ops[0]).__name__ + ":" + ",".join(repr(c.value) for c in n.test.comparators if isinstance(c, ast.Constant))
                    + ("/" + n.test.left.func.attr if isinstance(n.test.left, ast.Call) and isinstance(n.test.left.func, ast.Attribute) else ""))
                   for n in ast.walk(cmv) if isinstance(n, ast.If)]))
    mdes = _method(mdcls, "deserialize")
    emit("`Metadata.deserialize`: startswith literal and the join separator", "mdDeserializeStrings", "List String",
         _lstrs(_str_calls(mdes, "startswith") + sorted({n.value for n in ast.walk(mdes) if isinstance(n, ast.Constant) and n.value == "\n"})))
    emit("`_get_ctab_stop`: number of range arguments (2 = forward scan), its start, the startswith literal, `return i + k`", "ctabStopShape", "List String",
         _lstrs([scan[0], "start:" + repr(scan[1])] + _str_calls(gcs, "startswith")
                + ["ret:+" + repr(n.value.right.value) for n in ast.walk(gcs) if isinstance(n, ast.Return) and isinstance(n.value, ast.BinOp)
                   and isinstance(n.value.op, ast.Add) and isinstance(n.value.right, ast.Constant)]))
    fors = [n.iter for n in _nodes(gcl) if isinstance(n, ast.For)]
    if len(fors) != 1:
        raise ValueError("_get_ctab_lines: loop not found")
    it = fors[0]
    if isinstance(it, ast.Call) and getattr(it.func, "id", "") == "enumerate" and isinstance(it.args[0], ast.Subscript) \
            and isinstance(it.args[0].slice, ast.Slice) and it.args[0].slice.upper is None \
            and [value_of(molpy, k.value) for k in it.keywords if k.arg == "start"] == [value_of(molpy, it.args[0].slice.lower)]:
        src = "forward-from:" + repr(value_of(molpy, it.args[0].slice.lower))        # enumerate(lines[K:], start=K)
    elif isinstance(it, ast.Call) and getattr(it.func, "id", "") == "range" and len(it.args) == 2:
        src = "forward-from:" + repr(value_of(molpy, it.args[0]))                      # range(K, len(lines))
    elif isinstance(it, ast.Call) and getattr(it.func, "id", "") == "enumerate":
        src = "forward-from:0"
    else:
        src = "other"
    emit("mol.py `_get_ctab_lines`: where the scan for `M  END` starts, the startswith literal", "ctabLinesShape", "List String",
         _lstrs([src] + _str_calls(gcl, "startswith")))
    def delim_tests(func):
        out = []
        for n in _nodes(func):
            if isinstance(n, ast.Call) and getattr(n.func, "attr", "") in ("startswith", "endswith") and n.args and isinstance(n.args[0], ast.Name) \
                    and n.args[0].id == delim_name:
                out.append(n.func.attr + ":delimiter")
            elif isinstance(n, ast.Compare) and isinstance(n.ops[0], (ast.In, ast.Eq)) and isinstance(n.left, ast.Name) and n.left.id == delim_name:
                out.append(type(n.ops[0]).__name__ + ":delimiter")
        return out
    emit("`SDFile.deserialize`: how a delimiter line is recognised", "delimiterTest", "List String", _lstrs(delim_tests(sdes)))
    emit("`SDFile.serialize`: the delimiter-line check", "delimiterCheck", "List String", _lstrs(delim_tests(sser)))
    goc = sole_private_callee(_find_func(conv, "set_structure"), "convert.set_structure", conv)
    emit("convert.py `_get_or_create_record`: the invented record name, and the membership guard before a record is created", "convertShape", "List String",
         _lstrs([n.value.value for n in ast.walk(goc) if isinstance(n, ast.Assign) and isinstance(n.value, ast.Constant) and isinstance(n.value.value, str)]
                + [type(n.test.ops[0]).__name__ for n in ast.walk(goc) if isinstance(n, ast.If) and isinstance(n.test, ast.Compare)
                   and isinstance(n.test.ops[0], (ast.In, ast.NotIn))]))
    # header.py: which field is read from which slice, in which order the fields are written
    hde = _method(hcls, "deserialize")
    fs = []
    for n in ast.walk(hde):
        if isinstance(n, ast.Assign) and isinstance(n.targets[0], ast.Name):
            for sub in ast.walk(n.value):
                if isinstance(sub, ast.Subscript) and isinstance(sub.slice, ast.Slice) and isinstance(sub.value, ast.Subscript) \
                        and isinstance(sub.slice.lower, ast.Constant):
                    fs.append((sub.slice.lower.value, n.targets[0].id, sub.slice.upper.value,
                               any(isinstance(c, ast.Call) and getattr(c.func, "attr", "") == "strip" for c in ast.walk(n.value))))
    # local variable -> Header field: position in the final `Header(...)` call
    hfields = [n.target.id for n in hcls.body if isinstance(n, ast.AnnAssign) and isinstance(n.target, ast.Name) and not n.target.id.startswith("_")]
    hcalls = [n for n in ast.walk(hde) if isinstance(n, ast.Call) and getattr(n.func, "id", "") == "Header"]
    if len(hcalls) != 1:
        raise ValueError("Header.deserialize: `Header(...)` call not found")
    pos = {a.id: hfields[i] for i, a in enumerate(hcalls[0].args) if isinstance(a, ast.Name) and i < len(hfields)}
    pos.update({k.value.id: k.arg for k in hcalls[0].keywords if isinstance(k.value, ast.Name)})
    emit("header.py: (Header field, start, stop, stripped) read from the second line (`time`: via strptime)", "headerFieldSlices", "List (String × Nat × Nat × Bool)",
         "[" + ", ".join(f"({_lq(pos.get(nm, 'time'))}, {a}, {b}, {'true' if st else 'false'})" for a, nm, b, st in sorted(fs)) + "]")
    emit("header.py: the dataclass fields of `Header` in order (the adapters construct it positionally)", "headerDataclassFields", "List String", _lstrs(hfields))
    hse = _method(hcls, "serialize")
    joined = [n for n in ast.walk(hse) if isinstance(n, ast.JoinedStr) and sum(isinstance(v, ast.FormattedValue) for v in n.values) >= 5][0]
    emit("header.py: fields written into the second line, in order", "headerWriteOrder", "List String",
         _lstrs([x.value.attr if isinstance(x.value, ast.Attribute) else "time" for x in joined.values if isinstance(x, ast.FormattedValue)]))
    emit("header.py: indices of the lines the three parts are read from", "headerLineIndices", "List Nat",
         str(sorted({n.slice.value for n in ast.walk(hde) if isinstance(n, ast.Subscript) and isinstance(n.value, ast.Name)
                     and isinstance(n.slice, ast.Constant) and isinstance(n.slice.value, int)})))
    # rdkit: keyword of AddConformer
    tm = _find_func(rd, "to_mol")
    emit("to_mol: keywords of `mol.AddConformer(...)`", "addConformerKeywords", "List String",
         _lstrs([f"{k.arg}={ast.unparse(k.value)}" for n in ast.walk(tm) if isinstance(n, ast.Call) and getattr(n.func, "attr", "") == "AddConformer" for k in n.keywords]))
    return L



# every definition `_gen_more` emits, with its Lean type: what is still missing after a failure gets the type's empty value,
# so that the Gen file always compiles and the failure shows up as broken NAMED obligations (C18_gen_*), never as a crash
GEN_MORE_DECLS = [
    ('compatLine', 'String'),
    ('countsLineShape', 'List (String × String × String)'),
    ('atomLineShape', 'List (String × String × String)'),
    ('bondLineShape', 'List (String × String × String)'),
    ('chargeHeadShape', 'List (String × String × String)'),
    ('chargeEntryShape', 'List (String × String × String)'),
    ('v2000LineOrder', 'List String'),
    ('v3000CountsShape', 'List (String × String × String)'),
    ('v3000AtomShape', 'List (String × String × String)'),
    ('v3000BondShape', 'List (String × String × String)'),
    ('v3000Skeleton', 'List String'),
    ('v30Prefix', 'String'),
    ('v3000Return', 'List String'),
    ('toPropertyShape', 'List String'),
    ('quoteShape', 'List String'),
    ('r2StartsWith', 'List String'),
    ('r2OpenSlices', 'List Nat'),
    ('r3StartsWith', 'List String'),
    ('r3OpenSlices', 'List Nat'),
    ('blockMarkers', 'List String'),
    ('blocksRead', 'List String'),
    ('r3Columns', 'List String'),
    ('r3Strings', 'List String'),
    ('propSplit', 'List String'),
    ('readerMinus', 'List Int'),
    ('writerPlus', 'List Int'),
    ('versionCases', 'List String'),
    ('elemGuard', 'String × Nat'),
    ('v2000GuardOrder', 'Bool'),
    ('raisesTable', 'List (String × List String)'),
    ('defaultsTable', 'List (String × List (String × String))'),
    ('nHeader', 'Nat × Nat'),
    ('recordDelimiter', 'String'),
    ('keyNameRegex', 'String'),
    ('keyComponentRegex', 'List (String × String)'),
    ('keyExtRegex', 'List String'),
    ('keyNumberGuards', 'List String'),
    ('keySerializePieces', 'List String'),
    ('valueChecks', 'List String'),
    ('mdDeserializeStrings', 'List String'),
    ('ctabStopShape', 'List String'),
    ('ctabLinesShape', 'List String'),
    ('delimiterTest', 'List String'),
    ('delimiterCheck', 'List String'),
    ('convertShape', 'List String'),
    ('headerFieldSlices', 'List (String × Nat × Nat × Bool)'),
    ('headerDataclassFields', 'List String'),
    ('headerWriteOrder', 'List String'),
    ('headerLineIndices', 'List Nat'),
    ('addConformerKeywords', 'List String'),
]


def _lean_default(typ):
    typ = typ.strip()
    if typ.startswith("List"):
        return "[]"
    if "×" in typ:
        return "(" + ", ".join(_lean_default(t) for t in typ.split("×")) + ")"
    return {"String": '""', "Nat": "0", "Int": "0", "Bool": "false"}[typ]


def _gen_more_total(base, problems):
    L = []
    try:
        _gen_more(base, L)
    except Exception as e:  # noqa: BLE001
        problems.append("structure of the source: " + str(e))
    have = {l.split()[1] for l in L if l.startswith("def ")}
    for name, typ in GEN_MORE_DECLS:
        if name not in have:
            L.append(f"def {name} : {typ} := {_lean_default(typ)}")
    return L



def gen_lean():
    from common import paths
    base = os.path.join(paths.SRC, "biotite")
    ctab = ast.parse(open(os.path.join(base, "structure/io/mol/ctab.py")).read())
    rd = ast.parse(open(os.path.join(base, "interface/rdkit/mol.py")).read())
    pyx = open(os.path.join(base, "structure/bonds.pyx")).read()
    m = re.search(r"class BondType\(IntEnum\):(.*?)\n    def ", pyx, re.S)
    if not m:
        raise ValueError("BondType enum not found in bonds.pyx")
    enum = {n: int(v) for n, v in re.findall(r"^\s+([A-Z_]+)\s*=\s*(\d+)\s*$", m.group(1), re.M)}
    if len(enum) < 5:
        raise ValueError("BondType enum members not found")

    def bt(node):
        name, _ = _attr_name(node, "BondType")
        if name not in enum:
            raise ValueError(f"unknown BondType.{name}")
        return enum[name]

    def intlit(node):
        v = ast.literal_eval(node)
        if not isinstance(v, int):
            raise ValueError("integer literal expected")
        return v

    problems = []
    try:
        d = _find_assign(ctab, "BOND_TYPE_MAPPING")
        bond_map = [(intlit(k), bt(v)) for k, v in zip(d.keys, d.values)]
        d = _find_assign(ctab, "CHARGE_MAPPING")
        charge_map = [(intlit(k), intlit(v)) for k, v in zip(d.keys, d.values)]
        for nm in ("BOND_TYPE_MAPPING_REV", "CHARGE_MAPPING_REV"):
            r = _find_assign(ctab, nm)
            if not (isinstance(r, ast.DictComp) and isinstance(r.key, ast.Name) and isinstance(r.value, ast.Name)
                    and r.key.id != r.value.id):
                raise ValueError(f"{nm} is not the swapped dict comprehension")
        n_chg = intlit(_find_assign(ctab, "N_CHARGES_PER_LINE"))
        wtop_, rtop_ = _find_func(ctab, "write_structure_to_ctab"), _find_func(ctab, "read_structure_from_ctab")
        # the size test: the private function called in the dispatcher whose single return is `a < K and b < K`
        def size_test_value(g):
            rets = [n for n in ast.walk(g) if isinstance(n, ast.Return)]
            if len(rets) != 1 or len(g.args.args) != 2:
                return None
            v = rets[0].value
            if isinstance(v, ast.BoolOp) and isinstance(v.op, ast.And):
                return list(v.values)                                           # a < K and b < K
            if isinstance(v, ast.Compare) and isinstance(v.left, ast.Call) and getattr(v.left.func, "id", "") == "max" and len(v.ops) == 1:
                return [ast.Compare(left=a, ops=v.ops, comparators=v.comparators) for a in v.left.args]      # max(a, b) < K
            return None
        cands = [g for g in ctab.body if isinstance(g, ast.FunctionDef) and g.name in _private_calls(wtop_) and size_test_value(g) is not None]
        if len(cands) != 1:
            raise ValueError("write_structure_to_ctab: the V2000 size test (`a < K and b < K`) was not found")
        f = cands[0]
        bounds = []
        for cmp_ in size_test_value(f):
            if not (isinstance(cmp_, ast.Compare) and len(cmp_.ops) == 1 and isinstance(cmp_.left, ast.Name)):
                raise ValueError("_is_v2000_compatible: unexpected comparison")
            op = {ast.Lt: 0, ast.LtE: 1}.get(type(cmp_.ops[0]))
            if op is None:
                raise ValueError("_is_v2000_compatible: unexpected operator")
            bounds.append((cmp_.left.id, intlit(cmp_.comparators[0]) + op))      # exclusive bound
        args = [a.arg for a in f.args.args]
        excl = [b for a in args for (nm, b) in bounds if nm == a]
        if len(excl) != 2:
            raise ValueError("_is_v2000_compatible: both arguments must be bounded")
        # coordinate digit limit in both writers
        w2_, w3_, rdr, _r3 = _ctab_functions(ctab)
        digit_limits = [_digit_guard(w2_, ctab)[0], _digit_guard(w3_, ctab)[0]]
        slices = _slices_of(rdr)
        # the counts parser: the call whose result is unpacked into two names; the version getter: the subject of the `match`
        counts_fn = [n.value.func.id for n in _nodes(rdr) if isinstance(n, ast.Assign) and isinstance(n.targets[0], ast.Tuple)
                     and isinstance(n.value, ast.Call) and isinstance(n.value.func, ast.Name)]
        # the version getter: the private helper of the reading dispatcher that cuts one constant slice out of a line
        version_fn = [nm for nm in _private_calls(rtop_) if any(isinstance(g, ast.FunctionDef) and g.name == nm and g is not rdr and g is not _r3
                                                                   and len(_slices_of(g)) == 1 for g in ctab.body)]
        if len(counts_fn) != 1 or len(version_fn) != 1:
            raise ValueError("ctab.py: counts parser / version getter not found")
        counts_slices = _slices_of(_find_func(ctab, counts_fn[0]))
        version_slice = _slices_of(_find_func(ctab, version_fn[0]))
        parts2 = _writer_parts(w2_, "V2000")

        def widths_of(expr):
            out_ = []
            for parts_, rep_ in _flatten_fstring(expr, parts2["env"]):
                out_ += _format_widths(parts_) * rep_
            return out_
        atom_w, bond_w, counts_w = widths_of(parts2["atoms"]), widths_of(parts2["bonds"]), widths_of(parts2["counts"])
    except Exception as e:  # noqa: BLE001   (the facts of this group become empty: a NAMED obligation breaks)
        problems.append("ctab.py tables / layout: " + str(e))
        bond_map = []
        charge_map = []
        n_chg = 0
        excl = [0, 0]
        digit_limits = []
        slices = []
        counts_slices = []
        version_slice = []
        atom_w = []
        bond_w = []
        counts_w = []
    try:
        def rdname(node):
            name, chem = _attr_name(node, "BondType")
            if not chem:
                raise ValueError("expected Chem.BondType.<member>")
            return name

        d = _dicts_of(rd, "bt", "rd")
        to_rd = [(bt(k), rdname(v)) for k, v in zip(d.keys, d.values)]
        d = _dicts_of(rd, "rd", "bt")
        from_rd = [(rdname(k), bt(v)) for k, v in zip(d.keys, d.values)]
        d = _dicts_of(rd, "bt", "bt")
        kek = [(bt(k), bt(v)) for k, v in zip(d.keys, d.values)]
    except Exception as e:  # noqa: BLE001   (the facts of this group become empty: a NAMED obligation breaks)
        problems.append("rdkit bond tables: " + str(e))
        to_rd = []
        from_rd = []
        kek = []
    try:
        # header.py: slices of the second header line, widths/precisions of the writer's f-string, date format, name limit
        hdr = ast.parse(open(os.path.join(base, "structure/io/mol/header.py")).read())
        hde = _find_func(hdr, "deserialize")
        hs_raw = []
        def is_line1(x, func):
            """`<name>[1]`, or a local that was bound to it"""
            if isinstance(x, ast.Subscript) and isinstance(x.value, ast.Name) and isinstance(x.slice, ast.Constant) and x.slice.value == 1:
                return True
            return isinstance(x, ast.Name) and any(nm == x.id and is_line1(v, None) for nm, v in (_assign_pairs(func) if func is not None else []))
        for node in _nodes(hde):
            if isinstance(node, ast.Subscript) and isinstance(node.slice, ast.Slice) and is_line1(node.value, hde):
                lo, hi = node.slice.lower, node.slice.upper
                if not (isinstance(lo, ast.Constant) and isinstance(hi, ast.Constant)):
                    raise ValueError("header.py: non-constant slice of lines[1]")
                hs_raw.append((node.lineno, node.col_offset, lo.value, hi.value))
        header_slices = [(a, b) for _, _, a, b in sorted(hs_raw)]
        if len(header_slices) < 5:
            raise ValueError("header.py: slices of lines[1] not found")
        hse = _find_func(hdr, "serialize")
        joined = [n for n in ast.walk(hse) if isinstance(n, ast.JoinedStr)
                  and sum(isinstance(v, ast.FormattedValue) for v in n.values) >= 5]
        if len(joined) != 1:
            raise ValueError("header.py: fixed-column f-string not found")
        header_fields = []
        for part in joined[0].values:
            if isinstance(part, ast.FormattedValue):
                spec = "".join(p_.value for p_ in part.format_spec.values if isinstance(p_, ast.Constant)) if part.format_spec else ""
                mm = re.fullmatch(r"(>)(\d+)\.(\d+)", spec)
                if not mm:
                    raise ValueError(f"header.py: unexpected format spec {spec!r}")
                header_fields.append((int(mm.group(2)), int(mm.group(3))))
            elif not (isinstance(part, ast.Constant) and part.value == "\n"):
                raise ValueError("header.py: unexpected literal in the fixed-column line")
        module_names = {(b.targets[0] if isinstance(b, ast.Assign) else b.target).id for b in hdr.body
                        if isinstance(b, (ast.Assign, ast.AnnAssign)) and isinstance(b.targets[0] if isinstance(b, ast.Assign) else b.target, ast.Name)}
        fmt_names = {n.args[-1].id for f_ in (hde, hse) for n in _nodes(f_) if isinstance(n, ast.Call)
                     and getattr(n.func, "attr", "") in ("strptime", "strftime") and n.args and isinstance(n.args[-1], ast.Name)
                     and n.args[-1].id in module_names}
        if len(fmt_names) != 1:
            raise ValueError("header.py: the date format constant used by strptime/strftime was not found")
        date_format = _module_value(hdr, fmt_names.pop())
        name_limits = [intlit(n.comparators[0]) for n in _nodes(hse) if isinstance(n, ast.Compare) and isinstance(n.ops[0], ast.Gt)
                       and isinstance(n.left, ast.Call) and getattr(n.left.func, "id", "") == "len"]
        if len(name_limits) != 1:
            raise ValueError("header.py: molecule name length guard not found")
    except Exception as e:  # noqa: BLE001   (the facts of this group become empty: a NAMED obligation breaks)
        problems.append("header.py layout: " + str(e))
        header_slices = []
        header_fields = []
        date_format = ""
        name_limits = [0]
    def pairs(xs, f=str, g=str):
        return "[" + ", ".join(f"({f(a)}, {g(b)})" for a, b in xs) + "]"

    def q(s):
        return '"' + s + '"'

    def widths(ws):
        return "[" + ", ".join(f"({q(a)}, {b})" for a, b in ws) + "]"

    body = [
        "/- REGENERATED on every run by harness/props/c18.py from structure/io/mol/ctab.py, interface/rdkit/mol.py and",
        "   structure/bonds.pyx (BondType values).  Do not edit. -/",
        "namespace BiotiteModel.Gen.C18",
        "/-- `BondType` members used below: (name, value). -/",
        "def bondTypeEnum : List (String × Nat) := " + pairs(sorted(enum.items(), key=lambda kv: kv[1]), q, str),
        "/-- `BOND_TYPE_MAPPING` in source order: (CTAB code, BondType value). -/",
        "def bondTypeMapping : List (Int × Nat) := " + pairs(bond_map),
        "/-- `CHARGE_MAPPING` in source order: (atom block code, charge). -/",
        "def chargeMapping : List (Int × Int) := " + pairs(charge_map),
        f"def nChargesPerLine : Nat := {n_chg}",
        "/-- `_is_v2000_compatible`: exclusive upper bounds for (n_atoms, n_bonds). -/",
        f"def v2000Bounds : Nat × Nat := ({excl[0]}, {excl[1]})",
        "/-- `n_coord_digits > k` guards of the V2000 and the V3000 writer. -/",
        f"def coordDigitLimits : List Nat := {digit_limits}",
        "/-- constant slices `line[a:b]` of `_read_structure_from_ctab_v2000` (atom line, then charge prefix, then bond line). -/",
        "def readerSlices : List (Nat × Nat) := " + pairs(slices),
        "def countsSlices : List (Nat × Nat) := " + pairs(counts_slices),
        "def versionSlice : List (Nat × Nat) := " + pairs(version_slice),
        "/-- field widths of the f-string templates of `_write_structure_to_ctab_v2000` (alignment, width). -/",
        "def atomLineWidths : List (String × Nat) := " + widths(atom_w),
        "def bondLineWidths : List (String × Nat) := " + widths(bond_w),
        "def countsLineWidths : List (String × Nat) := " + widths(counts_w),
        "/-- `_BIOTITE_TO_RDKIT_BOND_TYPE`: (BondType value, Chem.BondType member). -/",
        "def toRdkit : List (Nat × String) := " + pairs(to_rd, str, q),
        "/-- `_RDKIT_TO_BIOTITE_BOND_TYPE`. -/",
        "def fromRdkit : List (String × Nat) := " + pairs(from_rd, q, str),
        "/-- `_KEKULIZED_TO_AROMATIC_BOND_TYPE`. -/",
        "def kekulizedToAromatic : List (Nat × Nat) := " + pairs(kek),
        "/-- header.py: constant slices of `lines[1]` in `Header.deserialize`, in source order. -/",
        "def headerSlices : List (Nat × Nat) := " + pairs(header_slices),
        "/-- header.py: (width, precision) of the `>w.p` fields of the second header line in `Header.serialize`. -/",
        "def headerFields : List (Nat × Nat) := " + pairs(header_fields),
        f"def headerDateFormat : String := {q(date_format)}",
        f"def headerNameLimit : Nat := {name_limits[0]}",
        ] + _gen_more_total(base, problems) + [
        "/-- what the extractor could not find in the current source (must be empty) -/",
        "def extractorProblems : List String := " + _lstrs(problems),
        "end BiotiteModel.Gen.C18", ""]
    return {"BiotiteModel/Gen/C18.lean": "\n".join(body)}


# ------------------------------------------------------------------------------------------ helpers
def _f32(x):
    import numpy as np
    return float(np.float32(x))


def _qstr(x):
    """Exact value of a float as [-]num[/den] (sign of zero kept)."""
    if x == 0:
        return "-0" if math.copysign(1.0, x) < 0 else "0"
    fr = Fraction(x)
    s = "-" if fr < 0 else ""
    fr = abs(fr)
    return s + (str(fr.numerator) if fr.denominator == 1 else f"{fr.numerator}/{fr.denominator}")


def _fstr(y):
    """Canonical print of a float32 read back (sign of zero dropped)."""
    y = float(y)
    if y == 0:
        return "0"
    fr = Fraction(y)
    return str(fr.numerator) if fr.denominator == 1 else f"{fr.numerator}/{fr.denominator}"


def _w_op(mol, ver, dflt):
    atoms = ";".join(f"{e},{c},{_qstr(x)},{_qstr(y)},{_qstr(z)}" for e, c, (x, y, z) in
                     zip(mol["elems"], mol["charges"], mol["coords"])) or "_"
    bonds = ";".join(f"{i},{j},{t}" for i, j, t in mol["bonds"]) or "_"
    return f"W {ver} {dflt} {atoms} {bonds}"


def _mk_atoms(mol):
    import numpy as np
    import biotite.structure as struc
    n = len(mol["elems"])
    a = struc.AtomArray(n)
    if n and max(len(e) for e in mol["elems"]) > 2:
        a.set_annotation("element", np.array(mol["elems"]))       # wider than the default U2 annotation
    else:
        a.element[:] = mol["elems"] if n else []
    a.coord[:] = np.array(mol["coords"], dtype=np.float32).reshape(n, 3)
    a.add_annotation("charge", int)
    a.charge[:] = mol["charges"]
    a.bonds = struc.BondList(n, np.array(mol["bonds"], dtype=np.int64).reshape(-1, 3))
    return a


def _err(e):
    return "ERR:" + type(e).__name__


# reference (spec) formatter used to build reader inputs — independent of biotite
def _ref_v2000(mol, style):
    n, m = len(mol["elems"]), len(mol["bonds"])
    code = {0: 0, 3: 1, 2: 2, 1: 3, -1: 5, -2: 6, -3: 7}
    bcode = {1: 1, 2: 2, 3: 3, 9: 4, 0: 8, 5: 6, 6: 7}
    lines = [f"{n:>3d}{m:>3d}  0  0  0  0  0  0  0  0999 V2000"]
    block_only = bool(style.get("block_charges")) and all(c in code for c in mol["charges"])
    for e, c, (x, y, z) in zip(mol["elems"], mol["charges"], mol["coords"]):
        el = e.capitalize() if not style.get("upper_elem") else e
        if block_only or style.get("both"):
            cc = code.get(c, 0)
        else:
            cc = style.get("junk_code", 0)
        lines.append(f"{x:>10.4f}{y:>10.4f}{z:>10.4f} {el:<3}{0:>2d}{cc:>3d}" + "  0" * 10)
    for i, j, t in mol["bonds"]:
        if style.get("swap"):
            i, j = j, i
        lines.append(f"{i + 1:>3d}{j + 1:>3d}{bcode.get(t, style.get('unknown_bond', 8)):>3d}  0  0  0  0")
    if not block_only:
        ch = [(i + 1, c) for i, c in enumerate(mol["charges"]) if c != 0]
        per = style.get("per_line", 8)
        for k in range(0, len(ch), per):
            b = ch[k:k + per]
            lines.append(f"M  CHG{len(b):>3d}" + "".join(f" {i:>3d} {c:>3d}" for i, c in b))
    if style.get("extra_prop"):
        lines.append("M  ISO  1   1  13")
    lines.append("M  END")
    return lines


def _ref_v3000(mol, style, rng):
    n, m = len(mol["elems"]), len(mol["bonds"])
    bcode = {1: 1, 2: 2, 3: 3, 9: 4, 0: 8, 5: 6, 6: 7}
    idx = list(range(1, n + 1))
    if style.get("sparse_index"):
        idx = sorted(rng.sample(range(1, 5 * n + 10), n))
        if style.get("shuffle_index"):
            rng.shuffle(idx)
    body = ["BEGIN CTAB", f"COUNTS {n} {m} 0 0 0", "BEGIN ATOM"]
    for k, (e, c, (x, y, z)) in enumerate(zip(mol["elems"], mol["charges"], mol["coords"])):
        props = []
        if style.get("extra_prop"):
            props.append("MASS=13")
        if c != 0:
            props.append(f"CHG={c}")
        if style.get("extra_prop"):
            props.append("RAD=1")
        nd = style.get("decimals", 4)
        body.append(" ".join([str(idx[k]), e.capitalize(), f"{x:.{nd}f}", f"{y:.{nd}f}", f"{z:.{nd}f}", "0"] + props))
    body += ["END ATOM", "BEGIN BOND"]
    for k, (i, j, t) in enumerate(mol["bonds"]):
        body.append(f"{k + 1} {bcode.get(t, style.get('unknown_bond', 8))} {idx[i]} {idx[j]}")
    body += ["END BOND", "END CTAB"]
    pre = "M  V30 " if not style.get("tight") else "M  V30 "
    return ["  0  0  0     0  0            999 V3000"] + [pre + b for b in body] + ["M  END"]


def _r_op(lines):
    return "\t".join(["R"] + lines)


def _key_enc(k):
    n, nm, ri, re_ = k
    return " ".join(["-" if n is None else str(n), "-" if nm is None else f"<{nm}>",
                     "-" if ri is None else str(ri), "-" if re_ is None else f"({re_})"])


def _key_ser_ref(k):
    n, nm, ri, re_ = k
    s = "> "
    if n is not None:
        s += f"DT{n} "
    if nm is not None:
        s += f"<{nm}> "
    if ri is not None:
        s += f"{ri} "
    if re_ is not None:
        s += f"({re_}) "
    return s


# ------------------------------------------------------------------------------------------ generator
WORD = "abcdefghijklmnopqrstuvwxyzABCDEFGHIJKLMNOPQRSTUVWXYZ0123456789_"
ALNUM = WORD[:-1]
TEXT = WORD + "        .,;:-+*/=()[]{}<>$#@!?%&'\"|~^`\\"


def _coord(rng):
    r = rng.random()
    if r < 0.45:
        return _f32(round(rng.uniform(-60, 60), rng.choice([1, 3, 4])))
    if r < 0.60:
        return _f32(rng.randint(-320, 320) / 32)                     # exact ties at the 5th decimal (k/32)
    if r < 0.70:
        return _f32(rng.choice([0.0, -0.0, 0.00005, -0.00005, 0.00004, -0.00001, 1e-7, 0.5, -0.5, 1.0, 9999.5]))
    if r < 0.82:
        return _f32(rng.choice([99999.99, 99999.0, -9999.99, -9999.0, 99998.5, -9998.999, 65536.0, 8192.0, -8191.9995,
                                9999.9999, 12345.678, -1234.5678, 1023.99994, 99999.5]))
    if r < 0.92:
        return _f32(rng.uniform(-9999, 99999))
    return _f32(rng.uniform(-1, 1) * 10 ** rng.randint(-6, 3))


def _charge(rng, wide=True):
    r = rng.random()
    if r < 0.55:
        return 0
    if r < 0.8 or not wide:
        return rng.choice([-3, -2, -1, 1, 2, 3])
    return rng.choice([-15, -14, -10, -9, -4, 4, 5, 9, 10, 12, 15, rng.randint(-15, 15)])


def _bonds(rng, n, m, types=None):
    types = types or list(range(10))
    m = min(m, n * (n - 1) // 2)
    seen = set()
    out = []
    # a chain first (connected small molecules), then random pairs
    order = list(range(n))
    rng.shuffle(order)
    k = 0
    while len(out) < m:
        if k < n - 1:
            i, j = order[k], order[k + 1]
            k += 1
        else:
            i, j = rng.randrange(n), rng.randrange(n)
        if i == j:
            continue
        i, j = min(i, j), max(i, j)
        if (i, j) in seen:
            continue
        seen.add((i, j))
        out.append([i, j, rng.choice(types)])
    if rng.random() < 0.5:
        rng.shuffle(out)
    return out


def _mol(rng, n, m, wide_charges=True, types=None, elements=None):
    elements = elements or ELEMENTS
    zero_charges = rng.random() < 0.25
    return {"elems": [rng.choice(elements) for _ in range(n)],
            "charges": [0 if zero_charges else _charge(rng, wide_charges) for _ in range(n)],
            "coords": [[_coord(rng), _coord(rng), _coord(rng)] for _ in range(n)],
            "bonds": _bonds(rng, n, m, types)}


def _mol_case(rng, mol, kind="mol", big=False):
    ver = rng.choice(["auto", "auto", "V2000", "V3000"])
    dflt = rng.choice([0, 0, 0, 1, 9, 5])
    ops = [_w_op(mol, ver, dflt)]
    if not big or rng.random() < 0.5:
        other = rng.choice(["V2000", "V3000", "auto"])
        if other != ver:
            ops.append(_w_op(mol, other, dflt))
    # reader inputs written by the reference formatter, in a foreign style
    rmol = mol
    if max((abs(c) for xyz in mol["coords"] for c in xyz), default=0) < 9999 and len(mol["elems"]) > 0:
        if len(mol["elems"]) < 1000 and len(mol["bonds"]) < 1000:
            st = {}
            r = rng.random()
            if r < 0.3:
                st["block_charges"] = True       # foreign style: charges only in the atom block (codes 1-3, 5-7)
                rmol = dict(mol, charges=[max(-3, min(3, c)) for c in mol["charges"]])
            elif r < 0.4:
                st["both"] = True
            elif r < 0.5:
                st["junk_code"] = rng.choice([4, 8, 1])
            if rng.random() < 0.2:
                st["swap"] = True
            if rng.random() < 0.15:
                st["unknown_bond"] = rng.choice([9, 0, 12])
            if rng.random() < 0.2:
                st["per_line"] = rng.choice([1, 3, 8])
            if rng.random() < 0.2:
                st["extra_prop"] = True
            if rng.random() < 0.2:
                st["upper_elem"] = True
            ops.append(_r_op(_ref_v2000(rmol, st)))
        if not big or rng.random() < 0.5:
            st = {}
            if rng.random() < 0.4:
                st["sparse_index"] = True
                st["shuffle_index"] = rng.random() < 0.5
            if rng.random() < 0.2:
                st["extra_prop"] = True
            if rng.random() < 0.2:
                st["decimals"] = rng.choice([0, 1, 3, 6])
            if rng.random() < 0.1:
                st["unknown_bond"] = rng.choice([9, 10])
            ops.append(_r_op(_ref_v3000(rmol, st, rng)))
    return {"kind": kind, "ops": ops, "mol": mol, "ver": ver, "dflt": dflt}


def _name(rng, maxlen=10):
    return rng.choice(ALNUM) + "".join(rng.choice(WORD + "..") for _ in range(rng.randint(0, maxlen)))


def _key(rng):
    while True:
        n = rng.choice([None, None, 0, 1, 7, 12, 999, 1000, 123456789, rng.randint(0, 10 ** 6)])
        nm = rng.choice([None, _name(rng), _name(rng), _name(rng, 30), "DT5", "7", "a.b_c"])
        ri = rng.choice([None, None, None, 0, 5, 42, 100000, rng.randint(0, 10 ** 9)])
        re_ = rng.choice([None, None, None, "", "a-b", "X.1", "-", "".join(rng.choice(WORD + ".-") for _ in range(rng.randint(1, 8)))])
        if n is not None or nm is not None:
            return (n, nm, ri, re_)


def _mid_delim(rng, s, maxlen=None):
    """Put `$$$$` inside a string, never at its start (legal: only a line *starting* with it ends a record)."""
    if not s:
        return s
    i = rng.randint(1, len(s))
    t = s[:i] + "$$$$" + s[i:]
    return t if maxlen is None or len(t) <= maxlen else s


def _value_lines(rng):
    k = rng.choice([1, 1, 1, 2, 3, 5])
    out = []
    for _ in range(k):
        while True:
            s = "".join(rng.choice(TEXT) for _ in range(rng.randint(1, 24))).strip(" ")
            if s and rng.random() < 0.12:
                s = _mid_delim(rng, s)
            elif rng.random() < 0.10:
                # a value line that looks like the end of a CTAB (legal: not blank, no '>' / '$$$$' at its start)
                s = "M  END" + rng.choice(["", " of data", "ING", "  1"])
            if s and not s.startswith(">") and not s.startswith("$$$$"):
                out.append(s)
                break
    return out


def _metadata(rng, n=None):
    n = rng.choice([0, 1, 1, 2, 3, 6]) if n is None else n
    md = []
    seen = set()
    while len(md) < n:
        k = _key(rng)
        if k in seen:
            continue
        seen.add(k)
        md.append([list(k), _value_lines(rng)])
    return md


def _md_lines_ref(md):
    out = []
    for k, v in md:
        out.append(_key_ser_ref(tuple(k)))
        out += list(v)
        out.append("")
    return out


def _ms_op(md):
    f = ["MS"]
    for k, v in md:
        f.append("K " + _key_enc(tuple(k)))
        f += ["V" + l for l in v]
    return "\t".join(f)


def _field(rng, w, allow_empty=True):
    if allow_empty and rng.random() < 0.3:
        return ""
    k = rng.randint(1, w)
    while True:
        s = "".join(rng.choice(TEXT) for _ in range(k)).strip(" ")
        if s or allow_empty:
            return s


def _header(rng):
    import calendar
    yr = rng.choice([1969, 1999, 2000, 2024, 2068, 2023, rng.randint(1969, 2068)])
    mo = rng.choice([2, 2, rng.randint(1, 12)])
    dim = calendar.monthrange(yr, mo)[1]
    t = rng.choice([None, None, [mo, rng.choice([1, dim, dim, rng.randint(1, dim)]), yr, rng.randint(0, 23), rng.randint(0, 59)]])
    while True:
        h = {"mol_name": _field(rng, rng.choice([5, 20, 80])), "initials": _field(rng, 2), "program": _field(rng, 8),
             "time": t, "dimensions": _field(rng, 2), "scaling_factors": _field(rng, 12), "energy": _field(rng, 12),
             "registry_number": _field(rng, 6), "comments": _field(rng, 40)}
        if rng.random() < 0.15:
            f = rng.choice(["mol_name", "comments", "program", "scaling_factors", "energy"])
            h[f] = _mid_delim(rng, h[f], {"program": 8, "scaling_factors": 12, "energy": 12, "mol_name": 80}.get(f))
        l1 = f"{h['initials']:>2}{h['program']:>8}"
        if not (h["mol_name"].startswith("$$$$") or h["comments"].startswith("$$$$") or l1.startswith("$$$$")):
            return h


def _hs_op(h):
    t = h["time"]
    ts = "-" if t is None else f"{t[0]},{t[1]},{t[2] % 100},{t[3]},{t[4]}"
    return "\t".join(["HS", h["mol_name"], h["initials"], h["program"], ts, h["dimensions"], h["scaling_factors"],
                      h["energy"], h["registry_number"], h["comments"]])


def _header_lines_ref(h):
    t = h["time"]
    ts = "" if t is None else f"{t[0]:02d}{t[1]:02d}{t[2] % 100:02d}{t[3]:02d}{t[4]:02d}"
    return [h["mol_name"],
            f"{h['initials']:>2}{h['program']:>8}{ts:>10}{h['dimensions']:>2}{h['scaling_factors']:>12}{h['energy']:>12}{h['registry_number']:>6}",
            h["comments"]]


def _sdf_case(rng, n_rec):
    recs = []
    names = set()
    for _ in range(n_rec):
        h = _header(rng)
        if rng.random() < 0.2:      # header lines that look like the end of a CTAB
            h[rng.choice(["mol_name", "comments"])] = "M  END" + rng.choice(["", " 2", "ING"])
        while h["mol_name"] in names:
            h = _header(rng)
            if rng.random() < 0.5:
                h["mol_name"] = _name(rng)
        names.add(h["mol_name"])
        n = rng.choice([1, 2, 3, 6, 12])
        mol = _mol(rng, n, rng.randint(0, n + 2))
        recs.append({"header": h, "mol": mol, "md": _metadata(rng), "ver": rng.choice([None, "V2000", "V3000"])})
    # reference text for the SS op
    lines = []
    for r in recs:
        lines += _header_lines_ref(r["header"])
        small = max((abs(c) for xyz in r["mol"]["coords"] for c in xyz), default=0) < 9999
        mol = r["mol"] if small else dict(r["mol"], coords=[[0.0, 0.0, 0.0]] * len(r["mol"]["elems"]))
        lines += _ref_v2000(mol, {}) if r["ver"] != "V3000" else _ref_v3000(mol, {}, rng)
        lines += _md_lines_ref(r["md"])
        lines.append("$$$$")
    return {"kind": "sdf", "ops": ["\t".join(["SS"] + lines), "\t".join(["SF"] + lines)], "records": recs}


def _small_mol(rng, n=None):
    n = n or rng.choice([1, 2, 3, 6])
    mol = _mol(rng, n, rng.randint(0, n + 1))
    mol["coords"] = [[_f32(round(rng.uniform(-50, 50), 3)) for _ in range(3)] for _ in range(n)]
    return mol


def _fresh_name(rng, used):
    while True:
        nm = _name(rng, 8) if rng.random() < 0.7 else _field(rng, 20, allow_empty=False)
        if nm not in used and not nm.startswith("$$$$"):
            return nm


def _sdf_edit_case(rng):
    """A parsed multi-record file followed by an edit history (SDFile as a mutable mapping of lazily parsed records)."""
    recs = []
    used = set()
    for _ in range(rng.choice([1, 2, 3, 4])):
        h = _header(rng)
        h["mol_name"] = _fresh_name(rng, used)
        used.add(h["mol_name"])
        recs.append({"header": h, "mol": _small_mol(rng), "md": _metadata(rng, rng.choice([0, 1, 2])), "ver": rng.choice([None, "V3000"])})
    names = [r["header"]["mol_name"] for r in recs]
    ops = []
    for _ in range(rng.randint(1, 6)):
        kind = rng.choice(["rename", "rename", "del", "hdr", "hdr", "md_set", "md_del", "mol", "insert"])
        if not names and kind != "insert":
            kind = "insert"
        if kind == "del" and len(names) == 1:
            kind = "hdr"            # an SDFile without records is written as '' which SDFile.read rejects (IndexError): kept out
        if kind == "rename":
            old = rng.choice(names)
            new = _fresh_name(rng, used)
            used.add(new)
            names.remove(old)
            names.append(new)
            ops.append(["rename", old, new])
        elif kind == "del":
            nm = rng.choice(names)
            names.remove(nm)
            ops.append(["del", nm])
        elif kind == "hdr":
            f = rng.choice(["comments", "program", "initials", "energy", "registry_number", "dimensions", "scaling_factors"])
            w = {"comments": 30, "program": 8, "initials": 2, "energy": 12, "registry_number": 6, "dimensions": 2, "scaling_factors": 12}[f]
            val = _field(rng, w)
            if val.startswith("$$$$"):
                val = "x"
            ops.append(["hdr", rng.choice(names), f, val])
        elif kind == "md_set":
            ops.append(["md_set", rng.choice(names), list(_key(rng)), _value_lines(rng)])
        elif kind == "md_del":
            ops.append(["md_del", rng.choice(names)])          # deletes the first key, if any
        elif kind == "mol":
            ops.append(["mol", rng.choice(names), _small_mol(rng), rng.choice([None, "V2000", "V3000"])])
        else:
            h = _header(rng)
            nm = _fresh_name(rng, used)
            used.add(nm)
            names.append(nm)
            ops.append(["insert", nm, {"header": h, "mol": _small_mol(rng), "md": _metadata(rng, rng.choice([0, 1])), "ver": None}])
    # the same history (renames, deletions, header edits) op by op against the lazy-container model: text of serialize()
    fields = ["SE"] + [l for r in recs for l in _record_text_lines(r)] + ["#OPS"]
    for op in ops:
        if op[0] == "rename":
            fields += ["R", op[1], op[2]]
        elif op[0] == "del":
            fields += ["D", op[1]]
        elif op[0] == "hdr":
            fields += ["H", op[1], op[2], op[3]]
        elif op[0] == "insert":
            break                        # later ops may refer to the inserted record
    if rng.random() < 0.15:
        fields += ["D", "no such record"]
    ops_line = "\t".join(fields)
    # a second history: records of the parsed file handed to the SDFile constructor under new names (headers still text
    # unless edited before), followed by a further edit
    f2 = ["SE"] + [l for r in recs for l in _record_text_lines(r)] + ["#OPS"]
    olds = [r["header"]["mol_name"] for r in recs]
    if rng.random() < 0.5:
        f2 += ["H", rng.choice(olds), "comments", "touched"]
    rng.shuffle(olds)
    olds = olds[:rng.randint(1, len(olds))]
    used2 = set(r["header"]["mol_name"] for r in recs)
    pairs = []
    for o in olds:
        nw = o if rng.random() < 0.2 else _fresh_name(rng, used2)
        used2.add(nw)
        pairs += [nw, o]
    f2 += ["N", str(len(olds))] + pairs
    if rng.random() < 0.5:
        f2 += ["H", pairs[0], "program", "p2"]
    return {"kind": "sdf-edit", "ops": [ops_line, "\t".join(f2)], "records": recs, "edits": ops}


def _sdf_rebuild_case(rng):
    recs = []
    used = set()
    for _ in range(rng.choice([1, 2, 3, 4])):
        h = _header(rng)
        h["mol_name"] = _fresh_name(rng, used)
        used.add(h["mol_name"])
        recs.append({"header": h, "mol": _small_mol(rng), "md": _metadata(rng, rng.choice([0, 1, 2])), "ver": rng.choice([None, "V3000"])})
    olds = [r["header"]["mol_name"] for r in recs]
    rng.shuffle(olds)
    olds = olds[:rng.randint(1, len(olds))]
    mapping = []
    fresh = {}
    for old in olds:
        new = old if rng.random() < 0.15 else _fresh_name(rng, used)
        used.add(new)
        mapping.append([new, old, rng.choice([None, None, None, "structure", "metadata", "header"])])
    if rng.random() < 0.3:
        new = _fresh_name(rng, used)
        fresh[new] = {"header": _header(rng), "mol": _small_mol(rng), "md": _metadata(rng, 1), "ver": None}
        mapping.insert(rng.randint(0, len(mapping)), [new, None, None])
    return {"kind": "sdf-rebuild", "records": recs, "mapping": mapping, "fresh": fresh, "via": rng.choice(["init", "init", "setitem"])}


def cases(rng, tier):
    scale = 1 if tier == "quick" else 12
    out = []
    # --- molecules
    for _ in range(70 * scale):
        n = rng.choice([1, 1, 2, 3, 4, 6, 9, 15, 30, 60])
        out.append(_mol_case(rng, _mol(rng, n, rng.choice([0, n - 1, n, n + 3, 2 * n]))))
    # every bond type, every charge, explicitly
    for t in range(10):
        mol = _mol(rng, 4, 3, types=[t])
        out.append(_mol_case(rng, mol))
    mol = _mol(rng, 31, 10)
    mol["charges"] = list(range(-15, 16))
    out.append(_mol_case(rng, mol))
    # --- sizes around the V2000 limits (few in quick)
    big = [(999, 998), (1000, 999), (60, 999), (60, 1000)] if tier == "quick" else \
        [(999, 998), (1000, 999), (1001, 5), (998, 1000), (60, 999), (60, 1000), (47, 1001), (1500, 1499), (999, 999), (1000, 0),
         (999, 1000), (1200, 1300)]
    for n, m in big:
        mol = _mol(rng, n, m, elements=["C", "N", "O", "H"])
        if n >= 900:   # charges on high indices: 3-digit atom numbers in M  CHG
            for i in range(n - 20, n):
                mol["charges"][i] = _charge(rng) or 1
        out.append(_mol_case(rng, mol, kind="mol-big", big=True))
    # --- values that do not fit: must be rejected
    for _ in range(12 * scale):
        n = rng.choice([1, 2, 5])
        mol = _mol(rng, n, n - 1)
        bad = _f32(rng.choice([100000.0, 99999.996, 123456.7, -10000.0, -9999.9996, -99999.0, 1e7, -1e6, 1e20]))
        mol["coords"][rng.randrange(n)][rng.randrange(3)] = bad
        ver = rng.choice(["auto", "V2000", "V3000"])
        out.append({"kind": "mol-reject", "ops": [_w_op(mol, ver, 0)], "mol": mol, "ver": ver, "dflt": 0, "expect_reject": True})
    for _ in range(5 * scale):
        mol = _mol(rng, 3, 2)
        mol["elems"][rng.randrange(3)] = rng.choice(["ABCD", "CARBON", "XXXX", "ABC", "UUE"])
        ver = rng.choice(["auto", "V2000", "V3000"])
        out.append({"kind": "mol-longelem", "ops": [_w_op(mol, ver, 0)]})
    for _ in range(4 * scale):
        mol = _mol(rng, 3, 2)
        ver, dflt = rng.choice([("V1000", 0), ("auto", 4), ("V3000", 8), ("V2000", 7), ("", 0)])
        out.append({"kind": "mol-badarg", "ops": [_w_op(mol, ver or "V1000", dflt)], "mol": mol, "ver": ver or "V1000", "dflt": dflt,
                    "expect_reject": True})
    # --- keys
    for _ in range(40 * scale):
        k = _key(rng)
        out.append({"kind": "key", "ops": ["K " + _key_enc(k), "KD\t" + _key_ser_ref(k).rstrip(" ") , "KD\t" + _key_ser_ref(k)], "key": list(k)})
    for _ in range(15 * scale):
        comps = [rng.choice(["DT5", "DT", "DT5x", "<a>", "<_a>", "<a b>", "<>", "<a.b>", "12", "012", "(x-y)", "()", "(a b)", "(a", "x", "<a", ">"])
                 for _ in range(rng.randint(0, 4))]
        text = rng.choice([">", "> ", ">  "]) + rng.choice([" ", "  "]).join(comps)
        out.append({"kind": "key-parse", "ops": ["KD\t" + text]})
    for _ in range(8 * scale):
        k = (rng.choice([None, 3]), rng.choice(["_a", ".a", "a b", "", "a-b", "a>", None]), None, rng.choice([None, "x"]))
        if k[1] is not None and (" " in k[1] or k[1] == ""):
            continue           # not encodable in the op line; the oracle stream covers them
        out.append({"kind": "key-invalid", "ops": ["K " + _key_enc(k)]})
    for _ in range(4 * scale):
        k = (rng.choice([None, 3]), "nm", rng.choice([None, 5]), rng.choice(["a)b", "x(", "a/b", "a+b", "(", "a,b"]))
        out.append({"kind": "key-invalid", "ops": ["K " + _key_enc(k)]})
    # --- metadata values the data block cannot hold: refused
    for _ in range(8 * scale):
        md = _metadata(rng, rng.choice([1, 2]))
        md[-1][1] = rng.choice([[""], ["a", "", "b"], ["> b"], ["a", ">x"], ["  "], ["a", "  > <k>"], ["", "a"], ["a", ""]])
        out.append({"kind": "metadata-refused", "ops": [_ms_op(md)]})
    # --- metadata
    for _ in range(40 * scale):
        md = _metadata(rng)
        ref = _md_lines_ref(md)
        pert = list(ref)
        if rng.random() < 0.5 and pert:
            for _ in range(rng.randint(1, 3)):
                i = rng.randrange(len(pert) + 1)
                pert.insert(i, rng.choice(["", "  ", "   "]))
            pert = [("  " + l + " ") if (l and rng.random() < 0.2) else l for l in pert]
        out.append({"kind": "metadata", "ops": [_ms_op(md), "\t".join(["MD"] + ref), "\t".join(["MD"] + pert)], "md": md})
    for _ in range(10 * scale):
        md = _metadata(rng, rng.choice([1, 2, 3]))
        ref = _md_lines_ref(md)
        r = rng.random()
        if r < 0.3:
            ref = ref[1:]                                   # value before key
        elif r < 0.6:
            ref.insert(rng.randrange(len(ref) + 1), _key_ser_ref(_key(rng)))   # key without value / duplicate
        else:
            ref = ref + ref                                 # every key twice
        out.append({"kind": "metadata-malformed", "ops": ["\t".join(["MD"] + ref)]})
    # --- headers
    for _ in range(30 * scale):
        h = _header(rng)
        out.append({"kind": "header", "ops": [_hs_op(h), "\t".join(["HD"] + _header_lines_ref(h))], "header": h})
    for _ in range(6 * scale):
        h = _header(rng)
        f = rng.choice(["initials", "program", "dimensions", "scaling_factors", "energy", "registry_number", "mol_name"])
        h[f] = "".join(rng.choice(ALNUM) for _ in range({"mol_name": 81}.get(f, 14)))
        out.append({"kind": "header-long", "ops": [_hs_op(h)], "header": h, "long_field": f})
    # --- SD files
    for _ in range(14 * scale):
        out.append(_sdf_case(rng, rng.choice([1, 2, 3, 5])))
    for _ in range(30 * scale):
        out.append(_sdf_edit_case(rng))
    for _ in range(25 * scale):
        out.append(_sdf_rebuild_case(rng))
    for sc in API_SCENARIOS:
        for _ in range(4 * scale):
            out.append(_api_case(rng, sc))
    for sc in EDGE:
        for _ in range((1 if sc in ("empty-file", "v3000-no-atoms", "format-limits") else 5) * scale):
            out.append(_edge_case(rng, sc))
    for _ in range(10 * scale):
        arom = rng.random() < 0.5
        mol = _aromatic_mol(rng) if arom else _mol(rng, rng.choice([2, 4, 7]), rng.choice([1, 3, 6]), types=[1, 2, 3, 0, 4])
        if not arom and rng.random() < 0.6:
            mol["elems"][-1] = "H"
        depth = rng.choice([1, 2, 3])
        out.append({"kind": "rdkit-options", "mol": mol, "aromatic_ring": arom,
                    "extra_models": [[[_f32(c + 0.75 * (k + 1)) for c in xyz] for xyz in mol["coords"]] for k in range(depth - 1)]})
    # --- MOL files and the RDKit bridge: oracle only
    for _ in range(12 * scale):
        n = rng.choice([1, 2, 5, 12])
        hist = []
        for _ in range(rng.choice([0, 1, 2, 3])):
            if rng.random() < 0.65:
                hist.append(["bad", rng.choice(BAD_SET), _small_mol(rng, rng.choice([2, 3]))])
            else:
                hist.append(["good", _small_mol(rng), rng.choice([None, "V2000", "V3000"])])
        c = {"kind": "molfile", "mol": _mol(rng, n, n), "header": _header(rng), "ver": rng.choice([None, "V2000", "V3000"]),
             "history": hist}
        specs = [_w_op(c["mol"], c["ver"] or "auto", 0)[2:]]
        for st in hist:
            if st[0] == "good":
                specs.append(_w_op(st[1], st[2] or "auto", 0)[2:])
            elif st[1] == "coordinate-too-wide":
                m2 = dict(st[2], coords=[list(x) for x in st[2]["coords"]])
                m2["coords"][0][1] = _f32(123456.7)
                specs.append(_w_op(m2, "auto", 0)[2:])
            elif st[1] == "unknown-version":
                specs.append(_w_op(st[2], "V4000", 0)[2:])
            elif st[1] == "bad-default-bond":
                specs.append(_w_op(st[2], "auto", 4)[2:])
            elif st[1] == "v2000-too-many-bonds":
                big = {"elems": ["C"] * 46, "charges": [0] * 46, "coords": [[0.0, 0.0, 0.0]] * 46,
                       "bonds": [[i, j, 1] for i in range(46) for j in range(i + 1, 46)][:1000]}
                specs.append(_w_op(big, "V2000", 0)[2:])
        c["ops"] = ["\t".join(["MF"] + _header_lines_ref(c["header"]) + ["#"] + specs)]
        out.append(c)
    for _ in range(30 * scale):
        n = rng.choice([2, 3, 5, 9, 20])
        depth = rng.choice([0, 0, 1, 2, 4])
        mol = _mol(rng, n, rng.choice([n - 1, n, n + 2]), types=rng.choice([[0, 1, 2, 3, 4, 8], list(range(10)), [1, 2], [8], [4]]))
        if rng.random() < 0.7:
            mol["elems"][rng.randrange(n)] = "H"
        out.append({"kind": "rdkit", "mol": mol, "depth": depth, "dative": rng.random() < 0.6,
                    "extra_models": [[[_coord(rng) for _ in range(3)] for _ in range(n)] for _ in range(max(depth - 1, 0))]})
    for _ in range(4 * scale):
        h = _header(rng)
        h[rng.choice(["mol_name", "comments"])] = "M  END" + rng.choice(["", " x", "ING"])
        out.append({"kind": "molfile", "mol": _mol(rng, 2, 1), "header": h, "ver": rng.choice([None, "V2000", "V3000"])})
    for _ in range(4 * scale):
        nm = _name(rng, 5) + rng.choice(["\n", "\n", " ", "\t", "\r", ">", "\n\n"])
        out.append({"kind": "key-name", "key": [rng.choice([None, 2]), nm, None, None]})
    for _ in range(10 * scale):
        mol = _aromatic_mol(rng)
        depth = rng.choice([0, 2])
        out.append({"kind": "rdkit", "mol": mol, "depth": depth, "dative": False, "aromatic_ring": True,
                    "extra_models": [[[c + 1.25 for c in xyz] for xyz in mol["coords"]] for _ in range(max(depth - 1, 0))]})
    # oracle-only corners outside the ASCII model
    for _ in range(6 * scale):
        mol = _mol(rng, 3, 2)
        mol["elems"][0] = rng.choice(["", "X", "D", "T"])
        out.append({"kind": "mol-oddelem", "mol": mol, "ver": rng.choice(["auto", "V2000", "V3000"]), "dflt": 0})
    for _ in range(6 * scale):
        k = (rng.choice([None, 4]), "n" + rng.choice(["é", "ß", "λ", "ж", "９"]) + "x", None, rng.choice([None, "é-1"]))
        out.append({"kind": "key-unicode", "key": list(k)})
    rng.shuffle(out)
    return out


def corpus():
    return [
        # limits of the fixed-column header (C18_header_truncation_defect): cut to the column, blanks lost
        {"kind": "header-limits", "ops": ["HS\t\t\tABCDEFGHIJ\t-\t\t\t\t\t", "HD\t\t  ABCDEFGH" + " " * 42 + "\t",
                                          "HS\t a \t\t\t-\t\t\t\t\t c", "HD\t a \t" + " " * 52 + "\t c"]},
        # COORDINATION through the RDKit bridge with use_dative_bonds=True (fixed defect, see known_findings.d/C18.json)
        {"kind": "rdkit", "mol": {"elems": ["FE", "N", "H"], "charges": [0, 0, 0],
                                  "coords": [[0.0, 0.0, 0.0], [1.5, 0.0, 0.0], [2.5, 0.0, 0.0]], "bonds": [[0, 1, 8], [1, 2, 1]]},
         "depth": 0, "dative": True, "extra_models": []},
        {"kind": "mol", "ops": ["W auto 0 C,0,0,0,0;N,-15,-1/32,3/32,99999 0,1,9", "W V3000 0 C,0,0,0,0;N,-15,-1/32,3/32,99999 0,1,9"],
         "mol": {"elems": ["C", "N"], "charges": [0, -15], "coords": [[0.0, 0.0, 0.0], [-0.03125, 0.09375, 99999.0]], "bonds": [[0, 1, 9]]},
         "ver": "auto", "dflt": 0},
    ]


# ------------------------------------------------------------------------------------------ implementation adapter
def _parse_q(s):
    neg = s.startswith("-")
    v = Fraction(s[1:] if neg else s)
    x = float(v)
    return -x if neg else x


def _parse_mol(atoms_s, bonds_s):
    elems, charges, coords = [], [], []
    if atoms_s != "_":
        for a in atoms_s.split(";"):
            e, c, x, y, z = a.split(",")
            elems.append(e)
            charges.append(int(c))
            coords.append([_parse_q(x), _parse_q(y), _parse_q(z)])
    bonds = [] if bonds_s == "_" else [[int(v) for v in b.split(",")] for b in bonds_s.split(";")]
    return {"elems": elems, "charges": charges, "coords": coords, "bonds": bonds}


def _text(lines):
    return "".join(l + "\n" for l in lines)


def _key_of(K, k):
    n, nm, ri, re_ = k
    return K(number=n, name=nm, registry_internal=ri, registry_external=re_)


def _dec_key(ws):
    def opt_int(s):
        return None if s == "-" else int(s)

    def unwrap(s):
        return None if s == "-" else s[1:-1]
    return (opt_int(ws[0]), unwrap(ws[1]), opt_int(ws[2]), unwrap(ws[3]))


def _show_key(k):
    return _key_enc((k.number, k.name, k.registry_internal, k.registry_external))


def run_impl(case):
    import biotite.structure as struc
    from biotite.structure.io.mol import Header, Metadata, SDFile, SDRecord
    from biotite.structure.io.mol.ctab import read_structure_from_ctab, write_structure_to_ctab
    import datetime
    out = []
    with warnings.catch_warnings():
        warnings.simplefilter("ignore")
        for op in case["ops"]:
            f = op.split("\t")
            try:
                if f[0] == "R":
                    a = read_structure_from_ctab(f[1:])
                    atoms = ";".join(f"{a.element[i]},{int(a.charge[i])},{_fstr(a.coord[i, 0])},{_fstr(a.coord[i, 1])},{_fstr(a.coord[i, 2])}"
                                     for i in range(a.array_length()))
                    bonds = ";".join(f"{int(i)},{int(j)},{int(t)}" for i, j, t in a.bonds.as_array())
                    out.append("ok " + atoms + "|" + bonds)
                elif f[0] == "KD":
                    out.append("ok " + _show_key(Metadata.Key.deserialize(f[1])))
                elif f[0] == "MS":
                    d = {}
                    cur = None
                    pending = []
                    for x in f[1:]:
                        if x.startswith("K "):
                            cur = _dec_key(x[2:].split())
                            pending.append([cur, []])
                        else:
                            pending[-1][1].append(x[1:])
                    for k, v in pending:
                        d[_key_of(Metadata.Key, k)] = "\n".join(v)
                    s = Metadata(d).serialize()
                    out.append("ok " + "\t".join(s.split("\n")[:-1] if s else []))
                elif f[0] == "MD":
                    md = Metadata.deserialize(_text(f[1:]))
                    fs = []
                    for k, v in md.items():
                        fs.append("K " + _show_key(k))
                        fs += ["V" + l for l in v.split("\n")]
                    out.append("ok " + "\t".join(fs))
                elif f[0] == "SS":
                    sd = SDFile.deserialize(_text(f[1:]))
                    fs = []
                    for name in sd.keys():
                        rec = sd[name]                       # public API only: an SDRecord whose parts are still text
                        all_lines = rec.serialize().splitlines()
                        n_ctab = len(rec.ctab.splitlines())
                        fs.append("N" + name)
                        fs += ["H" + l for l in all_lines[:3]]
                        fs += ["C" + l for l in all_lines[3:3 + n_ctab]]
                        fs += ["M" + l for l in all_lines[3 + n_ctab:]]
                    out.append("ok " + "\t".join(fs))
                elif f[0] == "SE":
                    k = f.index("#OPS")
                    sd = SDFile.deserialize(_text(f[1:k]))
                    ops = f[k + 1:]
                    i = 0
                    while i < len(ops):
                        if ops[i] == "R":
                            sd[ops[i + 2]] = sd[ops[i + 1]]
                            del sd[ops[i + 1]]
                            i += 3
                        elif ops[i] == "D":
                            del sd[ops[i + 1]]
                            i += 2
                        elif ops[i] == "N":
                            n = int(ops[i + 1])
                            pairs = ops[i + 2:i + 2 + 2 * n]
                            sd = SDFile({pairs[2 * j]: sd[pairs[2 * j + 1]] for j in range(n)})
                            i += 2 + 2 * n
                        else:
                            setattr(sd[ops[i + 1]].header, ops[i + 2], ops[i + 3])
                            i += 4
                    t = sd.serialize()
                    out.append("ok " + "\t".join(t.split("\n")[:-1] if t else []))
                elif f[0] == "MF":
                    from biotite.structure.io.mol import MOLFile
                    mf = MOLFile()
                    mf.lines = list(f[1:4])
                    errs = []
                    for sp in f[5:]:
                        w = sp.split()
                        try:
                            mf.set_structure(_mk_atoms(_parse_mol(w[2], w[3])), struc.BondType(int(w[1])), None if w[0] == "auto" else w[0])
                            errs.append("-")
                        except Exception as e:  # noqa: BLE001
                            errs.append(type(e).__name__)
                    out.append("ok " + ";".join(errs) + "\t" + "\t".join(mf.lines))
                elif f[0] == "SF":
                    sd = SDFile.deserialize(_text(f[1:]))
                    fs = []
                    for name in sd.keys():
                        rec = sd[name]
                        h = rec.header
                        a = rec.get_structure()
                        md = rec.metadata
                        t = "-" if h.time is None else f"{h.time.month},{h.time.day},{h.time.year % 100},{h.time.hour},{h.time.minute}"
                        fs.append("N" + name)
                        fs += ["h" + x for x in [h.mol_name, h.initials, h.program, t, h.dimensions, h.scaling_factors,
                                                 h.energy, h.registry_number, h.comments]]
                        atoms = ";".join(f"{a.element[i]},{int(a.charge[i])},{_fstr(a.coord[i, 0])},{_fstr(a.coord[i, 1])},{_fstr(a.coord[i, 2])}"
                                         for i in range(a.array_length()))
                        bonds = ";".join(f"{int(i)},{int(j)},{int(t_)}" for i, j, t_ in a.bonds.as_array())
                        fs.append("A" + atoms + "|" + bonds)
                        for k, v in md.items():
                            fs.append("K " + _show_key(k))
                            fs += ["V" + l for l in v.split("\n")]
                    out.append("ok " + "\t".join(fs))
                elif f[0] == "HS":
                    t = None
                    if f[4] != "-":
                        mo, d_, y, h_, mi = (int(v) for v in f[4].split(","))
                        t = datetime.datetime(1900 + y if y >= 69 else 2000 + y, mo, d_, h_, mi)
                    s = Header(f[1], f[2], f[3], t, f[5], f[6], f[7], f[8], f[9]).serialize()
                    out.append("ok " + "\t".join(s.split("\n")[:-1]))
                elif f[0] == "HD":
                    h = Header.deserialize(_text(f[1:]))
                    t = "-" if h.time is None else f"{h.time.month},{h.time.day},{h.time.year % 100},{h.time.hour},{h.time.minute}"
                    out.append("ok " + "\t".join([h.mol_name, h.initials, h.program, t, h.dimensions, h.scaling_factors,
                                                  h.energy, h.registry_number, h.comments]))
                else:
                    w = op.split()
                    if w[0] == "W":
                        mol = _parse_mol(w[3], w[4])
                        ver = None if w[1] == "auto" else w[1]
                        lines = write_structure_to_ctab(_mk_atoms(mol), struc.BondType(int(w[2])), ver)
                        out.append("ok " + "\t".join(lines))
                    elif w[0] == "K":
                        out.append("ok " + _key_of(Metadata.Key, _dec_key(w[1:])).serialize())
                    elif w[0] == "R":
                        read_structure_from_ctab([])
                        out.append("ok")
                    else:
                        out.append("bad-op")
            except Exception as e:  # noqa: BLE001
                out.append(_err(e))
    return out


# ------------------------------------------------------------------------------------------ property oracle
def _audit_v2000(lines, n, m):
    """Every line of a V2000 CTAB has its fields in the standard columns (MDL CTfile spec), stated on the text."""
    bad = []
    if len(lines[0]) != 39 or lines[0][33:39] != " V2000":
        bad.append(("counts-line", lines[0]))
    else:
        try:
            if int(lines[0][0:3]) != n or int(lines[0][3:6]) != m:
                bad.append(("counts-value", lines[0]))
        except ValueError:
            bad.append(("counts-value", lines[0]))
    num = re.compile(r" *-?\d+\.\d{4}")
    for l in lines[1:1 + n]:
        if len(l) != 69 or not all(num.fullmatch(l[a:a + 10]) for a in (0, 10, 20)) or l[30] != " " \
                or not re.fullmatch(r"( *\d+){12}", l[34:]) or not re.fullmatch(r" *\d+", l[36:39]):
            bad.append(("atom-line", l))
    for l in lines[1 + n:1 + n + m]:
        if len(l) != 21 or not all(re.fullmatch(r" *\d+", l[a:a + 3]) for a in range(0, 21, 3)):
            bad.append(("bond-line", l))
    for l in lines[1 + n + m:]:
        if l.startswith("M  CHG"):
            mm = re.fullmatch(r"M  CHG( *\d+)((?: [ \d]{3} [ \d+-]{3})*)", l)
            if not mm or len(mm.group(1)) != 3 or not (1 <= int(mm.group(1)) <= 8) or len(mm.group(2)) != 8 * int(mm.group(1)):
                bad.append(("chg-line", l))
    if lines[-1] != "M  END":
        bad.append(("end-line", lines[-1]))
    return bad


def _compare(mol, back, dflt, expressible, prefix, tol=1.0e-4):
    """`back` (AtomArray) vs the molecule that was written."""
    import numpy as np
    v = []
    n = len(mol["elems"])
    if back.array_length() != n:
        return [(prefix + "/atom-count", f"{n} atoms written, {back.array_length()} read")]
    if [str(e) for e in back.element] != [e.upper() for e in mol["elems"]]:
        v.append((prefix + "/elements", f"{mol['elems'][:8]} read as {list(back.element[:8])}"))
    if [int(c) for c in back.charge] != mol["charges"]:
        k = next(i for i in range(n) if int(back.charge[i]) != mol["charges"][i])
        v.append((prefix + "/charge", f"atom {k}: charge {mol['charges'][k]} read as {int(back.charge[k])}"))
    c0 = np.array(mol["coords"], dtype=np.float64).reshape(n, 3)
    c1 = back.coord.astype(np.float64)
    if n and not (np.abs(c0 - c1) <= tol).all():
        i, j = np.argwhere(~(np.abs(c0 - c1) <= tol))[0]
        v.append((prefix + "/coord", f"atom {i} axis {j}: {c0[i, j]!r} read as {c1[i, j]!r}"))
    want = [(i, j, t if t in expressible else dflt) for i, j, t in mol["bonds"]]
    got = [(int(i), int(j), int(t)) for i, j, t in back.bonds.as_array()]
    if sorted(want) != sorted(got):
        diff = sorted(set(want) ^ set(got))[:4]
        tname = "+".join(sorted({BT_NAME.get(t, str(t)) for i, j, t in want if (i, j, t) not in set(got)})) or "extra"
        v.append((prefix + "/bond/" + tname, f"bonds differ: {diff}"))
    return v


def _oracle_mol(case):
    import biotite.structure as struc
    from biotite.structure.io.mol.ctab import read_structure_from_ctab, write_structure_to_ctab
    mol, dflt = case["mol"], case.get("dflt", 0)
    n, m = len(mol["elems"]), len(mol["bonds"])
    v = []
    fits = all(len(f"{c:.4f}") <= 10 for xyz in mol["coords"] for c in xyz)      # what 10 columns can hold
    vers = ["auto", "V2000", "V3000"] if case["kind"] in ("mol", "mol-reject", "mol-oddelem") else [case.get("ver", "auto")]
    if case["kind"] == "mol-big":
        vers = ["auto", case.get("ver", "auto")]
    if case["kind"] == "mol-badarg":
        vers = [case["ver"]]
    atoms = _mk_atoms(mol)
    for ver in dict.fromkeys(vers):
        key = f"C18/ctab/{ver}"
        try:
            lines = write_structure_to_ctab(atoms, struc.BondType(dflt), None if ver == "auto" else ver)
        except Exception as e:  # noqa: BLE001
            # a refusal is legitimate only with the exception documented for that reason
            en = type(e).__name__
            ok_reject = (not fits and en == "BadStructureError") or (ver == "V2000" and (n >= 1000 or m >= 1000) and en == "ValueError") \
                or (ver not in ("auto", "V2000", "V3000") and en == "ValueError") or (dflt not in CTAB_EXPRESSIBLE and en == "KeyError")
            if not ok_reject:
                v.append((key + "/write-raises/" + type(e).__name__, f"valid molecule ({n} atoms, {m} bonds) rejected: {e}"))
            continue
        is_v2000 = lines[0].rstrip().endswith("V2000")
        if ver not in ("auto", "V2000", "V3000"):
            v.append((key + "/unknown-version-accepted", f"version {ver!r} accepted"))
        if is_v2000:
            if n >= 1000 or m >= 1000:
                v.append(("C18/v2000/count-overflow", f"{n} atoms / {m} bonds written as V2000: {lines[0]!r}"))
            for what, l in _audit_v2000(lines, n, m)[:2]:
                v.append(("C18/v2000/shifted-" + what, f"{l!r}"))
        elif ver == "V2000":
            v.append((key + "/wrong-version", "V2000 requested, something else written"))
        if ver == "V3000" and is_v2000:
            v.append((key + "/wrong-version", "V3000 requested, V2000 written"))
        if not fits:
            continue
        try:
            with warnings.catch_warnings():
                warnings.simplefilter("ignore")
                back = read_structure_from_ctab(lines)
        except Exception as e:  # noqa: BLE001
            v.append((key + "/read-raises/" + type(e).__name__, f"written CTAB cannot be read: {e}"))
            continue
        v += _compare(mol, back, dflt, CTAB_EXPRESSIBLE, key + "/" + ("v2000" if is_v2000 else "v3000"))
    return v


def _oracle_key(k, prefix="C18/key"):
    from biotite.structure.io.mol import Metadata
    K = Metadata.Key
    n, nm, ri, re_ = k
    in_grammar = (n is not None or nm is not None) and (nm is None or re.fullmatch(r"[a-zA-Z0-9][\w.]*", nm)) \
        and (re_ is None or re.fullmatch(r"[\w.-]*", re_)) and (n is None or n >= 0) and (ri is None or ri >= 0)
    try:
        key = _key_of(K, k)
    except ValueError as e:
        return [(prefix + "/valid-key-rejected", f"{k}: {e}")] if in_grammar else []
    except Exception as e:  # noqa: BLE001
        return [(prefix + "/wrong-exception/" + type(e).__name__, f"{k}: {e}")]
    if not in_grammar:
        if nm is not None and not re.fullmatch(r"[a-zA-Z0-9][\w.]*", nm):
            return [(prefix + "/invalid-name-accepted", f"name {nm!r} is outside the key grammar but accepted")]
        return []
    try:
        back = K.deserialize(key.serialize().strip())
    except Exception as e:  # noqa: BLE001
        return [(prefix + "/roundtrip-raises", f"{k}: {type(e).__name__}: {e}")]
    if back != key or (back.number, back.name, back.registry_internal, back.registry_external) != tuple(k):
        return [(prefix + "/roundtrip", f"{k} read as {back}")]
    return []


def _oracle_md(md):
    from biotite.structure.io.mol import Metadata
    d = {_key_of(Metadata.Key, tuple(k)): "\n".join(v) for k, v in md}
    try:
        back = Metadata.deserialize(Metadata(d).serialize())
    except Exception as e:  # noqa: BLE001
        return [("C18/metadata/roundtrip-raises", f"{type(e).__name__}: {e}")]
    if list(back.items()) != list(d.items()):
        return [("C18/metadata/roundtrip", f"{list(d.items())[:2]} read as {list(back.items())[:2]}")]
    return []


def _mk_header(h):
    import datetime
    from biotite.structure.io.mol import Header
    t = None if h["time"] is None else datetime.datetime(h["time"][2], h["time"][0], h["time"][1], h["time"][3], h["time"][4])
    return Header(h["mol_name"], h["initials"], h["program"], t, h["dimensions"], h["scaling_factors"], h["energy"],
                  h["registry_number"], h["comments"])


def _oracle_header(h, long_field=None):
    from biotite.structure.io.mol import Header
    hd = _mk_header(h)
    try:
        text = hd.serialize()
    except ValueError:
        return [] if long_field == "mol_name" else [("C18/header/serialize-raises", str(h))]
    lines = text.split("\n")
    v = []
    if len(lines) != 4 or len(lines[1]) != 52:
        v.append(("C18/header/shifted-columns", f"{lines[1]!r}"))
    with warnings.catch_warnings():
        warnings.simplefilter("ignore")
        back = Header.deserialize(text)
    for f in ("mol_name", "initials", "program", "time", "dimensions", "scaling_factors", "energy", "registry_number", "comments"):
        if f == long_field:
            continue
        if getattr(back, f) != getattr(hd, f):
            v.append(("C18/header/roundtrip/" + f, f"{getattr(hd, f)!r} read as {getattr(back, f)!r}"))
    return v


def _oracle_sdf(case):
    from biotite.structure.io.mol import Metadata, SDFile, SDRecord
    recs = case["records"]
    sd = SDFile()
    for r in recs:
        rec = SDRecord(header=_mk_header(r["header"]))
        rec.set_structure(_mk_atoms(r["mol"]), version=r["ver"])
        rec.metadata = Metadata({_key_of(Metadata.Key, tuple(k)): "\n".join(v) for k, v in r["md"]})
        sd[r["header"]["mol_name"]] = rec
    buf = io.StringIO()
    try:
        sd.write(buf)
    except Exception as e:  # noqa: BLE001
        return [("C18/sdf/write-raises", f"{type(e).__name__}: {e}")]
    buf.seek(0)
    v = []
    with warnings.catch_warnings():
        warnings.simplefilter("ignore")
        try:
            back = SDFile.read(buf)
            names = list(back.keys())
            if names != [r["header"]["mol_name"] for r in recs]:
                return [("C18/sdf/record-names", f"{[r['header']['mol_name'] for r in recs]} read as {names}")]
            for r in recs:
                rec = back[r["header"]["mol_name"]]
                hb = rec.header
                h0 = _mk_header(r["header"])
                if hb != h0:
                    v.append(("C18/sdf/header", f"{h0} read as {hb}"))
                want = [(_key_of(Metadata.Key, tuple(k)), "\n".join(val)) for k, val in r["md"]]
                if list(rec.metadata.items()) != want:
                    v.append(("C18/sdf/metadata", f"{want[:2]} read as {list(rec.metadata.items())[:2]}"))
                v += _compare(r["mol"], rec.get_structure(), 0, CTAB_EXPRESSIBLE, "C18/sdf/structure")
        except Exception as e:  # noqa: BLE001
            v.append(("C18/sdf/read-raises/" + type(e).__name__, f"{e}"))
    return v


def _record_text_lines(r, rng=None):
    import random
    lines = _header_lines_ref(r["header"])
    lines += _ref_v2000(r["mol"], {}) if r["ver"] != "V3000" else _ref_v3000(r["mol"], {}, rng or random.Random(0))
    lines += _md_lines_ref(r["md"])
    return lines + ["$$$$"]


def _oracle_sdf_edit(case):
    """Edit history on a *parsed* SDFile against a plain list of (name, record) — then write -> read."""
    import copy
    from biotite.structure.io.mol import Metadata, SDFile, SDRecord
    ref = [[r["header"]["mol_name"], copy.deepcopy(r)] for r in case["records"]]
    text = _text([l for r in case["records"] for l in _record_text_lines(r)])
    v = []
    with warnings.catch_warnings():
        warnings.simplefilter("ignore")
        try:
            f = SDFile.read(io.StringIO(text))
            for op in case["edits"]:
                if op[0] == "rename":
                    f[op[2]] = f[op[1]]
                    del f[op[1]]
                    i = next(k for k, (n, _) in enumerate(ref) if n == op[1])
                    rec = ref.pop(i)[1]
                    rec["header"]["mol_name"] = op[2]
                    ref.append([op[2], rec])
                elif op[0] == "del":
                    del f[op[1]]
                    ref = [x for x in ref if x[0] != op[1]]
                elif op[0] == "hdr":
                    setattr(f[op[1]].header, op[2], op[3])
                    next(r for n, r in ref if n == op[1])["header"][op[2]] = op[3]
                elif op[0] == "md_set":
                    key = _key_of(Metadata.Key, tuple(op[2]))
                    f[op[1]].metadata[key] = "\n".join(op[3])
                    md = next(r for n, r in ref if n == op[1])["md"]
                    hit = [e for e in md if tuple(e[0]) == tuple(op[2])]
                    if hit:
                        hit[0][1] = list(op[3])
                    else:
                        md.append([list(op[2]), list(op[3])])
                elif op[0] == "md_del":
                    md = next(r for n, r in ref if n == op[1])["md"]
                    if md:
                        del f[op[1]].metadata[_key_of(Metadata.Key, tuple(md[0][0]))]
                        md.pop(0)
                elif op[0] == "mol":
                    f[op[1]].set_structure(_mk_atoms(op[2]), version=op[3])
                    next(r for n, r in ref if n == op[1])["mol"] = op[2]
                elif op[0] == "insert":
                    r = op[2]
                    rec = SDRecord(header=_mk_header(r["header"]))
                    rec.set_structure(_mk_atoms(r["mol"]), version=r["ver"])
                    rec.metadata = Metadata({_key_of(Metadata.Key, tuple(k)): "\n".join(val) for k, val in r["md"]})
                    f[op[1]] = rec
                    r2 = copy.deepcopy(r)
                    r2["header"]["mol_name"] = op[1]
                    ref.append([op[1], r2])
            if list(f.keys()) != [n for n, _ in ref]:
                return [("C18/sdf-edit/keys-before-write", f"{[n for n, _ in ref]} but the file has {list(f.keys())}")]
            buf = io.StringIO()
            f.write(buf)
            buf.seek(0)
            back = SDFile.read(buf)
            names = list(back.keys())
            if names != [n for n, _ in ref]:
                return [("C18/sdf-edit/record-names", f"after {[o[:2] for o in case['edits']]}: expected {[n for n, _ in ref]}, read {names}")]
            for n, r in ref:
                rec = back[n]
                h0 = _mk_header(r["header"])
                if rec.header != h0:
                    v.append(("C18/sdf-edit/header", f"record {n!r}: {h0} read as {rec.header}"))
                want = [(_key_of(Metadata.Key, tuple(k)), "\n".join(val)) for k, val in r["md"]]
                if list(rec.metadata.items()) != want:
                    v.append(("C18/sdf-edit/metadata", f"record {n!r}: {want[:2]} read as {list(rec.metadata.items())[:2]}"))
                v += _compare(r["mol"], rec.get_structure(), 0, CTAB_EXPRESSIBLE, "C18/sdf-edit/structure")
        except Exception as e:  # noqa: BLE001
            v.append(("C18/sdf-edit/raises/" + type(e).__name__, f"{e} after {[o[:2] for o in case['edits']]}"))
    return v[:3]


def _bad_set_structure(f, how, rng_mol):
    """A set_structure call that must be rejected; returns the exception (or None if it was accepted)."""
    import numpy as np
    import biotite.structure as struc
    try:
        if how == "v2000-too-many-atoms":
            a = struc.AtomArray(1000)
            a.element[:] = "C"
            a.coord[:] = 0.0
            a.bonds = struc.BondList(1000)
            f.set_structure(a, version="V2000")
        elif how == "v2000-too-many-bonds":
            a = struc.AtomArray(46)
            a.element[:] = "C"
            a.coord[:] = 0.0
            a.bonds = struc.BondList(46, np.array([(i, j, 1) for i in range(46) for j in range(i + 1, 46)][:1000]))
            f.set_structure(a, version="V2000")
        elif how == "coordinate-too-wide":
            a = _mk_atoms(rng_mol)
            a.coord[0, 1] = 123456.7
            f.set_structure(a)
        elif how == "nan-coordinate":
            a = _mk_atoms(rng_mol)
            a.coord[-1, 2] = np.nan
            f.set_structure(a)
        elif how == "no-bondlist":
            a = _mk_atoms(rng_mol)
            a.bonds = None
            f.set_structure(a)
        elif how == "unknown-version":
            f.set_structure(_mk_atoms(rng_mol), version="V4000")
        elif how == "stack":
            f.set_structure(struc.stack([_mk_atoms(rng_mol)] * 2))
        else:
            f.set_structure(_mk_atoms(rng_mol), default_bond_type=struc.BondType.QUADRUPLE)
    except Exception as e:  # noqa: BLE001
        return e
    return None


BAD_SET = ["v2000-too-many-atoms", "v2000-too-many-bonds", "coordinate-too-wide", "nan-coordinate", "no-bondlist",
           "unknown-version", "stack", "bad-default-bond"]


def _oracle_sdf_rebuild(case):
    """Records of a parsed SDFile handed to the SDFile constructor under new names (headers touched or not), write -> read."""
    from biotite.structure.io.mol import Metadata, SDFile, SDRecord
    recs = case["records"]
    text = _text([l for r in recs for l in _record_text_lines(r)])
    v = []
    with warnings.catch_warnings():
        warnings.simplefilter("ignore")
        try:
            src = SDFile.read(io.StringIO(text))
            items = {}
            want = []
            for new, old, touch in case["mapping"]:
                if old is None:                          # a freshly built record
                    r = case["fresh"][new]
                    rec = SDRecord(header=_mk_header(r["header"]))
                    rec.set_structure(_mk_atoms(r["mol"]), version=r["ver"])
                    rec.metadata = Metadata({_key_of(Metadata.Key, tuple(k)): "\n".join(val) for k, val in r["md"]})
                    ref = r
                else:
                    rec = src[old]
                    ref = next(r for r in recs if r["header"]["mol_name"] == old)
                    if touch == "header":
                        rec.header
                    elif touch == "structure":
                        rec.get_structure()
                    elif touch == "metadata":
                        rec.metadata
                items[new] = rec
                want.append((new, ref))
            g = SDFile(items) if case.get("via", "init") == "init" else SDFile()
            if case.get("via") == "setitem":
                for k, rec in items.items():
                    g[k] = rec
            buf = io.StringIO()
            g.write(buf)
            buf.seek(0)
            back = SDFile.read(buf)
            if list(back.keys()) != [n for n, _ in want]:
                return [("C18/sdf-rebuild/record-names", f"records given as {[n for n, _ in want]} (from {[m[1] for m in case['mapping']]}, "
                         f"touched {[m[2] for m in case['mapping']]}, via {case.get('via', 'init')}) read as {list(back.keys())}")]
            for n, r in want:
                rec = back[n]
                h0 = _mk_header(dict(r["header"], mol_name=n))
                if rec.header != h0:
                    v.append(("C18/sdf-rebuild/header", f"record {n!r}: {h0} read as {rec.header}"))
                wmd = [(_key_of(Metadata.Key, tuple(k)), "\n".join(val)) for k, val in r["md"]]
                if list(rec.metadata.items()) != wmd:
                    v.append(("C18/sdf-rebuild/metadata", f"record {n!r}: {wmd[:2]} read as {list(rec.metadata.items())[:2]}"))
                v += _compare(r["mol"], rec.get_structure(), 0, CTAB_EXPRESSIBLE, "C18/sdf-rebuild/structure")
        except Exception as e:  # noqa: BLE001
            v.append(("C18/sdf-rebuild/raises/" + type(e).__name__, f"{e}"))
    return v[:3]


# ------------------------------------------------------------------------------------------ hardening stream ("api")
API_SCENARIOS = ["molfile-state", "sdrecord-state", "sdfile-mapping", "convert-wrappers", "spellings", "limits"]


def _api_case(rng, scenario=None):
    sc = scenario or rng.choice(API_SCENARIOS)
    c = {"kind": "api", "scenario": sc, "a": _small_mol(rng, rng.choice([2, 3, 5])), "b": _small_mol(rng, rng.choice([1, 4, 7])),
         "h1": _header(rng), "h2": _header(rng), "md": _metadata(rng, rng.choice([1, 2])), "seed": rng.randrange(10 ** 6),
         "ver": rng.choice([None, "V2000", "V3000"]), "dflt": rng.choice([0, 1, 2, 9])}
    used = set()
    c["names"] = []
    for _ in range(rng.choice([1, 2, 3, 4])):
        nm = _fresh_name(rng, used)
        used.add(nm)
        c["names"].append(nm)
    c["extra_name"] = _fresh_name(rng, used)
    if sc == "limits":
        c["n_charges"] = rng.choice([7, 8, 9, 15, 16, 17, 24])
        c["n_atoms"] = rng.choice([1, 30, 30, 999])
    return c


def _snap_atoms(a):
    return (a.coord.copy(), a.element.copy(), a.charge.copy(), a.bonds.as_array().copy(), a.coord.dtype, a.charge.dtype)


def _same_snap(x, y):
    import numpy as np
    return all(np.array_equal(p, q) for p, q in zip(x[:4], y[:4])) and x[4:] == y[4:]


def _rec_of(h, mol, md, ver=None, dflt=0):
    import biotite.structure as struc
    from biotite.structure.io.mol import Metadata, SDRecord
    rec = SDRecord(header=_mk_header(h))
    rec.set_structure(_mk_atoms(mol), struc.BondType(dflt), ver)
    rec.metadata = Metadata({_key_of(Metadata.Key, tuple(k)): "\n".join(v) for k, v in md})
    return rec


def _check_rec(rec, h, mol, md, prefix, dflt=0, name=None):
    from biotite.structure.io.mol import Metadata
    v = []
    h0 = _mk_header(dict(h, mol_name=name if name is not None else h["mol_name"]))
    if rec.header != h0:
        v.append((prefix + "/header", f"{h0} but record has {rec.header}"))
    want = [(_key_of(Metadata.Key, tuple(k)), "\n".join(val)) for k, val in md]
    if list(rec.metadata.items()) != want:
        v.append((prefix + "/metadata", f"{want[:2]} but record has {list(rec.metadata.items())[:2]}"))
    v += _compare(mol, rec.get_structure(), dflt, CTAB_EXPRESSIBLE, prefix + "/structure")
    return v


def _oracle_api(case):
    import copy as _copy
    import numpy as np
    import biotite.structure as struc
    from biotite.structure.io.mol import Header, Metadata, MOLFile, SDFile, SDRecord, get_structure, set_structure
    sc = case["scenario"]
    A, B, h1, h2, md = case["a"], case["b"], case["h1"], case["h2"], case["md"]
    P = "C18/api/" + sc
    v = []

    def reread(obj, cls):
        buf = io.StringIO()
        obj.write(buf)
        buf.seek(0)
        return cls.read(buf)

    with warnings.catch_warnings():
        warnings.simplefilter("ignore")
        try:
            if sc == "molfile-state":
                f = MOLFile()
                f.header = _mk_header(h1)
                atoms_a = _mk_atoms(A)
                snap = _snap_atoms(atoms_a)
                f.set_structure(atoms_a, version=case["ver"])
                if not _same_snap(snap, _snap_atoms(atoms_a)):
                    v.append((P + "/set_structure-changes-its-argument", "the AtomArray given to MOLFile.set_structure was modified"))
                v += _compare(A, f.get_structure(), 0, CTAB_EXPRESSIBLE, P + "/first-read")
                # header edited in place on the object the file hands out, then a molecule of another size
                f.header.comments = h2["comments"]
                f.header.program = h2["program"]
                f.set_structure(_mk_atoms(B), version=case["ver"])
                v += _compare(B, f.get_structure(), 0, CTAB_EXPRESSIBLE, P + "/second-read")
                hexp = dict(h1, comments=h2["comments"], program=h2["program"])
                fresh = MOLFile()
                fresh.header = _mk_header(hexp)
                fresh.set_structure(_mk_atoms(B), version=case["ver"])
                g = reread(f, MOLFile)
                if g.header != _mk_header(hexp):
                    v.append((P + "/header-edited-in-place-not-written", f"header edited to {_mk_header(hexp)}, file wrote {g.header}"))
                v += _compare(B, g.get_structure(), 0, CTAB_EXPRESSIBLE, P + "/reread")
                if str(f) != str(fresh):
                    v.append((P + "/differs-from-fresh-object", "a reused MOLFile and a fresh one with the same content print differently"))
                # a copy is independent of its original in BOTH directions, whatever is done first (the header setter and the
                # header sync change lines in place, set_structure re-binds them)
                for order in ("header-first", "structure-first", "in-place-edit-then-write"):
                    o = MOLFile()
                    o.header = _mk_header(h1)
                    o.set_structure(_mk_atoms(B), version=case["ver"])
                    cp = o.copy()
                    before_c, before_o = str(cp), str(o)
                    if order == "header-first":
                        o.header = _mk_header(h2)
                        o.set_structure(_mk_atoms(A))
                    elif order == "structure-first":
                        o.set_structure(_mk_atoms(A))
                        o.header = _mk_header(h2)
                    else:
                        o.header.comments = "edited after the copy"
                        o.write(io.StringIO())
                    if str(cp) != before_c:
                        v.append((P + "/copy-shares-state/" + order, f"the copy changed when its original was modified: {str(cp).splitlines()[:3]}"))
                        break
                    o2 = MOLFile()
                    o2.header = _mk_header(h1)
                    o2.set_structure(_mk_atoms(B), version=case["ver"])
                    cp2 = o2.copy()
                    if order == "in-place-edit-then-write":
                        cp2.header.comments = "edited in the copy"
                        cp2.write(io.StringIO())
                    else:
                        cp2.header = _mk_header(h2)
                    if str(o2) != before_o:
                        v.append((P + "/copy-shares-state/original-after-" + order, "the original changed when its copy was modified"))
                        break
                c = f.copy()
                f.set_structure(_mk_atoms(A))
                f.header = _mk_header(h2)
                if c.header != _mk_header(hexp):
                    v.append((P + "/copy-header", f"copy has header {c.header}"))
                v += _compare(B, c.get_structure(), 0, CTAB_EXPRESSIBLE, P + "/copy")
                # every way of exporting an object whose header was edited in place, each on its own object and as the
                # FIRST thing done after the edit (so that no earlier export has synchronised anything)
                import pickle

                def prepared(from_text):
                    m = MOLFile()
                    m.header = _mk_header(h1)
                    m.set_structure(_mk_atoms(B), version=case["ver"])
                    if from_text:
                        m = reread(m, MOLFile)
                    m.header.comments = h2["comments"]
                    m.header.program = h2["program"]
                    return m

                want_text = str(fresh)
                exporters = {
                    "write": lambda m: (lambda b: (m.write(b), b.getvalue())[1])(io.StringIO()).rstrip("\n"),
                    "str": lambda m: str(m),
                    "copy-then-str": lambda m: str(m.copy()),
                    "copy-then-write": lambda m: (lambda b: (m.copy().write(b), b.getvalue())[1])(io.StringIO()).rstrip("\n"),
                    "copy-then-header": lambda m: (lambda c_: "\n".join(c_.header.serialize().splitlines() + c_.lines[3:]))(m.copy()),
                    "copy-of-copy": lambda m: str(m.copy().copy()),
                    "deepcopy-then-str": lambda m: str(_copy.deepcopy(m)),
                    "copy.copy-then-str": lambda m: str(_copy.copy(m)),
                    "pickle-then-str": lambda m: str(pickle.loads(pickle.dumps(m))),
                    "header-then-lines": lambda m: "\n".join(m.header.serialize().splitlines() + m.lines[3:]),
                }
                for how, ex in exporters.items():
                    for from_text in (False, True):
                        try:
                            got = ex(prepared(from_text))
                        except Exception as e:  # noqa: BLE001
                            v.append((P + "/export-after-in-place-edit/" + how + "/raises", f"{type(e).__name__}: {e}"))
                            continue
                        if got != want_text:
                            v.append((P + "/export-after-in-place-edit/" + how,
                                      f"header edited in place ({'parsed' if from_text else 'built'} file), then {how}: header lines "
                                      f"{got.splitlines()[:3]} instead of {want_text.splitlines()[:3]}"))
                            break
                # MOLFile can read the first record of an SD file
                sd = SDFile({"first": _rec_of(h1, A, md), "second": _rec_of(h2, B, [])})
                v += _compare(A, MOLFile.read(io.StringIO(sd.serialize())).get_structure(), 0, CTAB_EXPRESSIBLE, P + "/molfile-reads-sdf")
                # class-level line iterators
                buf = io.StringIO()
                MOLFile.write_iter(buf, iter(fresh.lines))
                buf.seek(0)
                if [l.rstrip("\n") for l in MOLFile.read_iter(buf)] != fresh.lines:       # read_iter yields raw lines
                    v.append((P + "/read_iter-write_iter", "lines differ"))
            elif sc == "sdrecord-state":
                rec = _rec_of(h1, A, md, case["ver"], case["dflt"])
                v += _check_rec(rec, h1, A, md, P + "/first", case["dflt"])
                t1 = rec.serialize()
                if rec.serialize() != t1 or str(rec) != t1:
                    v.append((P + "/serialize-not-stable", "two serialize() calls differ"))
                # refused calls change nothing
                bad = _mk_atoms(B)
                bad.coord[0, 0] = 1e6
                snap = _snap_atoms(bad)
                for call, expected in ((lambda: rec.set_structure(bad), struc.BadStructureError),
                                       (lambda: rec.set_structure(_mk_atoms(B), version="V9"), ValueError),
                                       (lambda: rec.metadata.__setitem__("k", ""), ValueError),
                                       (lambda: rec.metadata.__setitem__("k", "a\n\nb"), ValueError),
                                       (lambda: rec.metadata.__setitem__(5, "x"), TypeError),
                                       (lambda: setattr(rec, "metadata", 5), TypeError)):
                    try:
                        call()
                        v.append((P + "/invalid-call-accepted", "a call that must be refused was accepted"))
                    except expected:
                        pass
                    except Exception as e:  # noqa: BLE001
                        v.append((P + "/wrong-exception", f"{type(e).__name__} instead of {expected.__name__}"))
                    if rec.serialize() != t1:
                        v.append((P + "/refused-call-changed-record", "record text changed although the call raised"))
                        break
                if not _same_snap(snap, _snap_atoms(bad)):
                    v.append((P + "/refused-call-changed-argument", "AtomArray changed by a refused set_structure"))
                if rec.ctab != "".join(l + "\n" for l in t1.splitlines()[3:3 + len(rec.ctab.splitlines())]):
                    v.append((P + "/ctab-property", "SDRecord.ctab is not the CTAB part of serialize()"))
                # another molecule, edited metadata and header: equal to a fresh record with that content
                rec.set_structure(_mk_atoms(B), version=case["ver"])
                rec.header.comments = h2["comments"]
                k0 = _key_of(Metadata.Key, tuple(md[0][0]))
                rec.metadata[k0] = "changed"
                md2 = [[md[0][0], ["changed"]]] + [list(e) for e in md[1:]]
                fresh = _rec_of(dict(h1, comments=h2["comments"]), B, md2, case["ver"])
                if rec.serialize() != fresh.serialize() or not (rec == fresh):
                    v.append((P + "/differs-from-fresh-object", "reused SDRecord differs from a fresh one with the same content"))
                import pickle

                def prepared_sd(from_text):
                    sdx = SDFile({"r1": _rec_of(h1, B, md, case["ver"]), "r2": _rec_of(h2, A, [])})
                    if from_text:
                        sdx = SDFile.deserialize(sdx.serialize())
                    sdx["r1"].header.comments = h2["comments"]
                    sdx["r1"].metadata[k0] = "changed"
                    return sdx

                want_sd = SDFile({"r1": _rec_of(dict(h1, comments=h2["comments"]), B, md2, case["ver"]), "r2": _rec_of(h2, A, [])}).serialize()
                sd_exporters = {
                    "serialize": lambda x: x.serialize(),
                    "str": lambda x: str(x),
                    "lines": lambda x: "".join(l + "\n" for l in x.lines),
                    "write": lambda x: (lambda b: (x.write(b), b.getvalue())[1])(io.StringIO()),
                    "copy": lambda x: x.copy().serialize(),
                    "deepcopy": lambda x: _copy.deepcopy(x).serialize(),
                    "pickle": lambda x: pickle.loads(pickle.dumps(x)).serialize(),
                    "records-one-by-one": lambda x: "".join(x[n].serialize() + "$$$$\n" for n in x),
                    "values": lambda x: "".join(r.serialize() + "$$$$\n" for r in x.values()),
                    "new-file-from-items": lambda x: SDFile(dict(x.items())).serialize(),
                }
                for how, ex in sd_exporters.items():
                    for from_text in (False, True):
                        try:
                            got = ex(prepared_sd(from_text))
                        except Exception as e:  # noqa: BLE001
                            v.append((P + "/export-after-in-place-edit/" + how + "/raises", f"{type(e).__name__}: {e}"))
                            continue
                        if SDFile.deserialize(got) != SDFile.deserialize(want_sd) or list(SDFile.deserialize(got).keys()) != ["r1", "r2"]:
                            v.append((P + "/export-after-in-place-edit/" + how,
                                      f"record edited in place ({'parsed' if from_text else 'built'} file), then {how}: differs from a fresh file"))
                            break
                back = SDRecord.deserialize(rec.serialize())
                v += _check_rec(back, dict(h1, comments=h2["comments"]), B, md2, P + "/reparsed")
                if not (back == rec):
                    v.append((P + "/eq", "a record and its re-parsed serialisation compare unequal"))
            elif sc == "sdfile-mapping":
                names = case["names"]
                content = {n: (h1 if i % 2 == 0 else h2, A if i % 2 == 0 else B, md if i % 2 == 0 else []) for i, n in enumerate(names)}
                sd = SDFile({n: _rec_of(*content[n]) for n in names})
                if list(sd) != names or len(sd) != len(names) or list(sd.keys()) != names or not all(n in sd for n in names) \
                        or case["extra_name"] in sd:
                    v.append((P + "/iteration", f"{names} vs {list(sd)}"))
                if sd.lines != sd.serialize().splitlines() or str(sd) != sd.serialize():
                    v.append((P + "/lines-str", "lines / str disagree with serialize()"))
                try:
                    one = sd.record
                    if len(names) != 1 or one is not sd[names[0]]:
                        v.append((P + "/record-property", "record returned although the file has several records"))
                except ValueError:
                    if len(names) == 1:
                        v.append((P + "/record-property", "record raised for a single-record file"))
                parsed = SDFile.deserialize(sd.serialize())
                if not (parsed == sd) or not (sd == parsed):
                    v.append((P + "/eq", "a file and its re-parsed serialisation compare unequal"))
                cp = sd.copy()
                if list(cp.keys()) != names:
                    v.append((P + "/copy-loses-records", f"copy() of a file with records {names} has records {list(cp.keys())}"))
                else:
                    if not (cp == sd):
                        v.append((P + "/copy-not-equal", "copy() differs from the original"))
                    cp[names[0]].header.comments = "edited in the copy"
                    cp[names[0]].set_structure(_mk_atoms(B))
                    for n in names:
                        v += _check_rec(sd[n], *content[n], P + "/original-after-editing-copy", name=n)
                # refused item assignment
                t0 = sd.serialize()
                for bad in ("not a record", None, 3):
                    try:
                        sd[case["extra_name"]] = bad
                        v.append((P + "/invalid-call-accepted", f"file[name] = {bad!r} accepted"))
                    except TypeError:
                        pass
                if sd.serialize() != t0:
                    v.append((P + "/refused-call-changed-file", "file changed by a refused item assignment"))
                # a name the header cannot hold: serialisation fails, deleting it heals the file
                long = "n" * 81
                sd[long] = _rec_of(h2, B, [])
                try:
                    sd.serialize()
                    v.append((P + "/overlong-name-written", "a molecule name of 81 characters was serialised"))
                except Exception:  # noqa: BLE001
                    pass
                del sd[long]
                if sd.serialize() != t0:
                    v.append((P + "/state-after-failed-serialize", "file differs after removing the offending record"))
                # MutableMapping mix-ins
                ref = list(names)
                x = case["extra_name"]
                got = sd.setdefault(ref[0], _rec_of(h2, B, []))
                v += _check_rec(got, *content[ref[0]], P + "/setdefault-existing", name=ref[0])
                sd.update({x: _rec_of(h2, B, md)})
                ref.append(x)
                content[x] = (h2, B, md)
                rec = sd.pop(ref[0])
                v += _check_rec(rec, *content[ref[0]], P + "/pop", name=ref[0])
                ref.pop(0)
                if list(sd.keys()) != ref or [r.header.mol_name for r in sd.values()] != ref or [k for k, _ in sd.items()] != ref:
                    v.append((P + "/keys-after-pop-update", f"{ref} vs {list(sd.keys())}"))
                back = reread(sd, SDFile)
                if list(back.keys()) != ref:
                    v.append((P + "/reread-names", f"{ref} read as {list(back.keys())}"))
                else:
                    for n in ref:
                        v += _check_rec(back[n], *content[n], P + "/reread", name=n)
                k, r = sd.popitem()                      # MutableMapping.popitem: the first key
                if k not in ref or k in sd or len(sd) != len(ref) - 1:
                    v.append((P + "/popitem", f"{k!r} popped from {ref}, left {list(sd.keys())}"))
                sd.clear()
                if len(sd) != 0 or sd.serialize() != "":
                    v.append((P + "/clear", "file not empty after clear()"))
            elif sc == "convert-wrappers":
                dflt, ver = case["dflt"], case["ver"]
                bt = struc.BondType(dflt)
                # the same call through every entry level
                texts = {}
                mf = MOLFile()
                set_structure(mf, _mk_atoms(A), bt, ver)
                texts["MOLFile"] = mf.lines[3:]
                rec = SDRecord()
                set_structure(rec, _mk_atoms(A), default_bond_type=bt, version=ver)
                texts["SDRecord"] = rec.ctab.splitlines()
                sd = SDFile()
                set_structure(sd, _mk_atoms(A), bt, ver)
                if list(sd.keys()) != ["Molecule"]:
                    v.append((P + "/empty-file-record-name", f"{list(sd.keys())}"))
                texts["SDFile"] = sd[next(iter(sd))].ctab.splitlines()
                sd2 = SDFile({n: _rec_of(h1 if i % 2 else h2, B, md if i % 2 == 0 else []) for i, n in enumerate(case["names"])})
                target = case["names"][-1]
                for from_text in (False, True):
                    # the wrapper addressing an EXISTING record (by name, and by default = the first one) replaces the molecule
                    # and nothing else: header fields, metadata, name, position, the other records
                    for tgt in (case["names"][-1], None):
                        sdw = SDFile({n: _rec_of(h1 if i % 2 else h2, B, md if i % 2 == 0 else []) for i, n in enumerate(case["names"])})
                        if from_text:
                            sdw = SDFile.deserialize(sdw.serialize())
                        set_structure(sdw, _mk_atoms(A), bt, ver, **({} if tgt is None else {"record_name": tgt}))
                        hit = case["names"][0] if tgt is None else tgt
                        for state, fobj in (("in-memory", sdw), ("reread", reread(sdw, SDFile))):
                            if list(fobj.keys()) != case["names"]:
                                v.append((P + "/existing-record/names", f"{case['names']} became {list(fobj.keys())}"))
                                break
                            for i, n in enumerate(case["names"]):
                                v += _check_rec(fobj[n], h1 if i % 2 else h2, A if n == hit else B, md if i % 2 == 0 else [],
                                                P + "/existing-record/" + ("target" if n == hit else "other") + "-" + state,
                                                dflt if n == hit else 0, name=n)
                            if v:
                                break
                        if v:
                            break
                    if v:
                        break
                set_structure(sd2, _mk_atoms(A), bt, ver, record_name=target)
                texts["SDFile[name]"] = sd2[target].ctab.splitlines()
                set_structure(sd2, _mk_atoms(A), bt, ver, record_name=case["extra_name"])
                if list(sd2.keys()) != case["names"] + [case["extra_name"]]:
                    v.append((P + "/new-record-name", f"{list(sd2.keys())}"))
                direct = _rec_of(h1, A, [], ver, dflt).ctab.splitlines()
                for lvl, t in texts.items():
                    if t != direct:
                        v.append((P + "/argument-not-forwarded/" + lvl, f"default_bond_type={dflt}, version={ver}: {t[:1]} vs {direct[:1]}"))
                for obj, kw in ((mf, {}), (rec, {}), (sd, {}), (sd2, {"record_name": target})):
                    v += _compare(A, get_structure(obj, **kw), dflt, CTAB_EXPRESSIBLE, P + "/get_structure")
                for n in case["names"][:-1]:
                    v += _compare(B, get_structure(sd2, n), 0, CTAB_EXPRESSIBLE, P + "/other-records-untouched")
                try:
                    get_structure(5)
                    v.append((P + "/invalid-call-accepted", "get_structure(5)"))
                except TypeError:
                    pass
            elif sc == "spellings":
                base = _mk_atoms(A)
                ref_lines = {ver: MOLFile() for ver in ("V2000", "V3000")}
                for ver, f in ref_lines.items():
                    f.set_structure(base, struc.BondType(case["dflt"]), ver)
                n = len(A["elems"])
                for dt in (np.int8, np.int16, np.int32, np.int64):
                    a = _mk_atoms(A)
                    a.del_annotation("charge")
                    a.add_annotation("charge", dt)
                    a.charge[:] = A["charges"]
                    # coordinates from a float64 / Fortran-ordered / strided source, bonds reversed and duplicated, other widths
                    src = np.asfortranarray(np.array(A["coords"], dtype=np.float64).reshape(n, 3))
                    a.coord = src if dt in (np.int8, np.int32) else np.repeat(src, 2, axis=0)[::2]
                    bonds = [[j, i, t] for i, j, t in A["bonds"]] + [list(b) for b in A["bonds"][:1]]
                    a.bonds = struc.BondList(n, np.array(bonds, dtype=np.int32 if dt is np.int8 else np.uint32).reshape(-1, 3))
                    for ver, f in ref_lines.items():
                        for d in (struc.BondType(case["dflt"]), int(case["dflt"]), np.uint8(case["dflt"]), np.int64(case["dflt"])):
                            for vv in (ver, np.str_(ver)):
                                g = MOLFile()
                                g.set_structure(a, d, vv)
                                want = sorted(f.lines[3:]) if A["bonds"] else f.lines[3:]
                                if sorted(g.lines[3:]) != sorted(f.lines[3:]):
                                    v.append((P + f"/charge-{dt.__name__}-dflt-{type(d).__name__}-version-{type(vv).__name__}",
                                              "the same molecule in another spelling is written differently"))
                                    break
                K = Metadata.Key
                if K(number=np.int64(12), name=np.str_("ab"), registry_internal=np.uint8(7)) != K(number=12, name="ab", registry_internal=7) \
                        or K(number="12", registry_internal="7") != K(number=12, registry_internal=7):
                    v.append((P + "/key-spelling", "keys given with NumPy scalars / digit strings differ from the plain ones"))
                sd = SDFile()
                sd[np.str_(case["names"][0])] = _rec_of(h1, A, md)
                back = SDFile.deserialize(sd.serialize())
                v += _check_rec(back[case["names"][0]], h1, A, md, P + "/np-str-name", name=case["names"][0])
                hd = Header(mol_name=np.str_("x"), time=__import__("datetime").date(2024, 2, 29))
                if Header.deserialize(hd.serialize()).time != __import__("datetime").datetime(2024, 2, 29, 0, 0):
                    v.append((P + "/date-time", "a date is not read back as that day at 00:00"))
            elif sc == "limits":
                n = case["n_atoms"]
                k = min(case["n_charges"], n)
                mol = {"elems": ["C"] * n, "charges": [(i % 15 + 1) * (1 if i % 2 else -1) if i < k else 0 for i in range(n)],
                       "coords": [[_f32(i * 0.125), 0.0, _f32(-i * 0.5)] for i in range(n)], "bonds": [[i, i + 1, 1] for i in range(n - 1)]}
                for ver in (None, "V2000", "V3000"):
                    f = MOLFile()
                    f.set_structure(_mk_atoms(mol), version=ver)
                    if ver != "V3000":
                        for what, l in _audit_v2000(f.lines[3:], n, n - 1)[:1]:
                            v.append(("C18/v2000/shifted-" + what, repr(l)))
                        chg = [l for l in f.lines if l.startswith("M  CHG")]
                        if [int(l[6:9]) for l in chg] != [8] * (k // 8) + ([k % 8] if k % 8 else []):
                            v.append((P + "/chg-lines-not-filled", f"{k} charges written as lines of {[int(l[6:9]) for l in chg]}"))
                    v += _compare(mol, f.get_structure(), 0, CTAB_EXPRESSIBLE, P + f"/{ver}")
                hh = dict(h1, mol_name="N" * 80, initials="ab", program="p" * 8, dimensions="3D", scaling_factors="s" * 12,
                          energy="e" * 12, registry_number="r" * 6)
                rec = _rec_of(hh, A, [[list(md[0][0]), ["x"]]])
                sd = SDFile({"N" * 80: rec, "": SDRecord(), "z": SDRecord(header=_mk_header(h2))})
                back = SDFile.deserialize(sd.serialize())
                if list(back.keys()) != ["N" * 80, "", "z"]:
                    v.append((P + "/names", f"{list(back.keys())}"))
                else:
                    v += _check_rec(back["N" * 80], hh, A, [[list(md[0][0]), ["x"]]], P + "/full-width-fields")
                    if back[""].get_structure().array_length() != 0 or back["z"].get_structure().array_length() != 0:
                        v.append((P + "/record-without-structure", "a record without structure does not come back empty"))
        except Exception as e:  # noqa: BLE001
            import traceback
            tb = traceback.extract_tb(e.__traceback__)[-1]
            v.append((P + "/raises/" + type(e).__name__, f"{e} ({os.path.basename(tb.filename)}:{tb.lineno})"))
    return v[:4]


# ------------------------------------------------------------------------------------------ excluded regions ("edge")
# Inputs OUTSIDE the hypotheses of the theorems (WFMol, ValidHeader, MdOk, ValidKey, NoDelim, rs != []).  The format cannot
# hold them: the code must refuse them with the documented exception — never write a file that is shifted, split,
# unreadable or reads back as something else.
EDGE = ["long-element", "non-finite-coordinate", "header-line-break", "delimiter-line", "value-structure", "key-parts",
        "empty-file", "v3000-no-atoms", "format-limits"]
LINE_BREAKS = ["\n", "\r", "\x0b", "\x0c", "\x1c", "\x1d", "\x1e", "\x85", " ", " "]


def _edge_case(rng, sc=None):
    sc = sc or rng.choice(EDGE)
    c = {"kind": "edge", "scenario": sc, "mol": _small_mol(rng, rng.choice([2, 3])), "h": _header(rng), "md": _metadata(rng, 1),
         "ver": rng.choice([None, "V2000", "V3000"]), "pick": rng.randrange(10 ** 6)}
    if sc == "long-element":
        c["elem"] = rng.choice(["ABCD", "Xxxx", "CARBON", "Uuuq", "ABC", "Uue"])
    elif sc == "non-finite-coordinate":
        c["value"] = rng.choice(["inf", "-inf", "nan"])
    elif sc == "header-line-break":
        c["field"] = rng.choice(["mol_name", "comments", "program", "initials", "energy", "scaling_factors", "registry_number", "dimensions"])
        br = rng.choice(LINE_BREAKS)
        c["text"] = rng.choice(["a" + br + "b", br + "a", "a" + br])[: 2 if c["field"] in ("initials", "dimensions") else 6]
        if not any(b in c["text"] for b in LINE_BREAKS):
            c["text"] = "a" + br
    elif sc == "delimiter-line":
        c["where"] = rng.choice(["mol_name", "comments", "value-first", "value-later", "line2"])
        c["text"] = "$$$$" + rng.choice(["", "x", " end"])
        rec = {"header": dict(c["h"], mol_name="rec1"), "mol": c["mol"], "md": c["md"], "ver": None}
        c["ops"] = ["\t".join(["SE"] + _record_text_lines(rec) + ["#OPS", "H", "rec1", "comments", c["text"]]),
                    "\t".join(["SE"] + _record_text_lines(rec) + ["#OPS", "R", "rec1", c["text"]])]
    elif sc == "value-structure":
        br = rng.choice(LINE_BREAKS[1:])
        c["value"] = rng.choice(["a\n\nb", "a\n  \nb", "\na", "a\n", "a\n> b", "> <x>", "a\n>b", "  > b", "a" + br + "b", "a\nb" + br, "", "\n"])
        c["via"] = rng.choice(["setitem", "ctor", "record-ctor", "record-setter"])
    elif sc == "key-parts":
        c["key"] = rng.choice([{"number": -7}, {"number": -1, "name": "a"}, {"name": "a", "registry_internal": -3},
                               {"name": "a", "registry_external": "x y"}, {"name": "a", "registry_external": "(x)"},
                               {"number": 3, "registry_external": "a)"}, {"name": "a", "registry_external": "a\nb"},
                               {"number": 12, "name": "NAME", "registry_internal": 55, "registry_external": "MD-08974\n"},
                               {"name": "a", "registry_external": "x\n"}, {"name": "a", "registry_external": "\n"},
                               {"number": 1, "registry_external": "x.y-1\n"}, {"name": "ab\n"}, {"number": 2, "name": "q_1\n"},
                               {"name": "a", "registry_external": ""}, {"name": "a", "registry_external": "A-1.b_c"}])
    return c


def _oracle_edge(case):
    import numpy as np
    import biotite.structure as struc
    from biotite.file import DeserializationError, InvalidFileError, SerializationError
    from biotite.structure.io.mol import Header, Metadata, MOLFile, SDFile, SDRecord
    from biotite.structure.io.mol.ctab import read_structure_from_ctab, write_structure_to_ctab
    sc = case["scenario"]
    P = "C18/edge/" + sc
    mol, h, md = case["mol"], case["h"], case["md"]
    v = []

    def sdf_roundtrip(sd):
        return SDFile.deserialize(sd.serialize())

    with warnings.catch_warnings():
        warnings.simplefilter("ignore")
        if sc == "long-element":
            atoms = _mk_atoms(mol)
            el = np.array([case["elem"]] + mol["elems"][1:])
            atoms.set_annotation("element", el)
            for ver in (None, "V2000"):
                try:
                    lines = write_structure_to_ctab(atoms, version=ver)
                except struc.BadStructureError:
                    if len(case["elem"]) <= 3:
                        v.append((P + "/three-characters-refused", f"element {case['elem']!r} fits the three columns but was refused"))
                    continue
                except Exception as e:  # noqa: BLE001
                    v.append((P + "/wrong-exception/" + type(e).__name__, f"{e}"))
                    continue
                bad = _audit_v2000(lines, len(mol["elems"]), len(mol["bonds"]))
                if bad:
                    v.append(("C18/v2000/shifted-" + bad[0][0], f"element {case['elem']!r}: {bad[0][1]!r}"))
        elif sc == "non-finite-coordinate":
            atoms = _mk_atoms(mol)
            atoms.coord[case["pick"] % len(mol["elems"]), case["pick"] % 3] = float(case["value"])
            for ver in (None, "V2000", "V3000"):
                for target in ("ctab", "molfile", "sdrecord"):
                    try:
                        if target == "ctab":
                            write_structure_to_ctab(atoms, version=ver)
                        elif target == "molfile":
                            MOLFile().set_structure(atoms, version=ver)
                        else:
                            SDRecord().set_structure(atoms, version=ver)
                        v.append((P + "/accepted", f"coordinate {case['value']} written ({target}, {ver})"))
                    except struc.BadStructureError:
                        pass
                    except Exception as e:  # noqa: BLE001
                        v.append((P + "/wrong-exception/" + type(e).__name__, f"{e}"))
        elif sc == "header-line-break":
            hh = dict(h, **{case["field"]: case["text"]})
            for how in ("header", "molfile", "sdfile", "assigned-header", "assigned-molfile", "assigned-record", "assigned-parsed-record",
                        "record-name-setitem", "record-name-ctor"):
                try:
                    if how.startswith("assigned") or how.startswith("record-name"):
                        # the field gets its line break after the Header object exists (attribute assignment, or the record
                        # name that SDFile stores into header.mol_name)
                        fld, txt = case["field"], case["text"]
                        if how == "assigned-header":
                            hd = _mk_header(h)
                            setattr(hd, fld, txt)
                            text = hd.serialize()
                            ok = len(text.splitlines()) == 3 and Header.deserialize(text) == hd
                        elif how == "assigned-molfile":
                            f = MOLFile()
                            f.header = _mk_header(h)
                            f.set_structure(_mk_atoms(mol))
                            setattr(f.header, fld, txt)
                            buf = io.StringIO()
                            f.write(buf)
                            buf.seek(0)
                            g = MOLFile.read(buf)
                            ok = g.header == _mk_header(hh) and not _compare(mol, g.get_structure(), 0, CTAB_EXPRESSIBLE, P)
                        elif how in ("assigned-record", "assigned-parsed-record"):
                            sd = SDFile()
                            sd["r1"] = _rec_of(dict(h, mol_name="r1"), mol, md)
                            sd["r2"] = _rec_of(dict(h, mol_name="r2"), mol, [])
                            if how == "assigned-parsed-record":
                                sd = SDFile.deserialize(sd.serialize())
                            if fld == "mol_name":
                                continue                      # the record name is covered by the two cases below
                            setattr(sd["r1"].header, fld, txt)
                            back = sdf_roundtrip(sd)
                            ok = list(back.keys()) == ["r1", "r2"] and not _check_rec(back["r1"], dict(h, **{fld: txt}), mol, md, P, name="r1") \
                                and not _check_rec(back["r2"], h, mol, [], P, name="r2")
                        else:
                            nm = "rec" + txt
                            rec = _rec_of(dict(h, mol_name="x"), mol, md)
                            if how == "record-name-setitem":
                                sd = SDFile()
                                sd[nm] = rec
                            else:
                                sd = SDFile({nm: rec})
                            sd["after"] = _rec_of(dict(h, mol_name="after"), mol, [])
                            back = sdf_roundtrip(sd)
                            ok = list(back.keys()) == [nm, "after"] and not _check_rec(back[nm], h, mol, md, P, name=nm)
                    elif how == "header":
                        text = _mk_header(hh).serialize()
                        back = Header.deserialize(text)
                        ok = back == _mk_header(hh) and len(text.splitlines()) == 3
                    elif how == "molfile":
                        f = MOLFile()
                        f.header = _mk_header(hh)
                        f.set_structure(_mk_atoms(mol))
                        buf = io.StringIO()
                        f.write(buf)
                        buf.seek(0)
                        g = MOLFile.read(buf)
                        ok = g.header == _mk_header(hh) and not _compare(mol, g.get_structure(), 0, CTAB_EXPRESSIBLE, P)
                    else:
                        sd = SDFile()
                        nm = hh["mol_name"]
                        sd[nm] = _rec_of(hh, mol, md)
                        back = sdf_roundtrip(sd)
                        ok = list(back.keys()) == [nm] and not _check_rec(back[nm], hh, mol, md, P)
                    if not ok:
                        v.append((P + "/written-and-corrupted", f"{case['field']}={case['text']!r} via {how}: the file does not read back as written"))
                except (ValueError, SerializationError):
                    pass                                   # refused when written: what a line-based format must do
                except (InvalidFileError, DeserializationError, IndexError) as e:
                    v.append((P + "/written-and-unreadable", f"{case['field']}={case['text']!r} via {how}: written, then {type(e).__name__}"))
                except Exception as e:  # noqa: BLE001
                    v.append((P + "/wrong-exception/" + type(e).__name__, f"{e}"))
                if v:
                    break
        elif sc == "delimiter-line":
            hh = dict(h)
            mdd = [list(e) for e in md]
            w = case["where"]
            if w in ("mol_name", "comments"):
                hh[w] = case["text"]
            elif w == "line2":
                hh["initials"], hh["program"] = "$$", "$$prog"
            elif w == "value-first":
                mdd = [[mdd[0][0], [case["text"], "x"]]]
            else:
                mdd = [[mdd[0][0], ["x", case["text"]]]]
            sd = SDFile()
            try:
                sd[hh["mol_name"]] = _rec_of(hh, mol, mdd)
                sd["second"] = _rec_of(dict(h, mol_name="second"), mol, [])
                back = sdf_roundtrip(sd)
                if list(back.keys()) != [hh["mol_name"], "second"] or _check_rec(back[hh["mol_name"]], hh, mol, mdd, P):
                    v.append((P + "/record-split", f"a line starting with '$$$$' ({w}) was written: records {list(back.keys())}"))
            except (ValueError, SerializationError):
                pass
            except (InvalidFileError, DeserializationError, IndexError) as e:
                v.append((P + "/written-and-unreadable", f"'$$$$' line in {w}: written, then {type(e).__name__}"))
            except Exception as e:  # noqa: BLE001
                v.append((P + "/wrong-exception/" + type(e).__name__, f"{e}"))
        elif sc == "value-structure":
            val, via = case["value"], case["via"]
            key = _key_of(Metadata.Key, tuple(md[0][0]))
            try:
                if via == "setitem":
                    m = Metadata()
                    m[key] = val
                elif via == "ctor":
                    m = Metadata({key: val})
                elif via == "record-ctor":
                    m = SDRecord(metadata={key: val}).metadata
                else:
                    r = SDRecord()
                    r.metadata = {key: val}
                    m = r.metadata
                back = Metadata.deserialize(m.serialize())
                if list(back.items()) != [(key, val)]:
                    v.append((P + "/written-and-altered", f"value {val!r} ({via}) written, read back as {[x for _, x in back.items()]}"))
            except ValueError:
                pass
            except DeserializationError as e:
                v.append((P + "/written-and-unreadable", f"value {val!r} ({via}) written, then {e}"))
            except Exception as e:  # noqa: BLE001
                v.append((P + "/wrong-exception/" + type(e).__name__, f"{e}"))
        elif sc == "key-parts":
            kw = case["key"]
            try:
                k = Metadata.Key(**kw)
                back = Metadata.Key.deserialize(k.serialize().strip())
                if back != k:
                    v.append((P + "/written-and-altered", f"Key({kw}) read back as {back}"))
            except ValueError:
                if kw.get("registry_external") in ("", "A-1.b_c"):
                    v.append((P + "/valid-key-rejected", f"Key({kw})"))
            except DeserializationError as e:
                v.append((P + "/written-and-unreadable", f"Key({kw}) accepted and written as a line that cannot be read: {e}"))
            except Exception as e:  # noqa: BLE001
                v.append((P + "/wrong-exception/" + type(e).__name__, f"{e}"))
        elif sc == "empty-file":
            sd = SDFile()
            text = sd.serialize()
            try:
                back = SDFile.deserialize(text)
                if len(back) != 0:
                    v.append((P + "/records-invented", f"{list(back.keys())}"))
            except (IndexError, InvalidFileError):
                pass                                       # the reader refuses an empty text (C18_sdf_empty_rejects)
            except Exception as e:  # noqa: BLE001
                v.append((P + "/wrong-exception/" + type(e).__name__, f"{e}"))
        elif sc == "v3000-no-atoms":
            a = struc.AtomArray(0)
            a.bonds = struc.BondList(0)
            try:
                lines = write_structure_to_ctab(a, version="V3000")
                back = read_structure_from_ctab(lines)
                if back.array_length() != 0:
                    v.append((P + "/atoms-invented", f"{back.array_length()}"))
            except InvalidFileError:
                pass                                       # "ATOM block is empty" (C18_v3000_empty_rejects)
            except Exception as e:  # noqa: BLE001
                v.append((P + "/wrong-exception/" + type(e).__name__, f"{e}"))
            lines = write_structure_to_ctab(a)             # V2000 can hold it
            if read_structure_from_ctab(lines).array_length() != 0:
                v.append((P + "/v2000", "an empty molecule does not come back empty"))
        elif sc == "format-limits":
            # what the format documents it cannot keep: it must come back exactly as the documented rule says, and nothing else moves
            import datetime
            t = datetime.datetime(1950 + case["pick"] % 15, 1 + case["pick"] % 12, 1 + case["pick"] % 28, 3, 4, 59)
            back = Header.deserialize(Header(mol_name=" n ", program="ABCDEFGHIJ", time=t, comments="c ").serialize())
            want = Header(mol_name="n", program="ABCDEFGH", time=datetime.datetime(t.year + 100, t.month, t.day, 3, 4), comments="c")
            if back != want:
                v.append((P + "/header", f"{back} instead of {want}"))
            rec = SDRecord()
            rec.metadata["k"] = " a \nb  "
            if dict(Metadata.deserialize(rec.metadata.serialize()).items()) != {Metadata.Key(name="k"): "a\nb"}:
                v.append((P + "/value-blanks", "surrounding blanks of value lines are not simply stripped"))
    return v[:3]


def _oracle_molfile(case):
    from biotite.structure.io.mol import MOLFile
    f = MOLFile()
    f.header = _mk_header(case["header"])
    f.set_structure(_mk_atoms(case["mol"]), version=case["ver"])
    # a history of further set_structure calls: rejected ones must leave the file as it was, accepted ones replace the molecule
    cur = case["mol"]
    for step in case.get("history", []):
        if step[0] == "bad":
            exc = _bad_set_structure(f, step[1], step[2])
            if exc is None:
                return [("C18/molfile/invalid-structure-accepted/" + step[1], "set_structure accepted a structure it must reject")]
            expected = {"v2000-too-many-atoms": "ValueError", "v2000-too-many-bonds": "ValueError", "coordinate-too-wide": "BadStructureError",
                        "nan-coordinate": "BadStructureError", "no-bondlist": "BadStructureError", "unknown-version": "ValueError",
                        "stack": "TypeError", "bad-default-bond": "KeyError"}[step[1]]
            if type(exc).__name__ != expected:
                return [("C18/molfile/wrong-exception/" + step[1], f"{type(exc).__name__} instead of {expected}: {exc}")]
            with warnings.catch_warnings():
                warnings.simplefilter("ignore")
                try:
                    v0 = _compare(cur, f.get_structure(), 0, CTAB_EXPRESSIBLE, "C18/molfile/after-rejected-set_structure")
                except Exception as e:  # noqa: BLE001
                    v0 = [("C18/molfile/after-rejected-set_structure/molecule-lost",
                           f"set_structure raised {type(exc).__name__} ({step[1]}); afterwards get_structure raises {type(e).__name__}: {e}")]
            if v0:
                return v0
        else:
            f.set_structure(_mk_atoms(step[1]), version=step[2])
            cur = step[1]
    case = dict(case, mol=cur)
    buf = io.StringIO()
    f.write(buf)
    buf.seek(0)
    v = []
    with warnings.catch_warnings():
        warnings.simplefilter("ignore")
        try:
            g = MOLFile.read(buf)
            if g.header != _mk_header(case["header"]):
                v.append(("C18/molfile/header", f"{_mk_header(case['header'])} read as {g.header}"))
            v += _compare(case["mol"], g.get_structure(), 0, CTAB_EXPRESSIBLE, "C18/molfile/structure")
        except Exception as e:  # noqa: BLE001
            nm, cm = case["header"]["mol_name"], case["header"]["comments"]
            key = "C18/molfile/header-line-starts-with-M-END" if (nm.startswith("M  END") or cm.startswith("M  END")) \
                else "C18/molfile/read-raises/" + type(e).__name__
            v.append((key, f"mol_name {nm!r}, comments {cm!r}: {type(e).__name__}: {e}"))
    return v


def _aromatic_mol(rng):
    """A kekulisable aromatic six-ring (benzene / pyridine / pyrimidine-like) with explicit hydrogens and,
    sometimes, a substituent; bond types AROMATIC_SINGLE/DOUBLE alternate (or generic AROMATIC)."""
    ring = ["C"] * 6
    for i in rng.sample(range(6), rng.choice([0, 0, 1, 2])):
        ring[i] = "N"
    if ring.count("N") == 2 and any(ring[i] == "N" and ring[(i + 1) % 6] == "N" for i in range(6)):
        ring = ["C", "N", "C", "N", "C", "C"]
    elems = list(ring)
    generic = rng.random() < 0.25
    start = rng.choice([0, 1])
    bonds = []
    for i in range(6):
        t = 9 if generic else (6 if (i + start) % 2 == 0 else 5)
        a, b = i, (i + 1) % 6
        bonds.append([min(a, b), max(a, b), t])
    coords = [[_f32(1.39 * math.cos(i * math.pi / 3)), _f32(1.39 * math.sin(i * math.pi / 3)), 0.0] for i in range(6)]
    for i in range(6):
        if ring[i] == "C":
            sub = rng.choice(["H", "H", "H", "F", "CL"])
            elems.append(sub)
            bonds.append([i, len(elems) - 1, 1])
            coords.append([_f32(2.48 * math.cos(i * math.pi / 3)), _f32(2.48 * math.sin(i * math.pi / 3)), _f32(rng.choice([0.0, 0.5]))])
    if "H" not in elems:
        elems.append("H")
        coords.append([9.0, 9.0, 9.0])
    if rng.random() < 0.5:
        rng.shuffle(bonds)
    return {"elems": elems, "charges": [0] * len(elems), "coords": coords, "bonds": bonds}


class BlockLogsCtx:
    def __enter__(self):
        from rdkit.rdBase import BlockLogs
        self._b = BlockLogs()

    def __exit__(self, *a):
        del self._b
        return False


def _rd_snapshot(rd):
    from rdkit import Chem
    try:
        with BlockLogsCtx():
            block = Chem.MolToMolBlock(Chem.Mol(rd), kekulize=False)
    except Exception:  # noqa: BLE001   (unsanitised molecules with exotic valences cannot always be written)
        block = None
    return ([(b.GetBeginAtomIdx(), b.GetEndAtomIdx(), str(b.GetBondType()), b.GetIsAromatic()) for b in rd.GetBonds()],
            [(a.GetSymbol(), a.GetFormalCharge(), a.GetIsAromatic()) for a in rd.GetAtoms()],
            [c.GetPositions().tolist() for c in rd.GetConformers()], block)


def _oracle_rdkit_options(case):
    """Less-used parameters of to_mol / from_mol: kekulize, explicit_hydrogen, include_extra_annotations, conformer_id,
    residue information; arguments unchanged; NumPy spellings of conformer_id."""
    import numpy as np
    import biotite.structure as struc
    from rdkit import Chem
    from biotite.interface import rdkit as br
    mol = case["mol"]
    n = len(mol["elems"])
    atoms = _mk_atoms(mol)
    atoms.atom_name[:] = [f"{e[:1]}{i}" for i, e in enumerate(mol["elems"])]
    atoms.res_name[:] = "LIG"
    atoms.chain_id[:] = "B"
    atoms.res_id[:] = 42
    atoms.hetero[:] = True
    atoms.ins_code[:] = "A"
    atoms.set_annotation("b_factor", np.arange(n, dtype=float) * 0.5)
    atoms.set_annotation("occupancy", np.full(n, 0.75))
    atoms.set_annotation("my_int", np.arange(n) * 3 - 2)
    atoms.set_annotation("my_str", np.array([f"s{i}" for i in range(n)]))
    atoms.set_annotation("my_flag", np.arange(n) % 2 == 0)
    models = [mol["coords"]] + list(case.get("extra_models", []))
    stack = struc.stack([atoms] * len(models))
    stack.coord[:] = np.array(models, dtype=np.float32)
    P = "C18/rdkit-options"
    v = []
    with warnings.catch_warnings():
        warnings.simplefilter("ignore")
        try:
            rd = br.to_mol(stack, include_extra_annotations=["my_int", "my_str", "my_flag"])
            ids = [c.GetId() for c in rd.GetConformers()]
            if len(set(ids)) != len(models):
                v.append((P + "/conformer-ids-not-unique", f"{len(models)} models became conformers with ids {ids}"))
            for k in range(len(models)):
                try:
                    one = br.from_mol(rd, conformer_id=k, add_hydrogen=False)
                except Exception as e:  # noqa: BLE001
                    v.append((P + "/conformer_id", f"model {k} of {len(models)} cannot be fetched by conformer_id={k}: {type(e).__name__}"))
                    break
                if not isinstance(one, struc.AtomArray) or not np.array_equal(one.coord, np.array(models[k], dtype=np.float32)):
                    v.append((P + "/conformer_id", f"conformer_id={k} does not return model {k}"))
                    break
                for spelled in (np.int64(k), np.int32(k)):
                    try:
                        other = br.from_mol(rd, conformer_id=spelled, add_hydrogen=False)
                        if not np.array_equal(other.coord, one.coord):
                            v.append((P + "/conformer_id-numpy-int", f"conformer_id={spelled!r} returns another model than {k}"))
                    except Exception:  # noqa: BLE001      (refusing a NumPy integer is not a corruption)
                        pass
            both = br.from_mol(rd, conformer_id="3D", add_hydrogen=False)
            if not isinstance(both, struc.AtomArrayStack) or both.stack_depth() != len(models):
                v.append((P + "/3D", "conformer_id='3D' does not return all models"))
            back = br.from_mol(rd, add_hydrogen=False)
            for cat in ("atom_name", "res_name", "chain_id", "res_id", "hetero", "ins_code", "b_factor", "occupancy", "my_int", "my_str", "my_flag"):
                if cat not in back.get_annotation_categories() or back.get_annotation(cat).tolist() != atoms.get_annotation(cat).tolist():
                    v.append((P + "/annotation/" + cat, f"{atoms.get_annotation(cat).tolist()[:3]} came back as "
                              f"{back.get_annotation(cat).tolist()[:3] if cat in back.get_annotation_categories() else 'missing'}"))
                    break
            if case.get("aromatic_ring"):
                snap = _snap_atoms(atoms)
                kek = br.to_mol(atoms, kekulize=True)
                if not _same_snap(snap, _snap_atoms(atoms)):
                    v.append((P + "/kekulize-changes-its-argument", "to_mol(kekulize=True) modified the AtomArray's bonds"))
                if any(b.GetBondType() == Chem.BondType.AROMATIC for b in kek.GetBonds()):
                    v.append((P + "/kekulize", "aromatic bond types left although kekulize=True"))
                got = {(int(i), int(j)): int(t) for i, j, t in br.from_mol(kek, add_hydrogen=False).bonds.as_array()}
                want = {(i, j): {5: 1, 6: 2, 7: 3, 9: 0}.get(t, t) for i, j, t in mol["bonds"]}
                if got != want:
                    v.append((P + "/kekulize-orders", f"{sorted(want.items())[:3]} came back as {sorted(got.items())[:3]}"))
            if "H" in mol["elems"]:
                snap = _snap_atoms(atoms)
                try:
                    br.to_mol(atoms, explicit_hydrogen=False)
                    v.append((P + "/explicit_hydrogen", "hydrogens present but explicit_hydrogen=False accepted"))
                except struc.BadStructureError:
                    pass
                if not _same_snap(snap, _snap_atoms(atoms)):
                    v.append((P + "/refused-call-changed-argument", "AtomArray changed by a refused to_mol"))
                rd2 = br.to_mol(atoms, explicit_hydrogen=True)
                if not all(a.GetNoImplicit() for a in rd2.GetAtoms()):
                    v.append((P + "/explicit_hydrogen", "explicit_hydrogen=True does not mark atoms as having no implicit hydrogens"))
        except Exception as e:  # noqa: BLE001
            v.append((P + "/raises/" + type(e).__name__, f"{e}"))
    return v[:4]


def _forked(fn, case, key):
    """A crash or a hang of the code under test (RDKit is compiled code) is a verdict with this case as failing input."""
    from common import sandbox
    r = sandbox.run_forked(fn, case, timeout=120)
    if r[0] == "ok":
        return r[1]
    if r[0] == "err":
        return [(key + "/oracle-raises/" + r[1], r[2])]
    return [(key + "/" + r[0], f"the process running this case ended with {r}")]


def _oracle_rdkit(case):
    import numpy as np
    import biotite.structure as struc
    from biotite.interface import rdkit as br
    mol = case["mol"]
    n = len(mol["elems"])
    atoms = _mk_atoms(mol)
    depth = case.get("depth", 0)
    models = [mol["coords"]] + list(case.get("extra_models", []))
    if depth >= 1:
        obj = struc.stack([atoms] * len(models))
        obj.coord[:] = np.array(models, dtype=np.float32)
    else:
        obj = atoms
    has_h = "H" in mol["elems"]
    v = []
    with warnings.catch_warnings():
        warnings.simplefilter("ignore")
        try:
            before = (obj.coord.copy(), obj.element.copy(), obj.charge.copy(), obj.bonds.as_array().copy())
            rd = br.to_mol(obj, use_dative_bonds=case.get("dative", False))
            after = (obj.coord, obj.element, obj.charge, obj.bonds.as_array())
            if not all(np.array_equal(a, b) for a, b in zip(before, after)):
                v.append(("C18/rdkit/to_mol-changes-its-argument", "the AtomArray passed to to_mol was modified"))
            snap0 = _rd_snapshot(rd)
            back = br.from_mol(rd, add_hydrogen=None if has_h else False)
            snap1 = _rd_snapshot(rd)
            if snap0 != snap1:
                k = next(i for i in range(4) if snap0[i] != snap1[i])
                v.append(("C18/rdkit/from_mol-changes-its-argument",
                          f"the Mol passed to from_mol was modified ({['bonds', 'atoms', 'conformers', 'molblock'][k]}): "
                          f"{[x for x, y in zip(snap0[0], snap1[0]) if x != y][:2]}"))
            again = br.from_mol(rd, add_hydrogen=None if has_h else False)
            if not (np.array_equal(again.bonds.as_array(), back.bonds.as_array()) and np.array_equal(again.coord, back.coord)
                    and np.array_equal(again.element, back.element) and np.array_equal(again.charge, back.charge)):
                v.append(("C18/rdkit/second-from_mol-differs", "from_mol of the same Mol gives a different molecule the second time: "
                          f"{again.bonds.as_array().tolist()[:3]} vs {back.bonds.as_array().tolist()[:3]}"))
        except Exception as e:  # noqa: BLE001
            return v + [("C18/rdkit/raises/" + type(e).__name__, f"{e}")]
    if not isinstance(back, struc.AtomArrayStack) or back.stack_depth() != len(models if depth >= 1 else [0]):
        return [("C18/rdkit/models", f"{len(models) if depth >= 1 else 1} model(s) became {getattr(back, 'stack_depth', lambda: '?')()} ")]
    if back.array_length() != n:
        return [("C18/rdkit/atom-count", f"{n} atoms became {back.array_length()}")]
    ref = np.array(models if depth >= 1 else [mol["coords"]], dtype=np.float32)
    if not np.array_equal(back.coord, ref):
        v.append(("C18/rdkit/coord", "conformer coordinates differ from the models"))
    if [str(e) for e in back.element] != mol["elems"]:
        v.append(("C18/rdkit/elements", f"{mol['elems']} -> {list(back.element)}"))
    if [int(c) for c in back.charge] != mol["charges"]:
        v.append(("C18/rdkit/charge", f"{mol['charges']} -> {[int(c) for c in back.charge]}"))
    got = {(int(i), int(j)): int(t) for i, j, t in back.bonds.as_array()}
    if set(got) != {(i, j) for i, j, _ in mol["bonds"]}:
        v.append(("C18/rdkit/bond-graph", "bonded atom pairs differ"))
    else:
        for i, j, t in mol["bonds"]:
            g = got[(i, j)]
            if t in RDKIT_EXACT or (t == 8 and case.get("dative")):
                if g != t:
                    v.append(("C18/rdkit/bond-type/" + BT_NAME[t], f"bond {i}-{j} {BT_NAME[t]} came back as {BT_NAME.get(g, g)}"))
                    break
            elif t == 8:
                if g != 1:
                    v.append(("C18/rdkit/bond-type/COORDINATION-without-dative", f"came back as {BT_NAME.get(g, g)}"))
                    break
            elif g not in AROMATIC:
                v.append(("C18/rdkit/bond-type/aromaticity-lost", f"bond {i}-{j} {BT_NAME[t]} came back as {BT_NAME.get(g, g)}"))
                break
    return v


def oracle(case):
    k = case.get("kind")
    if k in ("mol", "mol-big", "mol-reject", "mol-badarg", "mol-oddelem"):
        return _oracle_mol(case)
    if k in ("key", "key-unicode"):
        return _oracle_key(tuple(case["key"]))
    if k == "metadata":
        return _oracle_md(case["md"])
    if k == "header":
        return _oracle_header(case["header"])
    if k == "header-long":
        return _oracle_header(case["header"], case["long_field"])
    if k == "sdf":
        return _oracle_sdf(case)
    if k == "sdf-edit":
        return _oracle_sdf_edit(case)
    if k == "sdf-rebuild":
        return _oracle_sdf_rebuild(case)
    if k == "api":
        return _oracle_api(case)
    if k == "edge":
        return _oracle_edge(case)
    if k == "molfile":
        return _oracle_molfile(case)
    if k == "rdkit":
        return _forked(_oracle_rdkit, case, "C18/rdkit")
    if k == "rdkit-options":
        return _forked(_oracle_rdkit_options, case, "C18/rdkit-options")
    if k == "key-name":
        return _oracle_key(tuple(case["key"]))
    return []


def nontrivial(case, impl_out):
    k = case.get("kind", "")
    if impl_out and any(o.startswith("ERR") for o in impl_out):
        return True
    if "mol" in case:
        m = case["mol"]
        return len(m["elems"]) >= 2 or bool(m["bonds"]) or any(m["charges"])
    if k == "sdf":
        return len(case["records"]) >= 2
    if k in ("sdf-edit", "sdf-rebuild", "api", "edge", "mol-longelem", "metadata-refused"):
        return True
    if "key" in case:
        return sum(x is not None for x in case["key"]) >= 2
    if "md" in case:
        return any(len(v) > 1 for _, v in case["md"]) or len(case["md"]) > 1
    return True


def signature(case):
    from common import util
    return util.jdump({k: v for k, v in case.items() if not k.startswith("_")})


def distribution(cases, impl_outs):
    sizes, outcomes, versions = {}, {}, {}
    for c, o in zip(cases, impl_outs):
        if "mol" in c:
            n = len(c["mol"]["elems"])
            b = "1" if n <= 1 else "2-9" if n < 10 else "10-99" if n < 100 else "100-998" if n < 999 else "999+"
            sizes[b] = sizes.get(b, 0) + 1
        for line in o or []:
            t = line.split("\t")[0].split(" ")[0]
            outcomes[t] = outcomes.get(t, 0) + 1
            if line.startswith("ok ") and "V2000" in line[:60]:
                versions["V2000"] = versions.get("V2000", 0) + 1
            elif line.startswith("ok ") and "V3000" in line[:60]:
                versions["V3000"] = versions.get("V3000", 0) + 1
    return {"molecule_sizes": sizes, "op_outcomes": outcomes, "written_versions": versions}


def search(rng, problems, tier):
    """Failing-input search: a fresh stream, plus inputs aimed at the tables and the column limits."""
    out = list(cases(rng, "quick"))
    for t in range(10):
        for d in (0, 1):
            mol = _mol(rng, 3, 2, types=[t])
            out.append({"kind": "mol", "mol": mol, "ver": "auto", "dflt": d})
            out.append({"kind": "rdkit", "mol": dict(mol, elems=["C", "H", "N"]), "depth": 0, "dative": True, "extra_models": []})
    for c in range(-15, 16):
        mol = _mol(rng, 2, 1)
        mol["charges"] = [c, 0]
        out.append({"kind": "mol", "mol": mol, "ver": "auto", "dflt": 0})
    for n, m in [(999, 0), (1000, 0), (60, 999), (60, 1000), (1001, 1000)]:
        out.append({"kind": "mol-big", "mol": _mol(rng, n, m, elements=["C"]), "ver": "auto", "dflt": 0})
        out.append({"kind": "mol-big", "mol": _mol(rng, n, m, elements=["C"]), "ver": "V2000", "dflt": 0})
    for x in [99999.99, -9999.99, 99999.996, -9999.9996, 100000.0, -10000.0, 0.00005, -0.00005]:
        mol = _mol(rng, 1, 0)
        mol["coords"][0][0] = _f32(x)
        out.append({"kind": "mol", "mol": mol, "ver": "auto", "dflt": 0})
    return out


def shrink(case, key):
    """Drop atoms/bonds from a failing molecule while the same key is still reported."""
    if "mol" not in case or len(case["mol"]["elems"]) > 200:
        return case
    from common import util

    def fails(c):
        try:
            return any(k == key for k, _ in oracle(c))
        except Exception:  # noqa: BLE001
            return False
    mol = case["mol"]
    bonds = util.shrink_list(mol["bonds"], lambda bs: fails(dict(case, mol=dict(mol, bonds=bs), ops=None)), 60)
    c2 = dict(case, mol=dict(mol, bonds=bonds))
    c2.pop("ops", None)
    return c2 if fails(c2) else case

"""C06 — regeneration of structural facts from cif.py / component.py / bcif.py (helper of props/c06.py, pass 7).

`fingerprints()` reads every anchored function with `ast` and returns, per function, in source order:
  params  [(parameter, default)]              default argument values
  strs    string constants                    (docstrings and the messages of `raise` statements excluded)
  ints    integer constants
  cmps    comparison operators                (Eq, NotEq, Lt, Gt, In, Is, ...)
  bools   boolean operators                   (And, Or, Not)
  raises  exception classes                   (order of checks = which error wins)
  calls   names of the functions/methods called (which helper, in which order)
Renaming a local variable, re-wording an error message or a comment changes nothing; changing a literal, a
default, a comparison, the order of checks/steps or the helper that is called changes the fingerprint.
`named_constants()` picks the literals the hand-written Lean model hard-codes out of these fingerprints and
refuses (ValueError -> broken tie) when a function no longer has the expected shape.
"""
import ast
import os

FILES = {"cif": "biotite/structure/io/pdbx/cif.py", "component": "biotite/structure/io/pdbx/component.py",
         "bcif": "biotite/structure/io/pdbx/bcif.py"}

# functions the model / adapter mirror (module.qualname)
ANCHORS = {
    "cif": ["_is_empty", "_create_element_dict", "_parse_data_block_name", "_parse_category_name", "_is_loop_start",
            "_to_single", "_escape", "_multiline", "_split_one_line", "_arrayfy",
            "CIFData.__init__", "CIFData.__eq__",
            "CIFColumn.__init__", "CIFColumn.as_item", "CIFColumn.as_array", "CIFColumn.__eq__",
            "CIFCategory.__init__", "CIFCategory.row_count", "CIFCategory.deserialize", "CIFCategory.serialize",
            "CIFCategory.__getitem__", "CIFCategory.__setitem__", "CIFCategory.__delitem__", "CIFCategory.__contains__",
            "CIFCategory.__iter__", "CIFCategory.__len__", "CIFCategory.__eq__",
            "CIFCategory._deserialize_single", "CIFCategory._deserialize_looped",
            "CIFCategory._serialize_single", "CIFCategory._serialize_looped",
            "CIFBlock.__init__", "CIFBlock.deserialize", "CIFBlock.serialize", "CIFBlock.__getitem__",
            "CIFBlock.__setitem__", "CIFBlock.__delitem__", "CIFBlock.__contains__", "CIFBlock.__iter__",
            "CIFBlock.__len__", "CIFBlock.__eq__",
            "CIFFile.__init__", "CIFFile.lines", "CIFFile.block", "CIFFile.deserialize", "CIFFile.serialize",
            "CIFFile.read", "CIFFile.write", "CIFFile.__copy_fill__", "CIFFile.__getitem__", "CIFFile.__setitem__",
            "CIFFile.__delitem__", "CIFFile.__contains__", "CIFFile.__iter__", "CIFFile.__len__", "CIFFile.__eq__"],
    "component": ["MaskValue", "_HierarchicalContainer.__init__", "_HierarchicalContainer._deserialize_elements",
                  "_HierarchicalContainer._serialize_elements", "_HierarchicalContainer.__getitem__",
                  "_HierarchicalContainer.__setitem__", "_HierarchicalContainer.__delitem__",
                  "_HierarchicalContainer.__contains__", "_HierarchicalContainer.__iter__",
                  "_HierarchicalContainer.__len__", "_HierarchicalContainer.__eq__"],
    "bcif": ["BinaryCIFData.__init__", "BinaryCIFData.__eq__", "BinaryCIFData.deserialize", "BinaryCIFData.serialize",
             "BinaryCIFColumn.__init__", "BinaryCIFColumn.as_item", "BinaryCIFColumn.as_array", "BinaryCIFColumn.__eq__",
             "BinaryCIFColumn.deserialize", "BinaryCIFColumn.serialize",
             "BinaryCIFCategory.__init__", "BinaryCIFCategory.row_count", "BinaryCIFCategory.deserialize",
             "BinaryCIFCategory.serialize", "BinaryCIFCategory.__setitem__", "BinaryCIFCategory.__delitem__",
             "BinaryCIFBlock.__init__", "BinaryCIFBlock.deserialize", "BinaryCIFBlock.serialize", "BinaryCIFBlock.__getitem__",
             "BinaryCIFBlock.__setitem__", "BinaryCIFBlock.__delitem__", "BinaryCIFBlock.__iter__", "BinaryCIFBlock.__contains__",
             "BinaryCIFFile.__init__", "BinaryCIFFile.block", "BinaryCIFFile.deserialize", "BinaryCIFFile.serialize",
             "BinaryCIFFile.__copy_fill__", "BinaryCIFFile.read", "BinaryCIFFile.write"],
}


def _doc_free(body):
    return [st for st in body if not _is_doc(st)]


def cif_roles(tree):
    """The module-private helpers of cif.py, found by what they contain (not by their names):
    role -> FunctionDef.  Raises when a role is missing or ambiguous."""
    found = {}

    def put(role, fn):
        if role in found:
            raise ValueError(f"two candidates for the role {role}: {found[role].name}, {fn.name}")
        found[role] = fn
    fns = [n for n in tree.body if isinstance(n, ast.FunctionDef)]
    for fn in fns:
        nodes = list(ast.walk(fn))
        attrcalls = {c.func.attr for c in nodes if isinstance(c, ast.Call) and isinstance(c.func, ast.Attribute)}
        body = _doc_free(fn.body)
        if any(isinstance(x, (ast.Yield, ast.YieldFrom)) for x in nodes):
            put("_split_one_line", fn)
        elif any(isinstance(x, ast.DictComp) for x in nodes):
            put("_create_element_dict", fn)
        elif "asarray" in attrcalls:
            put("_arrayfy", fn)
        elif "find" in attrcalls:
            put("_parse_category_name", fn)
        elif "startswith" in attrcalls and not any(isinstance(x, ast.Call) and isinstance(x.func, ast.Name) and x.func.id in {f.name for f in fns} for x in nodes):
            sliced = any(isinstance(x, ast.Slice) for x in nodes)
            put("_parse_data_block_name" if sliced else "_is_loop_start", fn)
        elif "join" in attrcalls and any(isinstance(x, ast.For) for x in nodes):
            put("_to_single", fn)
        elif "strip" in attrcalls and len(body) <= 2 and not any(isinstance(x, ast.For) for x in nodes):
            put("_is_empty", fn)
        elif (len(body) == 1 and isinstance(body[0], ast.Return) and isinstance(body[0].value, ast.BinOp)
              and isinstance(body[0].value.right, ast.Constant)):
            put("_multiline", fn)
    if "_multiline" in found:
        ml = found["_multiline"].name
        for fn in fns:
            if fn is not found["_multiline"] and any(isinstance(x, ast.Call) and isinstance(x.func, ast.Name) and x.func.id == ml for x in ast.walk(fn)):
                put("_escape", fn)
    need = ["_is_empty", "_create_element_dict", "_parse_data_block_name", "_parse_category_name", "_is_loop_start",
            "_to_single", "_escape", "_multiline", "_split_one_line", "_arrayfy"]
    missing = [r for r in need if r not in found]
    if missing:
        raise ValueError(f"cif.py: no function with the structure of {missing}")
    # private methods of CIFCategory, by the order in which serialize()/deserialize() call them
    cat = [n for n in tree.body if isinstance(n, ast.ClassDef) and n.name == "CIFCategory"]
    if len(cat) != 1:
        raise ValueError("class CIFCategory not found")
    meth = {n.name: n for n in cat[0].body if isinstance(n, ast.FunctionDef)}

    def private_calls(fn):
        out = []
        for x in ast.walk(fn):
            if isinstance(x, ast.Call) and isinstance(x.func, ast.Attribute) and x.func.attr in meth and x.func.attr.startswith("_") and not x.func.attr.startswith("__"):
                if x.func.attr not in out:
                    out.append(x.func.attr)
        return sorted(out, key=lambda a: min(c.lineno for c in ast.walk(fn) if isinstance(c, ast.Call) and isinstance(c.func, ast.Attribute) and c.func.attr == a))
    ser, des = private_calls(meth["serialize"]), private_calls(meth["deserialize"])
    if len(ser) != 2 or len(des) != 2:
        raise ValueError(f"CIFCategory.serialize/deserialize call other private methods than expected: {ser} {des}")

    def has(fn_name, kind):
        return any(isinstance(x, kind) for x in ast.walk(meth[fn_name]))
    # the looped writer has a `for` statement (rows x columns), the single-row writer only a comprehension;
    # the single-row reader has the `while` loop over the lines, the looped reader has none
    loopw = [n for n in ser if has(n, ast.For)]
    singlew = [n for n in ser if not has(n, ast.For)]
    singler = [n for n in des if has(n, ast.While)]
    loopr = [n for n in des if not has(n, ast.While)]
    if not (len(loopw) == len(singlew) == len(singler) == len(loopr) == 1):
        raise ValueError(f"cannot tell the single-row from the looped (de)serialiser: {ser} {des}")
    found["CIFCategory._serialize_single"], found["CIFCategory._serialize_looped"] = meth[singlew[0]], meth[loopw[0]]
    found["CIFCategory._deserialize_looped"], found["CIFCategory._deserialize_single"] = meth[loopr[0]], meth[singler[0]]
    return found


def private_names(src):
    """actual name of every structurally found private helper of cif.py: canonical role -> name"""
    tree = ast.parse(open(os.path.join(src, FILES["cif"])).read())
    return {role: fn.name for role, fn in cif_roles(tree).items()}


def _find(tree, qual):
    parts = qual.split(".")
    body = tree.body
    node = None
    for i, p in enumerate(parts):
        found = [n for n in body if isinstance(n, (ast.FunctionDef, ast.ClassDef)) and n.name == p]
        if not found:
            raise ValueError(f"{qual} not found in source")
        node = found[-1] if isinstance(found[-1], ast.ClassDef) or len(found) == 1 else found[0]
        body = node.body
    return node


def _is_doc(stmt):
    return isinstance(stmt, ast.Expr) and isinstance(stmt.value, ast.Constant) and isinstance(stmt.value.value, str)


def _fingerprint(node, rename=None):
    """rename: actual private helper name -> canonical role name (calls are reported under the role)"""
    rename = rename or {}
    fp = {"params": [], "strs": [], "ints": [], "cmps": [], "bools": [], "raises": [], "calls": []}
    if isinstance(node, ast.ClassDef):
        # an enum: its members
        for st in node.body:
            if isinstance(st, ast.Assign) and isinstance(st.targets[0], ast.Name) and isinstance(st.value, ast.Constant):
                fp["strs"].append(st.targets[0].id)
                fp["ints"].append(int(st.value.value))
        return fp
    a = node.args
    names = [x.arg for x in a.posonlyargs + a.args]
    defaults = [None] * (len(names) - len(a.defaults)) + list(a.defaults)
    private = node.name.startswith("_") and not node.name.startswith("__")
    k = 0
    for n, d in zip(names, defaults):
        if n in ("self", "cls"):
            continue
        # parameters of private functions are positional (renaming them changes nothing for a caller)
        fp["params"].append((f"p{k}" if private else n, "<required>" if d is None else ast.unparse(d)))
        k += 1
    for n, d in zip(a.kwonlyargs, a.kw_defaults):
        fp["params"].append((n.arg, "<required>" if d is None else ast.unparse(d)))

    def walk(n, in_raise):
        if isinstance(n, (ast.FunctionDef, ast.ClassDef, ast.Lambda)) and n is not node:
            return
        if _is_doc(n) or isinstance(n, ast.Assert):
            return          # docstrings; assertions (none in the anchored source: a firing one is an oracle matter)
        if isinstance(n, ast.Raise):
            exc = n.exc
            if isinstance(exc, ast.Call):
                exc = exc.func
            fp["raises"].append(ast.unparse(exc) if exc is not None else "<reraise>")
            return
        if isinstance(n, ast.Constant) and not in_raise:
            if isinstance(n.value, str):
                fp["strs"].append(n.value)
            elif isinstance(n.value, bool) or n.value is None:
                pass
            elif isinstance(n.value, int):
                fp["ints"].append(int(n.value))
        if isinstance(n, ast.Compare):
            fp["cmps"] += [type(o).__name__ for o in n.ops]
        if isinstance(n, ast.BoolOp):
            fp["bools"].append(type(n.op).__name__)
        if isinstance(n, ast.UnaryOp) and isinstance(n.op, ast.Not):
            fp["bools"].append("Not")
        if isinstance(n, ast.Call):
            f = n.func
            nm = f.attr if isinstance(f, ast.Attribute) else f.id if isinstance(f, ast.Name) else "<expr>"
            fp["calls"].append(rename.get(nm, nm))
        for c in ast.iter_child_nodes(n):
            walk(c, in_raise)
    for st in node.body:
        walk(st, False)
    return fp


def fingerprints(src):
    out = {}
    for mod, rel in FILES.items():
        tree = ast.parse(open(os.path.join(src, rel)).read())
        roles = cif_roles(tree) if mod == "cif" else {}
        rename = {fn.name: role.split(".")[-1] for role, fn in roles.items()}
        for qual in ANCHORS[mod]:
            node = roles[qual] if qual in roles else _find(tree, qual)
            out[mod + "." + qual] = _fingerprint(node, rename)
        if mod == "cif":
            consts = [n for n in tree.body if isinstance(n, ast.Assign) and isinstance(n.targets[0], ast.Name)
                      and n.targets[0].id == "UNICODE_CHAR_SIZE" and isinstance(n.value, ast.Constant)]
            if len(consts) != 1:
                raise ValueError("UNICODE_CHAR_SIZE not found in cif.py")
            out["cif.UNICODE_CHAR_SIZE"] = {"params": [], "strs": [], "ints": [int(consts[0].value.value)], "cmps": [],
                                            "bools": [], "raises": [], "calls": []}
    return out


def _one(xs, what):
    if len(xs) != 1:
        raise ValueError(f"expected exactly one {what}, found {xs!r}")
    return xs[0]


def named_constants(src, fps):
    """The literals the Lean model hard-codes, located by their position in the fingerprints."""
    c = {}
    f = fps["cif._parse_data_block_name"]
    c["dataPrefix"], c["dataSlice"] = _one(f["strs"], "string in _parse_data_block_name"), _one(f["ints"], "int in _parse_data_block_name")
    c["loopPrefix"] = _one(fps["cif._is_loop_start"]["strs"], "string in _is_loop_start")
    f = fps["cif._parse_category_name"]
    if len(f["strs"]) != 2 or len(f["ints"]) != 2 or len(f["cmps"]) != 1 or "find" not in f["calls"]:
        raise ValueError(f"_parse_category_name has another shape: {f}")
    c["catNameFirst"], c["catNameSep"] = f["strs"]
    c["catNameIndex"], c["catNameSliceStart"] = f["ints"]
    f = fps["cif._is_empty"]
    if len(f["strs"]) != 1 or "strip" not in f["calls"]:
        raise ValueError(f"_is_empty has another shape: {f}")
    c["commentChar"] = f["strs"][0]
    f = fps["cif._to_single"]
    if len(f["strs"]) != 2 or "join" not in f["calls"]:
        raise ValueError(f"_to_single has another shape: {f}")
    c["semiChar"], c["joinSep"] = f["strs"]
    # the tokeniser: located by what the statements contain, not by the position of a literal
    tree0 = ast.parse(open(os.path.join(src, FILES["cif"])).read())
    sp = cif_roles(tree0)["_split_one_line"]
    nodes = list(ast.walk(sp))
    firsts = [x.comparators[0].value for x in nodes if isinstance(x, ast.Compare) and isinstance(x.left, ast.Subscript)
              and isinstance(x.left.slice, ast.Constant) and x.left.slice.value == 0 and isinstance(x.ops[0], ast.Eq)
              and isinstance(x.comparators[0], ast.Constant) and isinstance(x.comparators[0].value, str)]
    tuples = [[e.value for e in x.elts] for x in nodes if isinstance(x, ast.Tuple) and len(x.elts) == 2
              and all(isinstance(e, ast.Constant) and isinstance(e.value, str) and len(e.value) == 1 for e in x.elts)]
    ins = [x.left.value for x in nodes if isinstance(x, ast.Compare) and isinstance(x.ops[0], ast.In) and isinstance(x.left, ast.Constant)
           and isinstance(x.left.value, str) and len(x.left.value) == 1]
    parts = [x.args[0].value for x in nodes if isinstance(x, ast.Call) and isinstance(x.func, ast.Attribute) and x.func.attr == "partition"
             and len(x.args) == 1 and isinstance(x.args[0], ast.Constant)]
    mins = [x.comparators[0].value for x in nodes if isinstance(x, ast.Compare) and isinstance(x.ops[0], ast.Gt) and isinstance(x.left, ast.Call)
            and isinstance(x.left.func, ast.Name) and x.left.func.id == "len" and isinstance(x.comparators[0], ast.Constant)]
    if len(firsts) != 1 or len(tuples) != 1 or len(ins) != 2 or len(parts) != 1 or len(mins) != 1:
        raise ValueError(f"the tokeniser has another shape: first-char tests {firsts}, quote tuples {tuples}, 'q in line' tests {ins}, "
                         f"partition separators {parts}, minimal lengths {mins}")
    c["splitSemi"] = firsts[0]
    c["splitQ1a"], c["splitQ2a"] = ins
    c["splitQ1"], c["splitQ2"] = tuples[0]
    c["partitionSep"] = parts[0]
    c["quotedMinLen"] = mins[0]
    f = fps["cif.CIFCategory._serialize_single"]
    if f["strs"] != ["_", "."] and len(f["strs"]) != 2:
        raise ValueError(f"_serialize_single has another shape: {f}")
    c["keyPartsSingle"] = list(f["strs"])
    c["singlePad"] = _one(f["ints"], "int in _serialize_single")
    f = fps["cif.CIFCategory._serialize_looped"]
    if len(f["strs"]) != 5 or f["ints"] != [1]:
        raise ValueError(f"_serialize_looped has another shape: {f}")
    c["keyPartsLooped"] = f["strs"][:3]
    c["loopedLineInit"], c["loopHeader"] = f["strs"][3], f["strs"][4]
    c["loopedPad"] = f["ints"][0]
    c["unicodeCharSize"] = fps["cif.UNICODE_CHAR_SIZE"]["ints"][0]
    f = fps["cif.CIFBlock.serialize"]
    if len(f["strs"]) != 4:
        raise ValueError(f"CIFBlock.serialize has another shape: {f}")
    c["blockHeaderParts"] = f["strs"][:2]
    c["catTrailer"], c["blockJoin"] = f["strs"][2], f["strs"][3]
    f = fps["cif._create_element_dict"]
    c["elementJoin"] = list(f["strs"])
    f = fps["cif.CIFCategory.serialize"]
    c["categoryLineEnd"] = list(f["strs"])
    c["categoryRaises"] = list(f["raises"])
    c["categoryChecksInts"] = list(f["ints"])
    c["fileJoin"] = list(fps["cif.CIFFile.serialize"]["strs"])
    # masks
    f = fps["cif.CIFColumn.__init__"]
    c["maskInferStrs"] = list(f["strs"])
    f = fps["cif.CIFColumn.as_array"]
    c["maskRenderStrs"] = list(f["strs"])
    f = fps["component.MaskValue"]
    c["maskNames"], c["maskValues"] = list(f["strs"]), list(f["ints"])
    tree = ast.parse(open(os.path.join(src, FILES["cif"])).read())
    infer, render = [], []
    init = _find(tree, "CIFColumn.__init__")
    local = {st.targets[0].id: st.value for st in ast.walk(init)
             if isinstance(st, ast.Assign) and isinstance(st.targets[0], ast.Name) and isinstance(st.value, ast.Compare)}
    for st in ast.walk(init):
        if isinstance(st, ast.Assign) and isinstance(st.targets[0], ast.Subscript) and isinstance(st.value, ast.Attribute):
            sl = st.targets[0].slice
            if isinstance(sl, ast.Name) and sl.id in local:
                sl = local[sl.id]          # the comparison was hoisted into a local variable
            if isinstance(sl, ast.Compare) and isinstance(sl.comparators[0], ast.Constant):
                infer.append([sl.comparators[0].value, st.value.attr])
    for st in ast.walk(_find(tree, "CIFColumn.as_array")):
        if (isinstance(st, ast.Assign) and isinstance(st.targets[0], ast.Subscript) and isinstance(st.targets[0].slice, ast.Compare)
                and isinstance(st.targets[0].slice.comparators[0], ast.Attribute) and isinstance(st.value, ast.Constant)):
            render.append([st.targets[0].slice.comparators[0].attr, st.value.value])
    if len(infer) != 2 or len(render) != 2:
        raise ValueError(f"mask inference / rendering assignments not found: {infer} {render}")
    c["maskInferPairs"], c["maskRenderPairs"] = infer, render
    # the '_' prefix of BinaryCIFBlock and how it is taken off again
    pre = []
    for m in ("__init__", "__getitem__", "__setitem__", "__delitem__", "__contains__"):
        pre.append(_one(fps["bcif.BinaryCIFBlock." + m]["strs"], f"string in BinaryCIFBlock.{m}"))
    c["binaryPrefixes"] = pre
    strip = []
    for m in ("__iter__", "deserialize"):
        f = fps["bcif.BinaryCIFBlock." + m]
        strip.append([x for x in f["calls"] if x in ("removeprefix", "lstrip", "strip", "rstrip", "replace")] + [s for s in f["strs"] if s == "_" or "_" in s and len(s) <= 2])
    c["binaryStrip"] = strip
    # where the cached row count is forgotten: the attribute is the one the public `row_count` property returns
    resets = []
    for mod, rel in FILES.items():
        tree = ast.parse(open(os.path.join(src, rel)).read())
        for cls in [n for n in tree.body if isinstance(n, ast.ClassDef)]:
            props = [n for n in cls.body if isinstance(n, ast.FunctionDef) and n.name == "row_count"]
            if not props:
                continue
            rets = [st.value.attr for st in ast.walk(props[0]) if isinstance(st, ast.Return) and isinstance(st.value, ast.Attribute)]
            if len(set(rets)) != 1:
                raise ValueError(f"{cls.name}.row_count does not return one attribute: {rets}")
            attr = rets[0]
            for fn in [n for n in cls.body if isinstance(n, ast.FunctionDef)]:
                for st in ast.walk(fn):
                    if (isinstance(st, ast.Assign) and isinstance(st.targets[0], ast.Attribute) and st.targets[0].attr == attr
                            and isinstance(st.value, ast.Constant) and st.value.value is None):
                        resets.append(cls.name + "." + fn.name)
    c["rowCountResets"] = resets
    return c


# ---------------------------------------------------------------- Lean text
def lstr(s):
    out = '"'
    for ch in s:
        if ch == '"':
            out += '\\"'
        elif ch == "\\":
            out += "\\\\"
        elif ch == "\n":
            out += "\\n"
        elif ch == "\t":
            out += "\\t"
        elif 32 <= ord(ch) < 127:
            out += ch
        else:
            out += "\\u{%x}" % ord(ch)
    return out + '"'


def lstrs(xs):
    return "[" + ", ".join(lstr(x) for x in xs) + "]"


def fp_lean(fp):
    return ("{ params := [" + ", ".join(f"({lstr(a)}, {lstr(b)})" for a, b in fp["params"]) + "], strs := " + lstrs(fp["strs"])
            + ", ints := [" + ", ".join(str(i) for i in fp["ints"]) + "], cmps := " + lstrs(fp["cmps"]) + ", bools := " + lstrs(fp["bools"])
            + ", raises := " + lstrs(fp["raises"]) + ", calls := " + lstrs(fp["calls"]) + " }")


def ident(key):
    return "fp_" + key.replace(".", "_").replace("__", "U")


def lean_defs(fps, consts, namespace):
    """definitions of every fingerprint and named constant (used for Gen/C06.lean and, once, for the expected snapshot)"""
    out = []
    for key in sorted(fps):
        out.append(f"def {ident(key)} : Fp := {fp_lean(fps[key])}")
    for k in sorted(consts):
        v = consts[k]
        if isinstance(v, int):
            out.append(f"def {k} : Nat := {v}")
        elif isinstance(v, str):
            out.append(f"def {k} : String := {lstr(v)}")
        elif v and isinstance(v[0], list):
            out.append(f"def {k} : List (List String) := [" + ", ".join(lstrs(x) for x in v) + "]")
        elif v and isinstance(v[0], int):
            out.append(f"def {k} : List Nat := [" + ", ".join(str(i) for i in v) + "]")
        else:
            out.append(f"def {k} : List String := {lstrs(v)}")
    return out


if __name__ == "__main__":
    import sys
    src = sys.argv[1] if len(sys.argv) > 1 else "/repo/src"
    fps = fingerprints(src)
    consts = named_constants(src, fps)
    print("\n".join(lean_defs(fps, consts, "x")))

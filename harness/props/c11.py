"""C11 — Alignments keep valid traces through every conversion; MSAs align the inputs.

Ops (line protocol; the Lean side is lean/BiotiteModel/Driver/C11.lean):
  set <alphabet> <seq;seq;...> <trace>      state := Alignment(sequences, trace)      trace = cols `;`, entries `,`, gap `-`
  strings | fromstrings <s;s> | fasta | codes | symbols | termgaps | rmterm | rmgaps | sel k,k | cols a b
  ident <all|nt|short> | pident <mode> | score <matrix> <go> <ge> <tp>
  cigar_w/cigar_t/cigar_rt <ri> <si> <introns> <dm> <hc> <itg> | cigar_r <cigar> <pos>
  msa <gapcode> <codes;codes> <tree> <trace|trace...>    (pairwise traces recorded from the real align_optimal calls)
"""
import ast
import itertools
import os

PROP = "C11"
PROPS_MODULE = "BiotiteModel.Props.C11"
DRIVER_MODULE = "BiotiteModel.Driver.C11"
EXT_MODULES = ["biotite.sequence.align.multiple", "biotite.sequence.align.pairwise", "biotite.sequence.align.tracetable",
               "biotite.sequence.phylo.upgma", "biotite.sequence.phylo.tree"]
GEN_FILES = ["BiotiteModel/Gen/C11.lean"]
TECHNIQUE = ("Lean 4 proof (induction over trace columns, CIGAR op lists and the guide tree) + differential correspondence with "
             "alignment.py / cigar.py / fasta/convert.py / multiple.pyx")
LEVEL_TEXT = ("Lean theorems for traces of every length: for the whole alignment, trace_from_strings(get_gapped_sequences) gives the "
              "trace back (shifted to each row's start offset; equal for rows starting at 0; contiguity is shown necessary by a witness) "
              "and the FASTA round trip returns trace and sequences for any set of additional gap characters; the code matrix "
              "transposed is the column-by-column code of every sequence (dtype-independent) and get_symbols decodes every row through "
              "its own alphabet; find_terminal_gaps = first column where every sequence has started / one past the last where none has "
              "ended; remove_terminal_gaps / remove_gaps return exactly the selected columns and keep a valid trace; identity (3 modes), "
              "pairwise identity (3 modes) and score (terminal penalty on/off, affine cost of every maximal gap run per sequence) equal "
              "a column-by-column recomputation; the CIGAR writer accepts exactly the traces of a decidable predicate (no double gap, "
              "consecutive positions - after fix b62f18f5 -, introns inside reference gaps, ...), and for every accepted trace, with no "
              "further hypothesis, reader(writer) is the identity on the trimmed trace for every combination of hard_clip, "
              "distinguish_matches, introns and include_terminal_gaps (tuples and string); parse(print ops) = ops; run-length "
              "aggregation is lossless and maximal; the merge step of the progressive alignment keeps every row's gap-stripped content "
              "and creates no all-gap column, and by induction over any guide tree align_multiple returns a valid trace (one row per "
              "input in input order, row k visits exactly input k, no all-gap column) with an order that is the tree's leaf list (a "
              "permutation iff the tree's leaves are; as_binary keeps the leaves). The only assumption on align_optimal is stated "
              "exactly (GlobalValid per inner node) and the driver's checker is proved equivalent to it (checked per call on recorded "
              "traces). The Feng-Doolittle distance formula is modelled exactly (integers): theorems state when it has a value, and the "
              "two known multiple.pyx findings are witness theorems. Partial: UPGMA/float distances, numpy indexing and the unvalidated "
              "custom guide tree (known finding) are exercised (correspondence + independent oracle), not proved.")
LEVEL_NOTE = ("Regenerated from the source on every run and turned into Lean obligations: CigarOp table, reader/writer branches, default "
              "arguments, guards with their comparison operators and exception classes, clip/trim formulas, dtype of the code matrix, "
              "matrix lookup orientation, the steps of _progressive_align/_replace_gaps and the distance formula of multiple.pyx. Trusted: Lean kernel + {propext, Classical.choice, Quot.sound}; harness/props/c11.py (generators, adapter, ast translator "
              "of CigarOp/_str_to_op/reader branches); numpy slicing/where/argsort/unique modelled by documented semantics; align_optimal "
              "is C08's subject and enters as a hypothesis; UPGMA/float distances only through 'every leaf once' on the returned tree.")
RULE = ("seeded valid traces of 2-4 sequences (leading/trailing gaps, insertions next to deletions, start offsets, clipped ends, "
        "index jumps, empty sequences, rows over different alphabets) through every conversion/helper op against the Lean model, FASTA "
        "alignment text with 1-3 additional gap characters read in every order, a 70000-symbol alphabet stream "
        "(codes around 2^15/2^16) for get_codes/get_symbols/identity/'='/'X', all 16 CIGAR option combinations with introns placed "
        "inside reference gaps; a malformed stream (out-of-range indices, double-gap columns, introns outside gaps, broken CIGAR text); "
        "align_multiple on 2-6 sequences of length 1-12 with linear/affine gaps, terminal penalty on/off, default and explicit "
        "distances, custom (also multifurcating) guide trees and input lists holding the same Sequence object two or three times "
        "(inputs must be unchanged afterwards). non-trivial = trace has a gap or an offset, or an error branch is hit; "
        "distinct = different op list")
TRUSTED = ["numpy fancy indexing / np.where / np.unique / np.argsort modelled by documented semantics",
           "align_optimal (C08) enters the MSA theorems as the hypothesis 'returns a valid global trace', checked per call"]
ASSUMPTIONS = ["identity values are compared as exact fractions matches/length (the float division itself is not modelled)",
               "guide tree construction (UPGMA on float32 distances) is not modelled; only the returned tree's leaf list is used"]

NUC = "ACGT"
PROT = "ACDEFGHIKLMNPQRSTVWYBZX*"
GEN = "abcdefg"
AMB = "ACGTRYWSMKHBVDN"
PROT20 = "ACDEFGHIKLMNPQRSTVWY"
GAPCHARS = "._*~"
BAM = {"M": 0, "I": 1, "D": 2, "N": 3, "S": 4, "H": 5, "P": 6, "=": 7, "X": 8, "B": 9}     # SAM/BAM specification, op codes


# ---------------------------------------------------------------- translator (Gen)
def gen_lean():
    from common import paths
    path = os.path.join(paths.SRC, "biotite/sequence/align/cigar.py")
    tree = ast.parse(open(path).read())
    members, str_to_op, reader, writer, clip = None, None, None, [], None
    for node in tree.body:
        if isinstance(node, ast.ClassDef) and node.name == "CigarOp":
            members = [(t.targets[0].id, t.value.value) for t in node.body
                       if isinstance(t, ast.Assign) and isinstance(t.targets[0], ast.Name) and isinstance(t.value, ast.Constant)
                       and isinstance(t.value.value, int)]
        # the symbol table: the module-level dict literal {one-character string: CigarOp.<member>} (whatever its private name)
        if isinstance(node, ast.Assign) and isinstance(node.value, ast.Dict) and node.value.keys and all(
                isinstance(k, ast.Constant) and isinstance(k.value, str) and len(k.value) == 1 and isinstance(v, ast.Attribute)
                and isinstance(v.value, ast.Name) and v.value.id == "CigarOp" for k, v in zip(node.value.keys, node.value.values)):
            if str_to_op is not None:
                raise ValueError("two symbol tables in cigar.py")
            str_to_op = [(k.value, v.attr) for k, v in zip(node.value.keys, node.value.values)]
        if isinstance(node, ast.FunctionDef) and node.name == "read_alignment_from_cigar":
            reader = _reader_table(node)
        if isinstance(node, ast.FunctionDef) and node.name == "write_alignment_to_cigar":
            # the operation array: the local assigned from a call that has a CigarOp member as argument (np.full(..., CigarOp.MATCH, ...))
            opvar = None
            for sub in ast.walk(node):
                if isinstance(sub, ast.Assign) and isinstance(sub.targets[0], ast.Name) and isinstance(sub.value, ast.Call):
                    mem = [x for x in sub.value.args if isinstance(x, ast.Attribute) and isinstance(x.value, ast.Name) and x.value.id == "CigarOp"]
                    if mem and opvar is None:
                        opvar = sub.targets[0].id
                        writer.append(("default", mem[0].attr))
            if opvar is None:
                raise ValueError("write_alignment_to_cigar: operation array not found")
            for sub in ast.walk(node):
                if isinstance(sub, ast.Assign) and isinstance(sub.targets[0], ast.Subscript) and isinstance(sub.targets[0].value, ast.Name) \
                        and sub.targets[0].value.id == opvar and isinstance(sub.value, ast.Attribute):
                    writer.append((f"mask{len(writer)}", sub.value.attr))
                # clip operation: `X = CigarOp.A if <public flag> else CigarOp.B`
                if isinstance(sub, ast.Assign) and isinstance(sub.value, ast.IfExp) and isinstance(sub.value.body, ast.Attribute) \
                        and isinstance(sub.value.orelse, ast.Attribute) and ast.unparse(sub.value.body.value) == "CigarOp":
                    clip = (ast.unparse(sub.value.test), sub.value.body.attr, sub.value.orelse.attr)
    if not members or not str_to_op or not reader or not writer or not clip:
        raise ValueError("cigar.py: CigarOp / _str_to_op / reader branches / writer assignments not found")

    def b(x):
        return "true" if x else "false"

    def ch(c):
        if len(c) != 1 or c in "'\\\"":
            raise ValueError("unexpected CIGAR symbol " + repr(c))
        return f"'{c}'"
    body = ["/- REGENERATED on every run by harness/props/c11.py from sequence/align/cigar.py. Do not edit. -/",
            "namespace BiotiteModel.Gen.C11",
            "/-- `CigarOp` members: (name, BAM code). -/",
            "def cigarOps : List (String × Nat) := [" + ", ".join(f'("{n}", {v})' for n, v in members) + "]",
            "/-- `_str_to_op`: (symbol, member name). -/",
            "def strToOp : List (Char × String) := [" + ", ".join(f'({ch(s)}, "{n}")' for s, n in str_to_op) + "]",
            "/-- branches of `read_alignment_from_cigar`: (member, reference advances, segment advances, clipped away,",
            "reference entry is a gap, segment entry is a gap).  Members not listed raise ValueError. -/",
            "def readerTable : List (String × Bool × Bool × Bool × Bool × Bool) := [" +
            ", ".join(f'("{n}", {b(r)}, {b(s)}, {b(c)}, {b(rg)}, {b(sg)})' for n, r, s, c, rg, sg in reader) + "]",
            "/-- `operations[<mask>] = CigarOp.X` assignments of `write_alignment_to_cigar` (and the `np.full` default). -/",
            "def writerTable : List (String × String) := [" + ", ".join(f'("{m}", "{n}")' for m, n in writer) + "]",
            "/-- `clip_op = A if <test> else B` -/",
            f'def clipOp : String × String × String := ("{clip[0]}", "{clip[1]}", "{clip[2]}")']
    body += _gen_facts(tree)
    body += ["end BiotiteModel.Gen.C11", ""]
    return {"BiotiteModel/Gen/C11.lean": "\n".join(body)}


# ---- pass 7: literals, guards, defaults, order of checks, exception classes (cigar.py, alignment.py, fasta/convert.py, multiple.pyx)
_CMP = {ast.Lt: "Lt", ast.LtE: "LtE", ast.Gt: "Gt", ast.GtE: "GtE", ast.Eq: "Eq", ast.NotEq: "NotEq", ast.In: "In", ast.Is: "Is", ast.IsNot: "IsNot"}


def _fn(tree, name, cls=None):
    body = tree.body
    if cls is not None:
        c = next((n for n in tree.body if isinstance(n, ast.ClassDef) and n.name == cls), None)
        if c is None:
            raise ValueError(f"class {cls} not found")
        body = c.body
    f = next((n for n in body if isinstance(n, ast.FunctionDef) and n.name == name), None)
    if f is None:
        raise ValueError(f"function {name} not found")
    return f


def _defaults(f):
    """[(parameter, literal default as text)] of a FunctionDef"""
    args = f.args.args
    ds = f.args.defaults
    out = []
    for a, d in zip(args[len(args) - len(ds):], ds):
        out.append((a.arg, ast.unparse(d)))
    return out


def _raises(f):
    """exception class names of the `raise` statements, in source order"""
    out = []
    for n in ast.walk(f):
        if isinstance(n, ast.Raise):
            e = n.exc
            nm = e.func.id if isinstance(e, ast.Call) and isinstance(e.func, ast.Name) else e.id if isinstance(e, ast.Name) else None
            if nm is None:
                raise ValueError("unexpected raise in " + f.name)
            out.append((n.lineno, nm))
    return [nm for _, nm in sorted(out)]


def _if_raising(f, exc=None):
    """the `if <test>: raise X` statements of a function in source order: [(test node, exception name)]"""
    out = []
    for n in ast.walk(f):
        if isinstance(n, ast.If) and any(isinstance(b, ast.Raise) for b in n.body):
            r = next(b for b in n.body if isinstance(b, ast.Raise))
            nm = r.exc.func.id if isinstance(r.exc, ast.Call) else r.exc.id
            out.append((n.lineno, n.test, nm))
    return [(t, nm) for _, t, nm in sorted(out, key=lambda x: x[0])]


def _cmp(test):
    """(left text, operator name, right text) of a simple comparison"""
    if not (isinstance(test, ast.Compare) and len(test.ops) == 1 and type(test.ops[0]) in _CMP):
        raise ValueError("unexpected guard " + ast.unparse(test))
    return ast.unparse(test.left), _CMP[type(test.ops[0])], ast.unparse(test.comparators[0])


def _lstr(x):
    return '"' + x.replace("\\", "\\\\").replace('"', '\\"') + '"'


def _lpairs(ps):
    return "[" + ", ".join("(" + ", ".join(_lstr(str(y)) for y in p) + ")" for p in ps) + "]"


def _rename(node, mapping):
    """unparse with local names replaced (alpha-normalisation)"""
    import copy
    n = copy.deepcopy(node)
    for x in ast.walk(n):
        if isinstance(x, ast.Name) and x.id in mapping:
            x.id = mapping[x.id]
    return ast.unparse(n)


def _callee(node):
    return node.func.id if isinstance(node, ast.Call) and isinstance(node.func, ast.Name) else None


def _module_fn(tree, name):
    f = next((n for n in tree.body if isinstance(n, ast.FunctionDef) and n.name == name), None)
    if f is None:
        raise ValueError("helper " + str(name) + " not found")
    return f


def _gap_when_eq(fn):
    """(gap character, True) when the function yields the 1-character string constant exactly when `x == -1`"""
    for n in ast.walk(fn):
        if isinstance(n, (ast.If, ast.IfExp)) and isinstance(n.test, ast.Compare) and len(n.test.ops) == 1 \
                and ast.unparse(n.test.comparators[0]) == "-1" and isinstance(n.test.ops[0], (ast.Eq, ast.NotEq)):
            body = n.body if isinstance(n.body, list) else [n.body]
            orelse = n.orelse if isinstance(n.orelse, list) else [n.orelse]

            def consts(nodes):
                return [c.value for m in nodes for c in ast.walk(m) if isinstance(c, ast.Constant) and isinstance(c.value, str) and len(c.value) == 1]
            t, e = consts(body), consts(orelse)
            if isinstance(n.test.ops[0], ast.Eq) and len(t) == 1 and not e:
                return t[0], True
            if isinstance(n.test.ops[0], ast.NotEq) and len(e) == 1 and not t:
                return e[0], True
    raise ValueError(fn.name + ": gap character / test not found")


def _gen_facts(cigar_tree):
    import re

    from common import paths
    out = []
    # ---------------- cigar.py
    w = _fn(cigar_tree, "write_alignment_to_cigar")
    r = _fn(cigar_tree, "read_alignment_from_cigar")
    out += ["/-- default arguments of `write_alignment_to_cigar` -/",
            "def writerDefaults : List (String × String) := " + _lpairs(_defaults(w)),
            "def readerDefaults : List (String × String) := " + _lpairs(_defaults(r))]
    guards = _if_raising(w)
    kinds = []
    expanded = []
    for t, nm in guards:
        if isinstance(t, ast.BoolOp) and isinstance(t.op, ast.Or) and all(isinstance(x, ast.Compare) for x in t.values):
            expanded += [(x, nm) for x in t.values]
        else:
            expanded.append((t, nm))
    for t, nm in expanded:
        if isinstance(t, ast.Compare):
            c = _cmp(t)
            kinds.append((c[1], c[2] if c[2] in ("0",) else "var", nm))
        else:
            txt = ast.unparse(t)
            if "np.diff" in txt:
                m = re.search(r"np\.diff\(.*\)\s*!=\s*(-?\d+)", txt)
                kinds.append(("diff-not", m.group(1) if m else "?", nm))
            elif "~" in txt:
                kinds.append(("mask-and-not", "", nm))
            elif "&" in txt:
                kinds.append(("mask-and", "", nm))
            else:
                raise ValueError("unexpected guard in write_alignment_to_cigar: " + txt)
    out += ["/-- the refusing guards of `write_alignment_to_cigar` in source order: (kind/operator, constant, exception) -/",
            "def writerGuards : List (String × String × String) := " + _lpairs(kinds),
            "def readerRaises : List String := [" + ", ".join(_lstr(x) for x in sorted(set(_raises(r)))) + "]"]
    # private helpers are found by how the writer calls them, not by name
    trim_name = clip_name = print_name = None
    for n in ast.walk(w):
        if isinstance(n, ast.If) and ast.unparse(n.test) == "not include_terminal_gaps":
            trim_name = next((_callee(x.value) for x in n.body if isinstance(x, ast.Assign)), None)
        if isinstance(n, ast.Assign) and isinstance(n.targets[0], ast.Tuple) and len(n.targets[0].elts) == 2 and _callee(n.value):
            clip_name = _callee(n.value)
        if isinstance(n, ast.If) and ast.unparse(n.test) == "as_string":
            print_name = next((_callee(x.value) for x in n.body if isinstance(x, (ast.Assign, ast.Return)) and _callee(x.value)), None)
    priv = [n for n in cigar_tree.body if isinstance(n, ast.FunctionDef) and n.name.startswith("_")]
    if print_name is None:      # the helper that turns op tuples into text: it calls `to_cigar_symbol`
        print_name = next((f.name for f in priv if "to_cigar_symbol" in ast.unparse(f)), None)
    if clip_name is None:
        clip_name = next((f.name for f in priv if any(isinstance(x, ast.Return) and isinstance(x.value, ast.Tuple) and len(x.value.elts) == 2
                                                      for x in ast.walk(f)) and "len(" in ast.unparse(f)), None)
    if trim_name is None:
        trim_name = next((f.name for f in priv if any(isinstance(x, ast.Return) and isinstance(x.value, ast.Subscript) and isinstance(x.value.slice, ast.Slice)
                                                      for x in ast.walk(f))), None)
    fc, ft, fp = _module_fn(cigar_tree, clip_name), _module_fn(cigar_tree, trim_name), _module_fn(cigar_tree, print_name)
    ret = next((n for n in ast.walk(fc) if isinstance(n, ast.Return)), None)
    if ret is None or not (isinstance(ret.value, ast.Tuple) and len(ret.value.elts) == 2 and all(isinstance(e, ast.Name) for e in ret.value.elts)):
        raise ValueError("clip helper: unexpected return")
    asg = {n.targets[0].id: n.value for n in ast.walk(fc) if isinstance(n, ast.Assign) and isinstance(n.targets[0], ast.Name)}
    sc, ec = asg.get(ret.value.elts[0].id), asg.get(ret.value.elts[1].id)
    if not (isinstance(sc, ast.Subscript) and isinstance(ec, ast.BinOp) and isinstance(ec.op, ast.Sub) and isinstance(ec.left, ast.BinOp)
            and isinstance(ec.left.op, ast.Sub) and isinstance(ec.left.left, ast.Call) and ast.unparse(ec.left.left.func) == "len"
            and isinstance(ec.left.right, ast.Subscript) and isinstance(ec.right, ast.Constant)):
        raise ValueError("clip helper: unexpected formula")
    out += ["/-- `start_clip = seg_trace[startClipIndex]`, `end_clip = len(segment) - seg_trace[endClipIndex] - endClipMinus` -/",
            f"def startClipIndex : Int := {int(ast.literal_eval(sc.slice))}",
            f"def endClipIndex : Int := {int(ast.literal_eval(ec.left.right.slice))}",
            f"def endClipMinus : Int := {int(ec.right.value)}"]
    ret = next(n for n in ast.walk(ft) if isinstance(n, ast.Return))
    sl = ret.value.slice if isinstance(ret.value, ast.Subscript) else None
    if not (isinstance(sl, ast.Slice) and isinstance(sl.lower, ast.Subscript) and isinstance(sl.upper, ast.BinOp) and isinstance(sl.upper.op, ast.Add)):
        raise ValueError("trim helper: unexpected slice")
    out += ["/-- `alignment[pos[trimLower] : pos[trimUpper] + trimPlus]` -/",
            f"def trimLower : Int := {int(ast.literal_eval(sl.lower.slice))}",
            f"def trimUpper : Int := {int(ast.literal_eval(sl.upper.left.slice))}",
            f"def trimPlus : Int := {int(sl.upper.right.value)}"]
    cat = next((n for n in ast.walk(fp) if isinstance(n, ast.BinOp) and isinstance(n.op, ast.Add)
                and ("to_cigar_symbol" in ast.unparse(n.left)) != ("to_cigar_symbol" in ast.unparse(n.right))), None)
    if cat is None:
        raise ValueError("printer helper: unexpected shape")
    out += ["/-- the printer appends `str(count)` first, then the symbol -/",
            f"def printerCountFirst : Bool := {'true' if ast.unparse(cat.left).startswith('str(') and 'to_cigar_symbol' in ast.unparse(cat.right) else 'false'}"]
    out += ["def readerInit : List (String × String) := " + _lpairs(_reader_table.init)]

    # ---------------- alignment.py
    atree = ast.parse(open(os.path.join(paths.SRC, "biotite/sequence/align/alignment.py")).read())
    facts = []
    gs = _fn(atree, "_gapped_str", "Alignment") if any(isinstance(n, ast.FunctionDef) and n.name == "_gapped_str" for c in atree.body
                                                        if isinstance(c, ast.ClassDef) and c.name == "Alignment" for n in c.body) else None
    if gs is None:
        # the private renderer is whatever `get_gapped_sequences` calls on self
        gg = _fn(atree, "get_gapped_sequences", "Alignment")
        nm = next((n.func.attr for n in ast.walk(gg) if isinstance(n, ast.Call) and isinstance(n.func, ast.Attribute)
                   and ast.unparse(n.func.value) == "self"), None)
        gs = _fn(atree, nm, "Alignment")
    ch, _ = _gap_when_eq(gs)
    facts.append(("gapped.gapChar", ch))
    facts.append(("gapped.test", "gap iff index == -1"))
    tfs = _fn(atree, "trace_from_strings", "Alignment")
    g = _if_raising(tfs)
    if len(g) != 1:
        raise ValueError("trace_from_strings: expected one refusing guard")
    c = _cmp(g[0][0])
    facts.append(("trace_from_strings.guard", f"{c[1]} {c[2]} {g[0][1]}"))
    tcmp = [_cmp(n.test) for n in ast.walk(tfs) if isinstance(n, ast.If) and not any(isinstance(b, ast.Raise) for b in n.body)]
    facts.append(("trace_from_strings.gapTest", " ".join(tcmp[0][1:]) if tcmp else "?"))
    inc = next((n for n in ast.walk(tfs) if isinstance(n, ast.AugAssign)), None)
    facts.append(("trace_from_strings.increment", ast.unparse(inc.op).strip() + ast.unparse(inc.value) if inc is not None else "?"))
    gc = _fn(atree, "get_codes")
    dts = sorted({ast.unparse(k.value) for n in ast.walk(gc) if isinstance(n, ast.Call) for k in n.keywords if k.arg == "dtype"})
    fills = sorted({ast.unparse(n.value) for n in ast.walk(gc) if isinstance(n, ast.Assign) and isinstance(n.targets[0], ast.Subscript)
                    and isinstance(n.value, ast.Call) and ast.unparse(n.value.func).startswith("np.int") and ast.unparse(n.value.args[0]) == "-1"})
    facts.append(("get_codes.dtype", ",".join(dts)))
    facts.append(("get_codes.gapFill", ",".join(fills)))
    gsym = _fn(atree, "get_symbols")
    loop = next((n for n in gsym.body if isinstance(n, ast.For)), None)
    al_in = [n.value for n in ast.walk(loop) if isinstance(n, ast.Assign) and ast.unparse(n.value).endswith(".get_alphabet()")] if loop is not None else []
    al_all = [n.value for n in ast.walk(gsym) if isinstance(n, ast.Assign) and ast.unparse(n.value).endswith(".get_alphabet()")]
    if not al_all:
        raise ValueError("get_symbols: alphabet not found")
    lv = {loop.target.id: "k"} if loop is not None and isinstance(loop.target, ast.Name) else {}
    facts.append(("get_symbols.alphabet", _rename(al_all[0], lv) + ("|per-row" if al_in else "|once")))
    for name in ("get_sequence_identity", "get_pairwise_sequence_identity"):
        f = _fn(atree, name)
        facts.append((name + ".defaults", ";".join(f"{a}={d}" for a, d in _defaults(f))))
        modes = [ast.unparse(n.test.comparators[0]) for n in ast.walk(f) if isinstance(n, ast.If) and isinstance(n.test, ast.Compare)
                 and ast.unparse(n.test.left) == "mode"]
        facts.append((name + ".modes", ",".join(dict.fromkeys(modes))))
        # the bounds: whatever the two names unpacked from find_terminal_gaps() are called
        mp = {}
        for n in ast.walk(f):
            if isinstance(n, ast.Assign) and isinstance(n.targets[0], ast.Tuple) and len(n.targets[0].elts) == 2 and \
                    isinstance(n.value, ast.Call) and ast.unparse(n.value.func) == "find_terminal_gaps":
                mp = {n.targets[0].elts[0].id: "start", n.targets[0].elts[1].id: "stop"}
        gg = []
        for t, nm in _if_raising(f):
            if isinstance(t, ast.Compare):
                gg.append(f"{_rename(t.left, mp)} {_CMP[type(t.ops[0])]} {_rename(t.comparators[0], mp)} {nm}")
        facts.append((name + ".guards", ";".join(gg)))
        facts.append((name + ".raises", ",".join(sorted(set(_raises(f))))))
    gi = _fn(atree, "get_sequence_identity")
    mt = next((n.test for n in ast.walk(gi) if isinstance(n, ast.If) and "np.unique" in ast.unparse(gi) and isinstance(n.test, ast.BoolOp)
               and "len(" in ast.unparse(n.test)), None)
    if mt is not None:
        # the np.unique idiom: local names normalised
        uq = next((n.targets[0].id for n in ast.walk(gi) if isinstance(n, ast.Assign) and isinstance(n.value, ast.Call)
                   and ast.unparse(n.value.func) == "np.unique" and isinstance(n.targets[0], ast.Name)), None)
        txt = _rename(mt, {uq: "unique"} if uq else {})
        facts.append(("get_sequence_identity.match", "one symbol in the column and not -1" if txt == "len(unique) == 1 and unique[0] != -1" else txt))
    else:
        # vectorised form: all rows equal to the first row and the first row is not a gap
        txt = " ".join(ast.unparse(n.value) for n in ast.walk(gi) if isinstance(n, ast.Assign))
        m = re.search(r"np\.all\((\w+) == (\w+), axis=0\) & \(\2 != -1\)", txt)
        first_ok = m is not None and any(isinstance(n, ast.Assign) and isinstance(n.targets[0], ast.Name) and n.targets[0].id == m.group(2)
                                         and ast.unparse(n.value) == m.group(1) + "[0]" for n in ast.walk(gi))
        facts.append(("get_sequence_identity.match", "one symbol in the column and not -1" if first_ok else "?"))
    sf = _fn(atree, "score")
    facts.append(("score.defaults", ";".join(f"{a}={d}" for a, d in _defaults(sf))))
    look = next((n for n in ast.walk(sf) if isinstance(n, ast.AugAssign) and isinstance(n.value, ast.Subscript)
                 and isinstance(n.value.slice, ast.Tuple) and len(n.value.slice.elts) == 2), None)
    if look is None:
        raise ValueError("score: matrix lookup not found")
    sasg = {n.targets[0].id: n.value for n in ast.walk(sf) if isinstance(n, ast.Assign) and isinstance(n.targets[0], ast.Name)}
    idx = []
    for e in look.value.slice.elts:
        d = sasg.get(e.id) if isinstance(e, ast.Name) else e
        if not (isinstance(d, ast.Subscript) and isinstance(d.slice, ast.Name)):
            raise ValueError("score: unexpected lookup index " + ast.unparse(e))
        idx.append(d.slice.id)
    # which loop variable is the earlier row: nested `for j in range(i + 1, …)` or `for i, j in …combinations(range(…), 2)`
    order = None
    for n in ast.walk(sf):
        if isinstance(n, ast.For) and isinstance(n.target, ast.Name) and isinstance(n.iter, ast.Call) and ast.unparse(n.iter.func) == "range" \
                and len(n.iter.args) == 2 and isinstance(n.iter.args[0], ast.BinOp) and isinstance(n.iter.args[0].op, ast.Add) \
                and ast.unparse(n.iter.args[0].right) == "1" and isinstance(n.iter.args[0].left, ast.Name):
            order = [n.iter.args[0].left.id, n.target.id]
        if isinstance(n, ast.For) and isinstance(n.target, ast.Tuple) and len(n.target.elts) == 2:
            src = ast.unparse(n.iter)
            defs = ast.unparse(sasg[n.iter.id]) if isinstance(n.iter, ast.Name) and n.iter.id in sasg else src
            if re.search(r"combinations\(range\(.*\), 2\)", defs):
                order = [n.target.elts[0].id, n.target.elts[1].id]
    if order is None or set(idx) != set(order):
        raise ValueError("score: pair loop not recognised")
    facts.append(("score.lookup", "matrix[" + ",".join("earlier" if x == order[0] else "later" for x in idx) + "]"))
    facts.append(("score.pairs", "every unordered pair once (earlier < later)"))
    facts.append(("score.raises", ",".join(sorted(set(_raises(sf))))))
    gmap = {}
    for k, v in sasg.items():
        if ast.unparse(v) == "gap_penalty[0]":
            gmap[k] = "open"
        if ast.unparse(v) == "gap_penalty[1]":
            gmap[k] = "ext"
    gapadd = [gmap.get(ast.unparse(n.value), "?") for n in ast.walk(sf) if isinstance(n, ast.AugAssign) and isinstance(n.value, ast.Name)
              and n.value.id in gmap]
    facts.append(("score.gapOrder", ",".join(gapadd)))
    ftg = _fn(atree, "find_terminal_gaps")
    try:
        facts += _terminal_gap_facts(ftg)
    except ValueError as e:
        facts.append(("find_terminal_gaps.start", "UNRECOGNISED: " + str(e)))
        facts.append(("find_terminal_gaps.stop", "UNRECOGNISED: " + str(e)))
    rt = _fn(atree, "remove_terminal_gaps")
    mp = {}
    for n in ast.walk(rt):
        if isinstance(n, ast.Assign) and isinstance(n.targets[0], ast.Tuple) and len(n.targets[0].elts) == 2:
            mp = {n.targets[0].elts[0].id: "start", n.targets[0].elts[1].id: "stop"}
    facts.append(("remove_terminal_gaps.guard", ";".join(f"{_rename(t.left, mp)} {_CMP[type(t.ops[0])]} {_rename(t.comparators[0], mp)} {nm}"
                                                         for t, nm in _if_raising(rt) if isinstance(t, ast.Compare))))
    facts += _tail_alignment_facts(atree)
    facts += _fasta_facts(paths)
    facts += _pyx_facts(paths)
    out += ["/-- literals, guards, defaults, step order and exception classes read from alignment.py, fasta/convert.py (ast) and",
            "multiple.pyx (text) -/",
            "def facts : List (String × String) := " + _lpairs(facts)]
    return out


def _terminal_gap_facts(ftg):
    import re
    facts = []
    comps = []
    for n in ast.walk(ftg):
        if isinstance(n, ast.Assign) and isinstance(n.value, ast.ListComp) and isinstance(n.value.elt, ast.IfExp) and isinstance(n.targets[0], ast.Name):
            e = n.value.elt
            if not (isinstance(e.body, ast.Subscript) and isinstance(e.test, ast.Compare) and ast.unparse(e.test.left).startswith("len(")):
                raise ValueError("find_terminal_gaps: unexpected comprehension")
            els = "-1" if ast.unparse(e.orelse) == "-1" else "ncols" if ast.unparse(e.orelse).endswith(".shape[0]") else ast.unparse(e.orelse)
            comps.append((n.lineno, n.targets[0].id, f"pos[{ast.unparse(e.body.slice)}] if len {_CMP[type(e.test.ops[0])]} {ast.unparse(e.test.comparators[0])} else {els}"))
    retn = next((n for n in ast.walk(ftg) if isinstance(n, ast.Return)), None)
    if len(comps) != 2 or retn is None or not isinstance(retn.value, ast.Tuple):
        raise ValueError("find_terminal_gaps: unexpected shape")
    by = {nm: txt for _, nm, txt in comps}
    res = []
    for e in retn.value.elts:
        plus = "0"
        if isinstance(e, ast.BinOp) and isinstance(e.op, ast.Add):
            plus, e = ast.unparse(e.right), e.left
        m = re.match(r"np\.(\w+)\((\w+)\)\.item\(\)$", ast.unparse(e))
        if not m or m.group(2) not in by:
            raise ValueError("find_terminal_gaps: unexpected return")
        res.append(f"{m.group(1)}({by[m.group(2)]})+{plus}")
    facts.append(("find_terminal_gaps.start", res[0]))
    facts.append(("find_terminal_gaps.stop", res[1]))
    return facts


def _tail_alignment_facts(atree):
    import re
    facts = []
    rg = _fn(atree, "remove_gaps")
    mtxt = ast.unparse(next(n.value for n in ast.walk(rg) if isinstance(n, ast.Assign)))
    if re.fullmatch(r"\(alignment\.trace != -1\)\.all\(axis=1\)", mtxt) or re.fullmatch(r"~\(alignment\.trace == -1\)\.any\(axis=1\)", mtxt):
        mtxt = "columns without any -1"
    facts.append(("remove_gaps.mask", mtxt))
    gi2 = _fn(atree, "__getitem__", "Alignment")
    facts.append(("getitem.raises", ",".join(sorted(set(_raises(gi2))))))
    n_int = sum(1 for n in ast.walk(gi2) if isinstance(n, ast.Call) and ast.unparse(n.func) == "isinstance" and "numbers.Integral" in ast.unparse(n.args[1]))
    n_plain = sum(1 for n in ast.walk(gi2) if isinstance(n, ast.Call) and ast.unparse(n.func) == "isinstance" and ast.unparse(n.args[1]) in ("int", "(int,)"))
    facts.append(("getitem.integerTest", "numbers.Integral in the 1-D and the 2-D branch" if n_int >= 2 and n_plain == 0 else f"{n_int} Integral / {n_plain} int"))
    return facts


def _fasta_facts(paths):
    facts = []
    ctree = ast.parse(open(os.path.join(paths.SRC, "biotite/sequence/io/fasta/convert.py")).read())
    ga, sa = _fn(ctree, "get_alignment"), _fn(ctree, "set_alignment")
    facts.append(("get_alignment.defaults", ";".join(f"{a}={d}" for a, d in _defaults(ga))))
    reps = []
    for n in ast.walk(ga):
        if isinstance(n, ast.Call) and isinstance(n.func, ast.Attribute) and n.func.attr == "replace" and len(n.args) == 2:
            reps.append(",".join(ast.unparse(x) if isinstance(x, ast.Constant) else "char" for x in n.args))
    facts.append(("get_alignment.replace", ";".join(sorted(set(reps)))))
    # every listed character must be replaced in the *current* text of every string: either the characters are the outer loop
    # (each pass re-reads the list), or the replacement reads the very element it assigns (`x[i] = x[i].replace(...)`)
    outer = next((n for n in ga.body if isinstance(n, ast.For)), None)
    chars_outer = outer is not None and ast.unparse(outer.iter) == "additional_gap_chars"
    fresh = False
    for n in ast.walk(ga):
        if isinstance(n, ast.Assign) and isinstance(n.value, ast.Call) and isinstance(n.value.func, ast.Attribute) and n.value.func.attr == "replace" \
                and len(n.value.args) == 2 and not isinstance(n.value.args[0], ast.Constant):
            fresh = ast.unparse(n.value.func.value) == ast.unparse(n.targets[0])
    facts.append(("get_alignment.loops", "every additional gap character is replaced in the current text" if (chars_outer or fresh)
                  else "replacement reads a stale string"))
    sg = _if_raising(sa)
    if len(sg) != 1 or not isinstance(sg[0][0], ast.Compare):
        raise ValueError("set_alignment: expected one refusing guard")
    sides = sorted(["len(seq_names)" if "seq_names" in ast.unparse(x) else "len(rows)" for x in (sg[0][0].left, sg[0][0].comparators[0])])
    facts.append(("set_alignment.guard", f"{sides[0]} {_CMP[type(sg[0][0].ops[0])]} {sides[1]} {sg[0][1]}"))
    return facts


def _pyx_facts(paths):
    import re
    facts = []
    px = open(os.path.join(paths.SRC, "biotite/sequence/align/multiple.pyx")).read()

    def func_text(name):
        m = re.search(r"^def " + name + r"\(.*?(?=^def |\Z)", px, re.S | re.M)
        if not m:
            raise ValueError("multiple.pyx: function " + name + " not found")
        return re.sub(r"#.*", "", m.group(0))
    am, pa, rgp, dm = func_text("align_multiple"), func_text("_progressive_align"), func_text("_replace_gaps"), func_text("_get_distance_matrix")
    sig = re.search(r"def align_multiple\((.*?)\):", am, re.S).group(1)
    facts.append(("align_multiple.defaults", ";".join(x.strip() for x in re.sub(r"\s+", " ", sig).split(",") if "=" in x)))

    def need(pat, text, what):
        m = re.search(pat, text, re.S)
        if not m:
            raise ValueError("multiple.pyx: " + what + " not found")
        return m
    facts.append(("align_multiple.reorder", need(r"new_order\s*=\s*(np\.\w+\(order\))", am, "reordering").group(1)))
    facts.append(("align_multiple.pick", re.sub(r"\s+", " ", need(r"aligned_seqs\s*=\s*(\[aligned_seqs\[pos\] for pos in new_order\])", am, "row picking").group(1))))
    facts.append(("align_multiple.traceReorder", need(r"trace\s*=\s*(trace\[:,\s*new_order\])", am, "trace reordering").group(1).replace(" ", "")))
    facts.append(("align_multiple.gapCode", need(r"gap_symbol_code\s*=\s*(new_alphabet\.encode\(gap_symbol\))", am, "gap code").group(1)))
    facts.append(("align_multiple.gapTest", need(r"if seq_code\[i\]\s*(==|!=)\s*gap_symbol_code:\s*trace\[i,j\]\s*=\s*(-?\d+)", am, "gap test").group(1) + " " +
                  need(r"if seq_code\[i\]\s*(==|!=)\s*gap_symbol_code:\s*trace\[i,j\]\s*=\s*(-?\d+)", am, "gap test").group(2)))
    facts.append(("align_multiple.strip", re.sub(r"\s+", "", need(r"(code\[code\s*!=\s*gap_symbol_code\])", am, "gap stripping").group(1))))
    facts.append(("progressive.leaf", re.sub(r"\s+", "", need(r"return np\.array\(\[tree_node\.index\].*?\),\s*\\?\s*(\[sequences\[tree_node\.index\][^\]]*\])", pa, "leaf case").group(1))))
    cols = re.findall(r"for i in range\(len\((aligned_seqs\d)\)\):.*?alignment\.trace\[:,(\d)\]", pa, re.S)
    facts.append(("progressive.traceColumns", ";".join(f"{a}:{b}" for a, b in cols)))
    ret = need(r"return (np\.append\(\w+,\s*\w+\)),\s*\\?\s*(aligned_seqs1\s*\+\s*aligned_seqs2)", pa, "node return")
    facts.append(("progressive.concat", re.sub(r"\s+", "", ret.group(1)) + ";" + re.sub(r"\s+", "", ret.group(2))))
    facts.append(("progressive.children", re.sub(r"\s+", "", need(r"(child1,\s*child2\s*=\s*tree_node\.children)", pa, "children").group(1))))
    rgm = need(r"if index\s*(==|!=)\s*(-?\d+):\s*new_seq_code_v\[i\]\s*=\s*(\w+)\s*else:\s*new_seq_code_v\[i\]\s*=\s*(\w+\[index\])", rgp, "_replace_gaps branches")
    facts.append(("replace_gaps.branches", " ".join(rgm.groups())))
    facts.append(("distance.scoreMax", re.sub(r"\s+", "", need(r"score_max\s*=\s*(\(scores_v\[i,i\]\s*\+\s*scores_v\[j,j\]\)\s*/\s*[\d.]+)", dm, "score_max").group(1))))
    facts.append(("distance.guard", re.sub(r"\s+", " ", need(r"if (scores_v\[i,j\]\s*[<>=]+\s*score_rand):\s*raise (\w+)", dm, "distance guard").group(1)) + " " +
                  need(r"if (scores_v\[i,j\]\s*[<>=]+\s*score_rand):\s*raise (\w+)", dm, "distance guard").group(2)))
    facts.append(("distance.formula", re.sub(r"\s+", "", need(r"distances_v\[i,j\]\s*=\s*(-log\(.*?\)\s*\))", dm, "distance formula").group(1))))
    facts.append(("distance.randDivisor", re.sub(r"\s+", "", need(r"score_rand\s*/=\s*(alignments\[i,j\]\.trace\.shape\[0\])", dm, "score_rand divisor").group(1))))
    facts.append(("distance.gapTerms", ";".join(re.sub(r"\s+", "", x) for x in re.findall(r"score_rand\s*\+=\s*(gap_\w+_count\s*\*\s*gap_\w+)", dm))))
    return facts


def _reader_table(fn):
    """branches of the reader loop, found by structure: the `for (op, length) in …` loop whose body re-binds `op = CigarOp(op)`;
    cursors, row counter, mask and trace variables are identified by how they are initialised and used, not by name"""
    loop = None
    for n in ast.walk(fn):
        if isinstance(n, ast.For) and isinstance(n.target, ast.Tuple) and len(n.target.elts) == 2 and any(
                isinstance(b, ast.Assign) and isinstance(b.value, ast.Call) and ast.unparse(b.value.func) == "CigarOp" for b in n.body):
            loop = n
    if loop is None:
        raise ValueError("reader loop not found")
    length = loop.target.elts[1].id
    params = [a.arg for a in fn.args.args]
    init = {}
    for n in fn.body:
        if isinstance(n, ast.Assign) and isinstance(n.targets[0], ast.Name) and n.targets[0].id not in init:
            init[n.targets[0].id] = n.value
    ref_cur = [k for k, v in init.items() if isinstance(v, ast.Name) and v.id == "position"]
    zeros = [k for k, v in init.items() if isinstance(v, ast.Constant) and v.value == 0]
    top_aug = [b.target.id for b in loop.body if isinstance(b, ast.AugAssign) and isinstance(b.target, ast.Name)]
    rowvar = [z for z in zeros if z in top_aug]
    seg_cur = [z for z in zeros if z not in top_aug]
    mask = [k for k, v in init.items() if isinstance(v, ast.Call) and ast.unparse(v.func) == "np.ones"]
    trace = [k for k, v in init.items() if isinstance(v, ast.Call) and ast.unparse(v.func) == "np.zeros"]
    if not (len(ref_cur) == 1 and len(rowvar) == 1 and len(seg_cur) == 1 and len(mask) == 1 and len(trace) >= 1 and "position" in params):
        raise ValueError("reader: cursors / row counter / mask not identified")
    ref_cur, seg_cur, rowvar, mask = ref_cur[0], seg_cur[0], rowvar[0], mask[0]
    tracevars = set(trace)
    chain = next((n for n in loop.body if isinstance(n, ast.If)), None)
    rows = []
    while chain is not None:
        test = chain.test
        if isinstance(test, ast.Compare) and isinstance(test.ops[0], ast.In):
            names = [e.attr for e in test.comparators[0].elts]
        elif isinstance(test, ast.Compare) and isinstance(test.ops[0], ast.Eq):
            names = [test.comparators[0].attr]
        else:
            raise ValueError("unexpected reader test " + ast.unparse(test))
        flags = {nm: dict(ref_adv=False, seg_adv=False, clipped=False, ref_gap=False, seg_gap=False) for nm in names}

        def branch_names(t):
            if isinstance(t, ast.Compare) and isinstance(t.ops[0], ast.In):
                return [e.attr for e in t.comparators[0].elts]
            if isinstance(t, ast.Compare) and isinstance(t.ops[0], ast.Eq):
                return [t.comparators[0].attr]
            raise ValueError("unexpected reader test " + ast.unparse(t))
        todo = [(st, names) for st in chain.body]
        while todo:
            st, who = todo.pop(0)
            if isinstance(st, ast.If) and not st.orelse:
                sub = [n for n in branch_names(st.test) if n in who]
                todo = [(x, sub) for x in st.body] + todo
                continue
            ref_adv = seg_adv = clipped = ref_gap = seg_gap = False
            ok = False
            if isinstance(st, ast.AugAssign) and isinstance(st.op, ast.Add) and isinstance(st.target, ast.Name) and ast.unparse(st.value) == length:
                if st.target.id == ref_cur:
                    ref_adv = ok = True
                elif st.target.id == seg_cur:
                    seg_adv = ok = True
            elif isinstance(st, ast.Assign) and isinstance(st.targets[0], ast.Subscript) and isinstance(st.targets[0].value, ast.Name):
                tgt = st.targets[0]
                if tgt.value.id == mask and isinstance(st.value, ast.Constant) and st.value.value is False:
                    clipped = ok = True
                elif tgt.value.id in tracevars and isinstance(tgt.slice, ast.Tuple) and isinstance(tgt.slice.elts[-1], ast.Constant):
                    col = tgt.slice.elts[-1].value
                    is_gap = ast.unparse(st.value) == "-1"
                    is_run = isinstance(st.value, ast.Call) and ast.unparse(st.value.func) == "np.arange" and \
                        ast.unparse(st.value.args[0]) == (ref_cur if col == 0 else seg_cur)
                    if col in (0, 1) and (is_gap or is_run):
                        ok = True
                        if is_gap and col == 0:
                            ref_gap = True
                        if is_gap and col == 1:
                            seg_gap = True
            if not ok:
                raise ValueError("unexpected statement in reader branch: " + ast.unparse(st))
            for nm in who:
                f = flags[nm]
                f["ref_adv"] |= ref_adv; f["seg_adv"] |= seg_adv; f["clipped"] |= clipped; f["ref_gap"] |= ref_gap; f["seg_gap"] |= seg_gap
        for n in names:
            f = flags[n]
            rows.append((n, f["ref_adv"], f["seg_adv"], f["clipped"], f["ref_gap"], f["seg_gap"]))
        nxt = chain.orelse
        if len(nxt) == 1 and isinstance(nxt[0], ast.If):
            chain = nxt[0]
        else:
            if not (len(nxt) == 1 and isinstance(nxt[0], ast.Raise)):
                raise ValueError("reader chain does not end in raise")
            chain = None
    _reader_table.init = [("refCursor", ast.unparse(init[ref_cur])), ("segCursor", ast.unparse(init[seg_cur])), ("row", ast.unparse(init[rowvar]))]
    return rows


# ---------------------------------------------------------------- text forms
def _tr(trace):
    return ";".join(",".join("-" if x < 0 else str(x) for x in col) for col in trace) if len(trace) else "_"


def _seqs(strs):
    return ";".join(s if s else "_" for s in strs)


def _codes(seqs):
    return ";".join(",".join(str(int(c)) for c in s) if len(s) else "_" for s in seqs)


def _introns(introns):
    return ",".join(f"{a}:{b}" for a, b in introns) if introns else "_"


# ---------------------------------------------------------------- generator
def _rand_trace(rng, n, style, ncol=None):
    """columns of a valid trace for n sequences + sequence lengths.  style: global | local | jumps"""
    if ncol is None:
        ncol = rng.choice([0, 1, 2, 3, 4, 5, 6, 8, 11]) if rng.random() < 0.9 else rng.randint(12, 30)
    pos = [0] * n
    if style != "global":
        pos = [rng.choice([0, 0, 1, 2, 5]) for _ in range(n)]
    starts = list(pos)
    cols = []
    # each sequence gets a window of activity, so that leading/trailing gap runs are common
    first = [rng.randint(0, max(0, ncol // 2)) if rng.random() < 0.4 else 0 for _ in range(n)]
    last = [ncol - rng.randint(0, max(0, ncol // 2)) if rng.random() < 0.4 else ncol for _ in range(n)]
    for i in range(ncol):
        col = []
        for k in range(n):
            active = first[k] <= i < last[k]
            if active and rng.random() < 0.7:
                if style == "jumps" and rng.random() < 0.2:
                    pos[k] += rng.randint(1, 3)
                col.append(pos[k])
                pos[k] += 1
            else:
                col.append(-1)
        if all(x < 0 for x in col):
            k = rng.randrange(n)
            if style == "jumps" and rng.random() < 0.2:
                pos[k] += 1
            col[k] = pos[k]
            pos[k] += 1
        cols.append(col)
    lens = []
    for k in range(n):
        if style == "global":
            lens.append(pos[k])
        else:
            lens.append(pos[k] + rng.choice([0, 0, 1, 3]))
    return cols, lens, starts


def _rand_pair_trace(rng, style):
    """pairwise trace without double gaps, runs of I next to runs of D, terminal gaps, clipped ends"""
    r = 0 if style == "global" else rng.choice([0, 0, 1, 3, 7])
    s = 0 if style == "global" else rng.choice([0, 0, 1, 2, 4])
    cols = []
    nruns = rng.choice([0, 1, 2, 3, 4, 6])
    kinds = []
    for _ in range(nruns):
        kinds.append(rng.choice("MMMID"))
    if rng.random() < 0.3:
        kinds.insert(0, "D")
    if rng.random() < 0.3:
        kinds.append("D")
    if rng.random() < 0.15:
        kinds.insert(0, "I")
    for kd in kinds:
        for _ in range(rng.choice([1, 1, 2, 3, 5])):
            if kd == "M":
                cols.append([r, s]); r += 1; s += 1
            elif kd == "I":
                cols.append([-1, s]); s += 1
            else:
                cols.append([r, -1]); r += 1
    extra = (0, 0) if style == "global" else (rng.choice([0, 0, 2]), rng.choice([0, 0, 1, 3]))
    return cols, [r + extra[0], s + extra[1]]


def _rand_seq(rng, alph, n):
    return "".join(rng.choice(alph) for _ in range(n))


def _matrix_text(rng, k, k2=None):
    """substitution matrix rows; NOT symmetric (score() must look up matrix[code of the earlier row, code of the later row]),
    k x k2 for two different alphabets"""
    k2 = k if k2 is None else k2
    m = [[rng.randint(-4, 6) if i != j else rng.randint(1, 9) for j in range(k2)] for i in range(k)]
    return ";".join(",".join(str(x) for x in row) for row in m)


def _d_runs(cols):
    """maximal runs of deletion columns as lists of reference indices"""
    runs, cur = [], []
    for c in cols:
        if c[0] >= 0 and c[1] < 0:
            cur.append(c[0])
        else:
            if cur:
                runs.append(cur)
            cur = []
    if cur:
        runs.append(cur)
    return runs


def _intron_choices(rng, cols):
    runs = _d_runs(cols)
    out = []
    for run in runs:
        if rng.random() < 0.6:
            a = rng.randrange(len(run))
            b = rng.randrange(a, len(run))
            out.append((run[a], run[b] + 1))
    return out


def trace_cases(rng, n_cases):
    for _ in range(n_cases):
        style = rng.choice(["global", "global", "local", "local", "jumps"])
        n = rng.choice([2, 2, 2, 3, 4])
        alph = rng.choice([NUC, NUC, PROT, GEN])
        if rng.random() < 0.45:
            n = 2
            cols, lens = _rand_pair_trace(rng, "global" if style == "global" else "local")
            style = "global" if style == "global" else "local"
        elif rng.random() < 0.03:
            # rows whose length sits on the line width of FASTA files (80) and of str(alignment) (70)
            cols, lens, _ = _rand_trace(rng, n, style, ncol=rng.choice([69, 70, 71, 79, 80, 81, 140, 160, 161]))
        else:
            cols, lens, _ = _rand_trace(rng, n, style)
        strs = [_rand_seq(rng, alph[:rng.choice([2, len(alph)])], ln) for ln in lens]
        ops = [f"set {alph} {_seqs(strs)} {_tr(cols)}"]
        menu = ["strings", "codes", "symbols", "termgaps", "rmterm", "rmgaps", "ident all", "ident nt", "ident short",
                "pident all", "pident nt", "pident short", "fasta" if alph != GEN else "strings"]
        ops += rng.sample(menu, rng.randint(3, 7))
        k = len(alph)
        ops.append(f"score {_matrix_text(rng, k)} {rng.randint(-9, 0)} {rng.randint(-5, 0)} {rng.choice('01')}")
        if len(cols):
            a = rng.randint(0, len(cols))
            ops.append(f"cols {a} {rng.randint(a, len(cols))}")
        ops.append("sel " + ",".join(str(rng.randrange(n)) for _ in range(rng.choice([2, 2, 3]))))
        if rng.random() < 0.2:
            ops.append("icol " + rng.choice(["", "+", "-"]) + str(rng.randrange(max(1, len(cols)))))
        ri, si = (0, 1) if n == 2 or rng.random() < 0.5 else tuple(rng.sample(range(n), 2))
        if n == 2 and rng.random() < 0.2:
            ri, si = 1, 0
        pair = [[c[ri], c[si]] for c in cols]
        for _ in range(rng.randint(1, 4)):
            introns = _intron_choices(rng, pair) if rng.random() < 0.5 else []
            if rng.random() < 0.08:
                introns = introns + [rng.choice([(3, 3), (-1, 2), (0, 1), (2, 5)])]     # malformed / outside gaps
            opt = f"{ri} {si} {_introns(introns)} {rng.choice('01')} {rng.choice('01')} {rng.choice('01')}"
            ops.append(rng.choice(["cigar_w", "cigar_t", "cigar_rt", "cigar_rt"]) + " " + opt)
        if rng.random() < 0.35 and cols:
            # state across calls: edit the SAME Alignment object in place, then convert again
            again = [o for o in ops[1:] if o.split()[0] in ("strings", "codes", "symbols", "fasta", "termgaps", "rmgaps", "ident", "pident", "score")]
            for _ in range(rng.randint(1, 3)):
                r = rng.random()
                if r < 0.45:
                    i, k = rng.randrange(len(cols)), rng.randrange(n)
                    v = rng.choice(["-", str(rng.randrange(max(1, lens[k] + 1)))])
                    ops.append(f"tset {i} {k} {v}")
                elif r < 0.75:
                    k = rng.randrange(n)
                    ops.append(f"sset {k} {_rand_seq(rng, alph, max(1, lens[k] + rng.choice([0, 0, 1]))) }")
                else:
                    a = rng.randrange(len(cols))
                    ops.append(f"tdel {a} {min(len(cols), a + rng.randint(1, 2))}")
                ops += again if again else ["strings", "codes"]
                ops += ["strings", "symbols"]
        yield {"kind": "trace/" + style, "ops": ops, "alph": alph, "seqs": strs, "trace": cols, "style": style, "valid": True}


def history_cases(rng, n_cases):
    """oracle-level: every conversion, an in-place edit of the same Alignment, every conversion again; compared with a fresh
    Alignment of the same content; refused calls must leave the object untouched"""
    for _ in range(n_cases):
        n = rng.choice([2, 2, 3])
        alph = rng.choice([NUC, PROT])
        style = rng.choice(["global", "local"])
        if n == 2 and rng.random() < 0.6:
            cols, lens = _rand_pair_trace(rng, style)
        else:
            cols, lens, _ = _rand_trace(rng, n, style)
        if rng.random() < 0.15:
            cols = cols * rng.choice([8, 14])        # long rows: __str__ and FASTA wrap lines
            cols = _renumber(cols)
            lens = [sum(1 for c in cols if c[k] >= 0) for k in range(n)]
        strs = [_rand_seq(rng, alph[:20], ln) for ln in lens]
        edits = []
        for _ in range(rng.randint(1, 3)):
            r = rng.random()
            if r < 0.3 and cols:
                edits.append(["cell", rng.randrange(len(cols)), rng.randrange(n), rng.choice([-1, 0, 1, 2])])
            elif r < 0.45 and cols:
                a = rng.randrange(len(cols))
                edits.append(["rows", a, min(len(cols), a + rng.randint(1, 3)), rng.choice(["gapfirst", "reverse", "shift"])])
            elif r < 0.6 and cols:
                a = rng.randrange(len(cols))
                edits.append(["delrows", a, min(len(cols), a + rng.randint(1, 2))])
            elif r < 0.7:
                edits.append(["addrow", [rng.choice([-1, 0]) for _ in range(n)]])
            elif r < 0.85:
                k = rng.randrange(n)
                edits.append(["seq", k, _rand_seq(rng, alph[:20], max(1, lens[k] + rng.choice([0, 1])))])
            elif r < 0.93:
                k = rng.randrange(n)
                edits.append(["seqcode", k, rng.randrange(max(1, lens[k])), rng.randrange(4)])
            else:
                edits.append(["score", rng.choice([None, 0, 7, -3])])
        yield {"kind": "history", "alph": alph, "seqs": strs, "trace": cols, "edits": edits, "mseed": rng.randint(0, 10 ** 6)}


def spell_cases(rng, n_cases):
    """oracle-level: the same arguments in other spellings (NumPy scalars, other integer widths, F-order / strided /
    read-only traces, list / tuple / ndarray) must give the same results"""
    for _ in range(n_cases):
        alph = rng.choice([NUC, PROT])
        style = rng.choice(["global", "local"])
        cols, lens = _rand_pair_trace(rng, style)
        if not cols or not any(c[1] >= 0 for c in cols):
            cols, lens = [[0, 0], [1, -1], [2, 1]], [3, 2]
        strs = [_rand_seq(rng, alph[:20], ln) for ln in lens]
        yield {"kind": "spell", "alph": alph, "seqs": strs, "trace": cols, "mseed": rng.randint(0, 10 ** 6)}


def string_cases(rng, n_cases):
    for _ in range(n_cases):
        n = rng.choice([1, 2, 2, 3, 4])
        ln = rng.choice([0, 1, 3, 6, 10])
        strs = []
        for k in range(n):
            l2 = ln if rng.random() < 0.85 else max(0, ln + rng.choice([-2, -1, 1, 3]))
            strs.append("".join(rng.choice("ACGT--") for _ in range(l2)))
        yield {"kind": "fromstrings", "ops": ["fromstrings " + _seqs(strs)], "strs": strs}


CIGAR_BAD = ["", "M", "3", "3M4", "3Q", "3M2B", "2P1M", "03M", "3M0I2M", "1S2M1S", "1H1S2M", "2M1S3M", "10M", "1=1X1N1D1I",
             "2I", "2D", "3MM", "3M2", "5S", "5H", "2H3M2H", "M3"]


def cigar_cases(rng, n_cases):
    for _ in range(n_cases):
        if rng.random() < 0.3:
            cig = rng.choice(CIGAR_BAD)
        else:
            cig = "".join(f"{rng.choice([1, 1, 2, 3, 10, 12, 100, 200, 255])}{rng.choice('MMMIDN=XSH')}" for _ in range(rng.randint(1, 6)))
        yield {"kind": "cigar_r", "ops": [f"cigar_r {cig if cig else '_'} {rng.choice([0, 0, 1, 7])}"], "cigar": cig}


def malformed_cases(rng, n_cases):
    """outside the theorem hypotheses: out-of-range indices, double-gap columns, all-gap columns, short columns"""
    for _ in range(n_cases):
        n = rng.choice([2, 2, 3])
        cols, lens, _ = _rand_trace(rng, n, "local")
        if not cols:
            cols = [[0] * n]
            lens = [1] * n
        how = rng.choice(["range", "allgap", "short"])
        i = rng.randrange(len(cols))
        if how == "range":
            cols[i][rng.randrange(n)] = max(lens) + rng.choice([0, 1, 5])
        elif how == "allgap":
            cols[i] = [-1] * n
        else:
            lens = [max(0, ln - rng.choice([1, 2])) for ln in lens]
        strs = [_rand_seq(rng, NUC, ln) for ln in lens]
        ops = [f"set {NUC} {_seqs(strs)} {_tr(cols)}"]
        # distinguish_matches runs get_codes over *all* sequences; the model looks at the (reference, segment) pair only
        ops += rng.sample(["strings", "codes", "symbols", "termgaps", "rmterm", "rmgaps", "ident all", "pident all",
                           "cigar_w 0 1 _ 0 0 0", "cigar_w 0 1 _ 1 0 1" if n == 2 else "cigar_w 0 1 _ 0 1 1", "cigar_t 0 1 _ 0 1 1"], 4)
        yield {"kind": "malformed/" + how, "ops": ops, "valid": False}


def _rand_tree(rng, leaves, multi):
    """nested lists over the given leaves"""
    leaves = list(leaves)
    rng.shuffle(leaves)
    nodes = [x for x in leaves]
    while len(nodes) > 1:
        k = 2 if (not multi or len(nodes) < 3 or rng.random() < 0.6) else 3
        idx = sorted(rng.sample(range(len(nodes)), k), reverse=True)
        grp = [nodes.pop(i) for i in idx]
        nodes.append(grp)
    return nodes[0] if isinstance(nodes[0], list) else [nodes[0]]


def msa_cases(rng, n_cases):
    for _ in range(n_cases):
        n = rng.choice([2, 2, 3, 3, 4, 5, 6])
        kind = rng.choice(["related", "related", "identical", "unrelated"])
        alph = rng.choice(["nuc", "nuc", "prot", "gen"])
        size = {"nuc": 4, "prot": 24, "gen": 6}[alph]
        if kind == "identical":
            base = [rng.randrange(size) for _ in range(rng.randint(1, 12))]
            seqs = [list(base) for _ in range(n)]
        elif kind == "unrelated":
            seqs = [[rng.randrange(size) for _ in range(rng.randint(1, 12))] for _ in range(n)]
        else:
            base = [rng.randrange(size) for _ in range(rng.randint(3, 12))]
            seqs = []
            for _ in range(n):
                s = list(base)
                for _ in range(rng.randint(0, 3)):
                    r = rng.random()
                    if r < 0.4 and len(s) > 1:
                        del s[rng.randrange(len(s))]
                    elif r < 0.7 and len(s) < 12:
                        s.insert(rng.randint(0, len(s)), rng.randrange(size))
                    else:
                        s[rng.randrange(len(s))] = rng.randrange(size)
                seqs.append(s)
        # the very same Sequence object given two or three times (object ids; equal content is not enough)
        same = list(range(n))
        if n >= 3 and rng.random() < 0.3:
            grp = rng.sample(range(n), rng.choice([2, 2, 3]))
            for i in grp[1:]:
                same[i] = grp[0]
                seqs[i] = list(seqs[grp[0]])
            kind = "shared"
        gap = rng.choice([-10, -5, -1, -3, (-10, -1), (-5, -2), (-4, -4), (-2, -1)])
        tp = rng.random() < 0.5
        dist = None
        if kind == "unrelated" or rng.random() < 0.35:
            dist = [[0.0] * n for _ in range(n)]
            for i in range(n):
                for j in range(i):
                    dist[i][j] = dist[j][i] = rng.choice([0.25, 0.5, 1.0, 1.5, 2.0, 0.125 * rng.randint(1, 40)])
        tree = _rand_tree(rng, range(n), multi=rng.random() < 0.3) if rng.random() < 0.4 else None
        spell = None
        if rng.random() < 0.3:
            spell = {"dist": rng.choice(["f32", "f64F", "int", "strided"]) if dist is not None else None, "tp_np": rng.random() < 0.5,
                     "seqs_tuple": rng.random() < 0.5}
            if spell["dist"] == "int" and dist is not None:
                dist = [[float(round(x * 8)) for x in row] for row in dist]
                for i in range(n):
                    for j in range(n):
                        if i != j and dist[i][j] == 0:
                            dist[i][j] = 1.0
        case = {"kind": "msa/" + kind, "spell": spell, "alph": alph, "seqs": seqs, "gap": list(gap) if isinstance(gap, tuple) else gap, "tp": tp,
                "dist": dist, "tree": tree, "mseed": rng.randint(0, 10 ** 6), "same": same}
        line = _msa_line(case)
        if line is not None:
            case["ops"] = [line]
        yield case


BIG = 70000
BIG_POOL = [0, 1, 2, 32766, 32767, 32768, 32769, 65534, 65535, 65536, 65537, 65538, 69999, 4463, 255, 256]


def big_cases(rng, n_cases):
    """alphabet with 70000 symbols (uint32 codes): codes around 2**15 and 2**16, pairs that are 65536 apart"""
    for _ in range(n_cases):
        n = rng.choice([2, 2, 3])
        style = rng.choice(["global", "local"])
        if n == 2 and rng.random() < 0.6:
            cols, lens = _rand_pair_trace(rng, style)
        else:
            cols, lens, _ = _rand_trace(rng, n, style)
        base = [rng.choice(BIG_POOL) for _ in range(max(lens + [1]))]
        seqs = []
        for ln in lens:
            sq = []
            for j in range(ln):
                r = rng.random()
                c = base[j % len(base)]
                if r < 0.25:
                    c = (c + 65536) % 131072 if (c + 65536) % 131072 < BIG else c
                elif r < 0.45:
                    c = rng.choice(BIG_POOL)
                sq.append(c)
            seqs.append(sq)
        ops = [f"setc {BIG} {_codes(seqs)} {_tr(cols)}", "codes", "symcodes"]
        ops += rng.sample(["ident all", "ident nt", "ident short", "pident all", "pident short", "rmgaps", "termgaps"], 3)
        ops += [f"cigar_w 0 1 _ 1 {rng.choice('01')} {rng.choice('01')}", "cigar_rt 0 1 _ 1 0 0"]
        yield {"kind": "bigalph/" + style, "ops": ops, "codes": seqs, "trace": cols, "valid": True}


MIXED = [(NUC, AMB), (AMB, NUC), (PROT, NUC), (NUC, PROT), (GEN, "xyz"), ("xyz", GEN), (AMB, PROT), ("pq", NUC, GEN), (NUC, AMB, PROT)]


def mixed_cases(rng, n_cases):
    """rows over *different* alphabets (unambiguous read vs ambiguous reference, protein over nucleotide, custom sizes)"""
    for _ in range(n_cases):
        alphs = list(rng.choice(MIXED))
        n = len(alphs)
        style = rng.choice(["global", "local"])
        if n == 2 and rng.random() < 0.5:
            cols, lens = _rand_pair_trace(rng, style)
        else:
            cols, lens, _ = _rand_trace(rng, n, style)
        strs = []
        for a, ln in zip(alphs, lens):
            # use the high codes of the larger alphabet: they do not exist in the smaller one
            strs.append("".join(rng.choice(a[-6:] if rng.random() < 0.6 else a) for _ in range(ln)))
        ops = [f"setm {'|'.join(alphs)} {_seqs(strs)} {_tr(cols)}", "symbols", "strings", "codes"]
        ops += rng.sample(["ident all", "ident nt", "ident short", "pident all", "rmgaps", "termgaps", "rmterm"], 3)
        if n == 2 and len(alphs[0]) != len(alphs[1]):
            ops.append(f"score {_matrix_text(rng, len(alphs[0]), len(alphs[1]))} {rng.randint(-9, 0)} {rng.randint(-5, 0)} {rng.choice('01')}")
        yield {"kind": "trace/mixed", "ops": ops, "alph": alphs[0], "alphs": alphs, "seqs": strs, "trace": cols, "style": style, "valid": True}


def gapchar_cases(rng, n_cases):
    """FASTA alignment text in which some gaps are written with 1-3 additional gap characters"""
    for _ in range(n_cases):
        stype = rng.choice(["nuc", "prot"])
        sym = NUC if stype == "nuc" else PROT20
        n = rng.choice([2, 2, 3])
        cols, lens, _ = _rand_trace(rng, n, "global")
        if not cols:
            cols, lens = [[0] * n], [1] * n
        seqs = [_rand_seq(rng, sym, ln) for ln in lens]
        plain = ["".join("-" if c[k] < 0 else seqs[k][c[k]] for c in cols) for k in range(n)]
        chars = "".join(rng.sample(GAPCHARS, rng.choice([1, 2, 2, 3])))
        subst = ["".join((rng.choice(chars) if (ch == "-" and rng.random() < 0.7) else ch) for ch in row) for row in plain]
        if rng.random() < 0.1:
            chars = "-"      # no additional gap character at all
            subst = list(plain)
        import itertools as _it
        orders = ["".join(p) for p in _it.permutations(chars)]
        ops = [f"fastagaps {o} {_seqs(subst)}" for o in orders]
        if any(x == "_" for x in subst):
            ops = []         # `_` alone means the empty string in the line protocol: oracle only
        yield {"kind": "fastagaps", "ops": ops, "stype": stype, "plain": plain, "subst": subst, "chars": chars}


def _mtree_text(x):
    return "(" + ",".join(_mtree_text(y) for y in x) + ")" if isinstance(x, list) else str(x)


def tree_cases(rng, n_cases):
    """as_binary on multifurcating guide trees (also nodes with a single child)"""
    for _ in range(n_cases):
        n = rng.choice([2, 3, 4, 5, 6, 8])
        t = _rand_tree(rng, range(n), multi=True)

        def wrap(x):
            if isinstance(x, list):
                x = [wrap(y) for y in x]
                if rng.random() < 0.15:
                    return [x]
                return x
            return [x] if rng.random() < 0.1 else x
        t = wrap(t)
        if not isinstance(t, list):
            t = [t]
        yield {"kind": "asbin", "ops": ["asbin " + _mtree_text(t)], "mtree": t}


def dist_cases(rng, n_cases):
    """two sequences through the Feng-Doolittle distance of _get_distance_matrix: which outcome (finite, ZeroDivisionError,
    infinite distance, documented rejection); the quantities entering the formula are recorded from the real calls"""
    for _ in range(n_cases):
        style = rng.choice(["homopolymer", "homopolymer", "identical", "related", "unrelated", "short"])
        size = 4
        if style == "homopolymer":
            x = rng.randrange(size)
            seqs = [[x] * rng.randint(1, 8), [x] * rng.randint(1, 8)]
            if rng.random() < 0.5:
                seqs[1] = list(seqs[0])
        elif style == "identical":
            b = [rng.randrange(size) for _ in range(rng.randint(1, 8))]
            seqs = [b, list(b)]
        elif style == "short":
            seqs = [[rng.randrange(2) for _ in range(rng.randint(1, 3))] for _ in range(2)]
        elif style == "related":
            b = [rng.randrange(size) for _ in range(rng.randint(2, 10))]
            c = list(b)
            for _ in range(rng.randint(0, 2)):
                if len(c) > 1 and rng.random() < 0.5:
                    del c[rng.randrange(len(c))]
                else:
                    c[rng.randrange(len(c))] = rng.randrange(size)
            seqs = [b, c]
        else:
            seqs = [[rng.randrange(size) for _ in range(rng.randint(1, 10))] for _ in range(2)]
        gap = rng.choice([-10, -5, -1, -3, (-10, -1), (-5, -2), (-2, -1)])
        weird = rng.random() < 0.25      # off-diagonal scores above the diagonal: S can exceed S_max (hypothesis of C11_distance_defined)
        case = {"kind": "dist/" + style + ("-weird" if weird else ""), "weird": weird, "alph": "nuc", "seqs": seqs, "gap": list(gap) if isinstance(gap, tuple) else gap,
                "tp": rng.random() < 0.5, "dist": None, "tree": None, "mseed": rng.randint(0, 10 ** 6)}
        r = _run_dist(case)
        if r is not None and r.get("line"):
            case["ops"] = [r["line"]]
        yield case


def badtree_cases(rng, n_cases):
    """malformed stream: custom guide trees that miss a sequence or contain one twice (nothing validates them)"""
    for _ in range(n_cases):
        n = rng.choice([3, 4, 5])
        base = [rng.randrange(4) for _ in range(rng.randint(4, 9))]
        seqs = []
        for _ in range(n):
            sq = list(base)
            if rng.random() < 0.7:
                sq[rng.randrange(len(sq))] = rng.randrange(4)
            seqs.append(sq)
        leaves = list(range(n))
        how = rng.choice(["missing-leaf", "duplicate-leaf"])
        if how == "missing-leaf":
            leaves.pop()          # indices must stay 0..k-1 for Tree()
        else:
            leaves[rng.randrange(n - 1)] = leaves[-2] if leaves[-2] != leaves[0] else leaves[0]
            leaves = leaves[:-1] + [leaves[0]]
            if sorted(set(leaves)) != list(range(len(set(leaves)))):
                continue
        tree = _rand_tree(rng, leaves, multi=False)
        dist = [[0.0 if i == j else 0.5 + 0.25 * abs(i - j) for j in range(n)] for i in range(n)]
        yield {"kind": "msa/badtree", "alph": "nuc", "seqs": seqs, "gap": -5, "tp": True, "dist": dist, "tree": tree,
               "mseed": rng.randint(0, 10 ** 6), "badtree": how}


def fastareuse_cases(rng, n_cases):
    """set_alignment() twice (or three times) into the SAME FastaFile under the same names, with alignments whose rows wrap
    into different numbers of lines; then get_alignment() in memory and after write/read"""
    for _ in range(n_cases):
        n = rng.choice([2, 3, 4])
        alph = rng.choice([NUC, PROT20])
        alis = []
        for _ in range(rng.choice([2, 2, 3])):
            ncol = rng.choice([1, 10, 50, 79, 80, 81, 159, 160, 161, 200, 250])
            cols, lens, _ = _rand_trace(rng, n, "global", ncol=ncol)
            alis.append({"seqs": [_rand_seq(rng, alph, ln) for ln in lens], "trace": cols})
        yield {"kind": "fastareuse", "alph": alph, "alis": alis, "rename_last": rng.random() < 0.3}


def degenerate_cases(rng, n_cases):
    """audit 6: alignments with ONE sequence (reachable through alignment[:, [k]]) through every op; zero sequences oracle-only"""
    for _ in range(n_cases):
        alph = rng.choice([NUC, PROT])
        ln = rng.choice([0, 1, 2, 5])
        start = rng.choice([0, 0, 2])
        cols = [[start + i] for i in range(ln)]
        s1 = _rand_seq(rng, alph[:20], start + ln + rng.choice([0, 1]))
        ops = [f"set {alph} {s1 if s1 else '_'} {_tr(cols)}", "strings", "codes", "symbols", "termgaps", "rmterm", "rmgaps", "ident all", "ident nt",
               "ident short", "pident all", "pident nt", "pident short", f"score {_matrix_text(rng, len(alph))} -4 -1 {rng.choice('01')}",
               "fasta", "sel 0", "sel 0,0", "cigar_w 0 0 _ 0 0 0", "cigar_w 0 0 _ 1 1 1", "cols 0 1"]
        yield {"kind": "degenerate/one-sequence", "ops": ops, "alph": alph, "seqs": [s1], "trace": cols}
    yield {"kind": "degenerate/no-sequence", "ncol": 3}
    yield {"kind": "degenerate/no-sequence", "ncol": 0}
    yield {"kind": "degenerate/dash-symbol"}
    for cig in ["\u0663M", "3\u00b2M", "99999999999999999999M", "2\u0660M1I"]:
        yield {"kind": "degenerate/cigar-text", "cigar": cig}


def alph256_cases(rng, n_cases):
    """audit 6: the gap symbol of align_multiple gets the code len(alphabet); with exactly 256 symbols it does not fit the
    uint8 code of the sequences (255 and 257 symbols as controls)"""
    for _ in range(n_cases):
        k = rng.choice([255, 256, 256, 257])
        n = rng.choice([2, 3])
        base = [rng.randrange(1, 12) for _ in range(rng.randint(4, 8))]
        seqs = []
        for i in range(n):
            sq = list(base)
            if i:
                del sq[rng.randrange(len(sq))]
            if rng.random() < 0.5:
                sq.append(0)
            seqs.append(sq)
        dist = [[0.0 if i == j else 1.0 + 0.5 * abs(i - j) for j in range(n)] for i in range(n)]
        case = {"kind": "msa/alph%d" % k, "alph": "big%d" % k, "seqs": seqs, "gap": -5, "tp": True, "dist": dist, "tree": None,
                "mseed": rng.randint(0, 10 ** 6)}
        if k != 256:
            line = _msa_line(case)
            if line is not None:
                case["ops"] = [line]
        yield case


def cases(rng, tier):
    q = tier == "quick"
    yield from degenerate_cases(rng, 25 if q else 300)
    yield from alph256_cases(rng, 8 if q else 60)
    yield from fastareuse_cases(rng, 60 if q else 800)
    yield from history_cases(rng, 90 if q else 2500)
    yield from spell_cases(rng, 60 if q else 1000)
    yield from tree_cases(rng, 60 if q else 1000)
    yield from dist_cases(rng, 80 if q else 2000)
    yield from badtree_cases(rng, 6 if q else 40)
    yield from mixed_cases(rng, 150 if q else 2500)
    yield from gapchar_cases(rng, 120 if q else 2000)
    yield from big_cases(rng, 120 if q else 2000)
    yield from trace_cases(rng, 1300 if q else 30000)
    yield from string_cases(rng, 100 if q else 1500)
    yield from cigar_cases(rng, 150 if q else 2500)
    yield from malformed_cases(rng, 120 if q else 2000)
    yield from msa_cases(rng, 170 if q else 3000)


def corpus():
    return [
        {"kind": "trace/global", "alph": NUC, "seqs": ["ACGT", "AGT"], "trace": [[0, 0], [1, -1], [2, 1], [3, 2]], "style": "global", "valid": True,
         "ops": ["set ACGT ACGT;AGT 0,0;1,-;2,1;3,2", "strings", "codes", "symbols", "termgaps", "rmterm", "rmgaps", "ident all", "ident nt",
                 "ident short", "pident nt", "fasta", "cigar_w 0 1 _ 0 0 0", "cigar_w 0 1 1:2 1 1 1", "cigar_rt 0 1 1:2 1 0 0"]},
        # docstring example of cigar.py: semiglobal alignment with terminal gaps, local alignment with clipped ends
        {"kind": "trace/global", "alph": NUC, "seqs": ["TATAAAAGGTTTCCGACCGTAGGTAGCTGA", "CCCCGGTTTGACCGTATGTAG"], "style": "global", "valid": True,
         "trace": [[i, -1] for i in range(3)] + [[3 + i, i] for i in range(9)] + [[12, -1], [13, -1]] + [[14 + i, 9 + i] for i in range(12)] + [[26 + i, -1] for i in range(4)],
         "ops": ["set ACGT TATAAAAGGTTTCCGACCGTAGGTAGCTGA;CCCCGGTTTGACCGTATGTAG " +
                 _tr([[i, -1] for i in range(3)] + [[3 + i, i] for i in range(9)] + [[12, -1], [13, -1]] + [[14 + i, 9 + i] for i in range(12)] + [[26 + i, -1] for i in range(4)]),
                 "cigar_w 0 1 _ 0 0 0", "cigar_w 0 1 12:14 0 0 0", "cigar_w 0 1 _ 1 0 0", "cigar_w 0 1 _ 0 0 1", "cigar_rt 0 1 _ 0 0 1", "cigar_rt 0 1 12:14 1 1 0"]},
        {"kind": "trace/local", "alph": NUC, "seqs": ["TATAAAAGGTTTCCGACCGTAGGTAGCTGA", "CCCCGGTTTGACCGTATGTAG"], "style": "local", "valid": True,
         "trace": [[7 + i, 4 + i] for i in range(5)] + [[12, -1], [13, -1]] + [[14 + i, 9 + i] for i in range(12)],
         "ops": ["set ACGT TATAAAAGGTTTCCGACCGTAGGTAGCTGA;CCCCGGTTTGACCGTATGTAG " +
                 _tr([[7 + i, 4 + i] for i in range(5)] + [[12, -1], [13, -1]] + [[14 + i, 9 + i] for i in range(12)]),
                 "cigar_w 0 1 _ 0 0 0", "cigar_w 0 1 _ 0 1 0", "cigar_rt 0 1 _ 0 0 0", "cigar_rt 0 1 _ 1 1 1", "strings", "fasta"]},
        # empty sequences / sequences without any symbol in the alignment (get_codes, find_terminal_gaps fixes 4f7db913, 95bbe0a9)
        {"kind": "trace/global", "alph": NUC, "seqs": ["ACG", ""], "trace": [[0, -1], [1, -1], [2, -1]], "style": "global", "valid": True,
         "ops": ["set ACGT ACG;_ 0,-;1,-;2,-", "strings", "codes", "symbols", "termgaps", "rmterm", "rmgaps", "ident all", "ident nt", "ident short",
                 "pident all", "pident nt", "pident short", "score 1,0,0,0;0,1,0,0;0,0,1,0;0,0,0,1 -3 -1 1",
                 "score 1,0,0,0;0,1,0,0;0,0,1,0;0,0,0,1 -3 -1 0", "fasta", "cigar_w 0 1 _ 0 0 0", "cigar_w 1 0 _ 1 0 1", "cigar_rt 1 0 _ 0 0 0"]},
        {"kind": "trace/local", "alph": NUC, "seqs": ["ACG", "TT", ""], "trace": [[1, -1, -1], [2, 0, -1]], "style": "local", "valid": True,
         "ops": ["set ACGT ACG;TT;_ 1,-,-;2,0,-", "codes", "symbols", "termgaps", "rmterm", "ident all", "ident nt", "pident all", "pident nt",
                 "score 1,0,0,0;0,1,0,0;0,0,1,0;0,0,0,1 -2 -2 0", "sel 2,0", "strings"]},
        {"kind": "trace/global", "alph": NUC, "seqs": ["", ""], "trace": [], "style": "global", "valid": True,
         "ops": ["set ACGT _;_ _", "strings", "codes", "symbols", "termgaps", "rmterm", "rmgaps", "ident all", "ident nt", "ident short",
                 "pident all", "pident nt", "score 1,0,0,0;0,1,0,0;0,0,1,0;0,0,0,1 -3 -1 0", "fasta", "cigar_w 0 1 _ 0 0 0", "cigar_w 0 1 _ 0 0 1"]},
        {"kind": "cigar_r", "cigar": "4S5M2D12M", "ops": ["cigar_r 4S5M2D12M 7", "cigar_r 4H5M2D12M 7", "cigar_r 3D9M2D12M4D 0", "cigar_r 4X5=2D7=1X4= 3"]},
    ]


# ---------------------------------------------------------------- implementation adapter
def _mkseq(alph, s):
    import biotite.sequence as seq
    if alph == NUC:
        return seq.NucleotideSequence(s)
    if alph == AMB:
        return seq.NucleotideSequence(s, ambiguous=True)
    if alph == PROT:
        return seq.ProteinSequence(s)
    return seq.GeneralSequence(seq.Alphabet(list(alph)), list(s))


def _mkali(alph, strs, cols):
    """alph: one alphabet string for all rows, or a list with one per row"""
    import numpy as np
    from biotite.sequence.align import Alignment
    alphs = alph if isinstance(alph, list) else [alph] * len(strs)
    seqs = [_mkseq(a, s) for a, s in zip(alphs, strs)]
    if len(cols):
        trace = np.array(cols, dtype=int)
        if trace.ndim != 2:
            raise ValueError("ragged")
    else:
        trace = np.zeros((0, len(strs)), dtype=int)
    return Alignment(seqs, trace)


def _read_gapped(stype, rows, chars):
    """FASTA text with the given gapped rows -> FastaFile -> get_alignment(additional_gap_chars=chars)"""
    import io
    import warnings

    import biotite.sequence as seq
    import biotite.sequence.io.fasta as fasta
    text = "".join(f">s{i}\n{r}\n" for i, r in enumerate(rows))
    ff = fasta.FastaFile.read(io.StringIO(text))
    with warnings.catch_warnings():
        warnings.simplefilter("ignore")
        return fasta.get_alignment(ff, additional_gap_chars=chars,
                                   seq_type=seq.NucleotideSequence if stype == "nuc" else seq.ProteinSequence)


_BIG_ALPH = {}


def _mkali_big(k, seqs, cols):
    import numpy as np
    import biotite.sequence as seq
    from biotite.sequence.align import Alignment
    if k not in _BIG_ALPH:
        _BIG_ALPH[k] = seq.Alphabet(range(k))
    out = []
    for codes in seqs:
        sq = seq.GeneralSequence(_BIG_ALPH[k])
        sq.code = np.array(codes, dtype=np.int64)
        out.append(sq)
    trace = np.array(cols, dtype=int) if len(cols) else np.zeros((0, len(seqs)), dtype=int)
    return Alignment(out, trace)


def _parse_trace(s):
    if s == "_":
        return []
    return [[-1 if x == "-" else int(x) for x in col.split(",")] for col in s.split(";")]


def _parse_strs(s):
    return ["" if x == "_" else x for x in s.split(";")]


def _fmt(fn):
    try:
        return fn()
    except Exception as e:  # noqa: BLE001
        return "ERR:" + type(e).__name__


def _frac(v):
    import math
    from fractions import Fraction
    if isinstance(v, float) and math.isnan(v):
        return "nan"
    f = Fraction(float(v)).limit_denominator(100000)
    return f"{f.numerator}/{f.denominator}"


MODES = {"all": "all", "nt": "not_terminal", "short": "shortest"}


def _cigar_opts(w):
    ri, si = int(w[1]), int(w[2])
    introns = [] if w[3] == "_" else [tuple(int(x) for x in p.split(":")) for p in w[3].split(",")]
    return ri, si, introns, w[4] == "1", w[5] == "1", w[6] == "1"


def _first_ref(pair):
    for c in pair:
        if c[0] != -1:
            return int(c[0])
    return 0


def _trim(pair):
    idx = [i for i, c in enumerate(pair) if c[1] != -1]
    return pair[idx[0]: idx[-1] + 1] if idx else []


def run_impl(case):
    import warnings

    import numpy as np
    import biotite.sequence.align as align
    import biotite.sequence.io.fasta as fasta
    out = []
    ali = None
    alph = None
    for op in case["ops"]:
        w = op.split()
        if w[0] == "set":
            alph = w[1]

            def f_set():
                nonlocal ali
                ali = None
                ali = _mkali(alph, _parse_strs(w[2]), _parse_trace(w[3]))
                return "ok"
            out.append(_fmt(f_set))
        elif w[0] == "setm":
            alph = None

            def f_setm():
                nonlocal ali
                ali = None
                ali = _mkali(w[1].split("|"), _parse_strs(w[2]), _parse_trace(w[3]))
                return "ok"
            out.append(_fmt(f_setm))
        elif w[0] == "fastagaps":
            def f_fg():
                back = _read_gapped(case["stype"], _parse_strs(w[2]), tuple(c for c in w[1] if c != "-"))
                return "ok " + _seqs([str(x) for x in back.sequences]) + " | " + _tr(back.trace.tolist())
            out.append(_fmt(f_fg))
        elif w[0] == "setc":
            alph = None

            def f_setc():
                nonlocal ali
                ali = None
                ali = _mkali_big(int(w[1]), [[] if x == "_" else [int(y) for y in x.split(",")] for x in w[2].split(";")], _parse_trace(w[3]))
                return "ok"
            out.append(_fmt(f_setc))
        elif w[0] == "symcodes":
            out.append(_fmt(lambda: "ok " + ";".join(",".join("-" if x is None else str(int(x)) for x in row) if len(row) else "_" for row in align.get_symbols(ali))))
        elif w[0] == "strings":
            out.append(_fmt(lambda: "ok " + _seqs(ali.get_gapped_sequences())))
        elif w[0] == "fromstrings":
            out.append(_fmt(lambda: "ok " + _tr(align.Alignment.trace_from_strings(_parse_strs(w[1])).tolist())))
        elif w[0] == "fasta":
            def f_fasta():
                import io
                ff = fasta.FastaFile()
                fasta.set_alignment(ff, ali, [f"s{i}" for i in range(len(ali.sequences))])
                buf = io.StringIO()
                ff.write(buf)
                buf.seek(0)
                g = fasta.FastaFile.read(buf)
                with warnings.catch_warnings():
                    warnings.simplefilter("ignore")
                    st = type(ali.sequences[0]) if len(ali.sequences) else None
                    back = fasta.get_alignment(g, seq_type=st)
                return "ok " + _seqs([str(s) for s in back.sequences]) + " | " + _tr(back.trace.tolist())
            out.append(_fmt(f_fasta))
        elif w[0] == "codes":
            out.append(_fmt(lambda: "ok " + ";".join(",".join("-" if x < 0 else str(int(x)) for x in row) if len(row) else "_" for row in align.get_codes(ali))))
        elif w[0] == "symbols":
            out.append(_fmt(lambda: "ok " + ";".join("".join("-" if x is None else str(x) for x in row) if len(row) else "_" for row in align.get_symbols(ali))))
        elif w[0] == "termgaps":
            out.append(_fmt(lambda: "ok %d %d" % align.find_terminal_gaps(ali)))
        elif w[0] == "rmterm":
            out.append(_fmt(lambda: "ok " + _tr(align.remove_terminal_gaps(ali).trace.tolist())))
        elif w[0] == "rmgaps":
            out.append(_fmt(lambda: "ok " + _tr(align.remove_gaps(ali).trace.tolist())))
        elif w[0] == "sel":
            out.append(_fmt(lambda: "ok " + _tr(ali[:, [int(x) for x in w[1].split(",")]].trace.tolist())))
        elif w[0] == "cols":
            out.append(_fmt(lambda: "ok " + _tr(ali[int(w[1]):int(w[2])].trace.tolist())))
        elif w[0] == "ident":
            out.append(_fmt(lambda: "ok " + _frac(align.get_sequence_identity(ali, MODES[w[1]]))))
        elif w[0] == "pident":
            def f_pid():
                with np.errstate(all="ignore"), warnings.catch_warnings():
                    warnings.simplefilter("ignore")
                    m = np.asarray(align.get_pairwise_sequence_identity(ali, MODES[w[1]]))
                return "ok " + ";".join(",".join(_frac(float(x)) for x in row) for row in m)
            out.append(_fmt(f_pid))
        elif w[0] == "score":
            def f_score():
                import biotite.sequence as seq
                rows = [[int(x) for x in r.split(",")] for r in w[1].split(";")]
                a = ali.sequences[0].get_alphabet() if ali.sequences else seq.Alphabet(list(alph))
                a2 = ali.sequences[1].get_alphabet() if len(ali.sequences) == 2 and len(rows[0]) != len(rows) else a
                mat = align.SubstitutionMatrix(a, a2, np.array(rows, dtype=np.int32))
                return "ok %d" % int(align.score(ali, mat, (int(w[2]), int(w[3])), w[4] == "1"))
            out.append(_fmt(f_score))
        elif w[0] in ("cigar_w", "cigar_t", "cigar_rt"):
            def f_cig():
                ri, si, introns, dm, hc, itg = _cigar_opts(w)
                pair = [[int(c[ri]), int(c[si])] for c in ali.trace.tolist()]
                segidx = [c[1] for c in pair if c[1] != -1]
                r = align.write_alignment_to_cigar(ali, ri, si, introns=introns, distinguish_matches=dm, hard_clip=hc,
                                                   include_terminal_gaps=itg, as_string=(w[0] != "cigar_t"))
                if segidx and segidx[-1] + 1 > len(ali.sequences[si]):
                    return "unmodelled"
                if w[0] == "cigar_w":
                    return "ok " + r
                if w[0] == "cigar_t":
                    return "ok " + (",".join(f"{int(o)}:{int(n)}" for o, n in r) if len(r) else "_")
                written = pair if itg else _trim(pair)
                back = align.read_alignment_from_cigar(r, _first_ref(written), ali.sequences[ri], ali.sequences[si])
                return "ok " + _tr(back.trace.tolist())
            out.append(_fmt(f_cig))
        elif w[0] == "cigar_r":
            def f_read():
                import biotite.sequence as seq
                ref = seq.NucleotideSequence("A" * 60)
                back = align.read_alignment_from_cigar("" if w[1] == "_" else w[1], int(w[2]), ref, ref)
                return "ok " + _tr(back.trace.tolist())
            out.append(_fmt(f_read))
        elif w[0] == "icol":
            def f_icol():
                r = ali[np.int64(int(w[1]))] if w[1].startswith("+") else ali[int(w[1])]
                return "ok " + str(r.trace.tolist())
            out.append(_fmt(f_icol))
        elif w[0] == "tset":
            def f_tset():
                ali.trace[int(w[1]), int(w[2])] = -1 if w[3] == "-" else int(w[3])
                return "ok"
            out.append(_fmt(f_tset))
        elif w[0] == "sset":
            def f_sset():
                k = int(w[1])
                a = alph if alph is not None else None
                old_alph = "".join(str(x) for x in ali.sequences[k].get_alphabet().get_symbols())
                ali.sequences[k] = _mkseq(old_alph if a is None else a, "" if w[2] == "_" else w[2])
                return "ok"
            out.append(_fmt(f_sset))
        elif w[0] == "tdel":
            def f_tdel():
                ali.trace = np.delete(ali.trace, slice(int(w[1]), int(w[2])), axis=0)
                return "ok"
            out.append(_fmt(f_tdel))
        elif w[0] == "asbin":
            def f_asbin():
                from biotite.sequence.phylo import Tree, TreeNode, as_binary

                def build(x):
                    if isinstance(x, list):
                        ch = [build(y) for y in x]
                        return TreeNode(ch, [1.0] * len(ch))
                    return TreeNode(index=int(x))
                return "ok " + _tree_text(as_binary(Tree(build(case["mtree"]))).root)
            out.append(_fmt(f_asbin))
        elif w[0] == "dist":
            r = _run_dist(case)
            out.append("ok " + r["outcome"] if r else "CRASH")
        elif w[0] == "msa":
            r = _run_msa(case)
            if r[0] == "ok":
                ali_m, order, tree, _calls, _after = r[1]
                out.append("ok " + _tr(ali_m["trace"]) + " | " + ",".join(str(x) for x in order) + " | " + _codes(ali_m["seqs"]) + " | valid=true")
            elif r[0] == "err":
                out.append("ERR:" + r[1])
            else:
                out.append("CRASH")
        else:
            out.append("bad-op")
    return out


# ---------------------------------------------------------------- align_multiple (recorded pairwise traces)
def _msa_inputs(case):
    import numpy as np
    import biotite.sequence as seq
    import biotite.sequence.align as align
    import random
    r = random.Random(case["mseed"])
    if case["alph"] == "nuc":
        alphabet = seq.NucleotideSequence.alphabet_unamb
        mk = lambda codes: _with_code(seq.NucleotideSequence(), codes)      # noqa: E731
    elif case["alph"] == "prot":
        alphabet = seq.ProteinSequence.alphabet
        mk = lambda codes: _with_code(seq.ProteinSequence(), codes)         # noqa: E731
    elif case["alph"].startswith("big"):
        alphabet = seq.Alphabet(range(int(case["alph"][3:])))
        mk = lambda codes: _with_code(seq.GeneralSequence(alphabet), codes)  # noqa: E731
    else:
        alphabet = seq.Alphabet(list("abcdef"))
        mk = lambda codes: _with_code(seq.GeneralSequence(alphabet), codes)  # noqa: E731
    k = len(alphabet)
    m = np.zeros((k, k), dtype=np.int32)
    for i in range(k):
        for j in range(i, k):
            m[i, j] = m[j, i] = (r.randint(-4, 2) if not case.get("weird") else r.randint(-2, 12)) if i != j else r.randint(3, 9)
    matrix = align.SubstitutionMatrix(alphabet, alphabet, m)
    same = case.get("same") or list(range(len(case["seqs"])))
    objs = {}
    seqs = []
    for i, c in enumerate(case["seqs"]):
        if same[i] not in objs:
            objs[same[i]] = mk(case["seqs"][same[i]])
        seqs.append(objs[same[i]])
    gap = tuple(case["gap"]) if isinstance(case["gap"], list) else case["gap"]
    dist = None if case["dist"] is None else np.array(case["dist"], dtype=float)
    sp = case.get("spell") or {}
    if dist is not None and sp.get("dist") == "f32":
        dist = dist.astype(np.float32)
    elif dist is not None and sp.get("dist") == "f64F":
        dist = np.asfortranarray(dist)
    elif dist is not None and sp.get("dist") == "int":
        dist = dist.astype(np.int64)
    elif dist is not None and sp.get("dist") == "strided":
        big = np.zeros((2 * len(dist), 2 * len(dist)))
        big[::2, ::2] = dist
        dist = big[::2, ::2]
    if sp.get("seqs_tuple"):
        seqs = tuple(seqs)
    tree = None
    if case["tree"] is not None:
        from biotite.sequence.phylo import Tree, TreeNode

        def build(x):
            if isinstance(x, list):
                ch = [build(y) for y in x]
                return TreeNode(ch, [1.0] * len(ch))
            return TreeNode(index=int(x))
        tree = Tree(build(case["tree"]))
    return seqs, matrix, gap, dist, tree, k


def _with_code(s, codes):
    import numpy as np
    s.code = np.array(codes, dtype=np.int64)
    return s


def _tree_text(node):
    if node.is_leaf():
        return str(int(node.index))
    ch = node.children
    return "(" + ",".join(_tree_text(c) for c in ch) + ")"


def _msa_call(case):
    import biotite.sequence.align as align
    import biotite.sequence.align.multiple as M
    seqs, matrix, gap, dist, tree, k = _msa_inputs(case)
    calls = []
    orig = M.align_optimal

    def rec(*a, **kw):
        res = orig(*a, **kw)
        calls.append([[int(x), int(y)] for x, y in res[0].trace.tolist()])
        return res
    M.align_optimal = rec
    import numpy as _np
    tp = _np.bool_(case["tp"]) if (case.get("spell") or {}).get("tp_np") else case["tp"]
    try:
        ali, order, gtree, _d = align.align_multiple(seqs, matrix, gap_penalty=gap, terminal_penalty=tp, distances=dist, guide_tree=tree)
    except Exception as e:  # noqa: BLE001
        # a refused call must leave the inputs untouched
        return ("REFUSED", type(e).__name__, str(e)[:300], [[int(x) for x in q.code.tolist()] for q in seqs])
    finally:
        M.align_optimal = orig
    n_leaves = len(gtree.leaves)
    return ({"trace": ali.trace.tolist(), "seqs": [s.code.tolist() for s in ali.sequences]}, [int(x) for x in order],
            _tree_text(gtree.root), calls[len(calls) - (n_leaves - 1):] if n_leaves > 1 else [],
            [[int(x) for x in s.code.tolist()] for s in seqs])


def _dist_call(case):
    import numpy as np
    import biotite.sequence.align as align
    import biotite.sequence.align.multiple as M
    seqs, matrix, gap, _dist, _tree, k = _msa_inputs(case)
    calls = []
    orig = M.align_optimal

    def rec(*a, **kw):
        res = orig(*a, **kw)
        calls.append((int(res[0].score), res[0].trace.astype(np.int64)))
        return res
    M.align_optimal = rec
    try:
        try:
            align.align_multiple(seqs, matrix, gap_penalty=gap, terminal_penalty=case["tp"])
            outcome = "finite"
        except ZeroDivisionError:
            outcome = "zeroDivision"
        except ValueError as e:
            msg = str(e)
            outcome = ("infinite" if "contains infinity" in msg else "belowRandom" if "randomized alignment" in msg else
                       "negative" if "must be positive" in msg else "notANumber" if "must be symmetric" in msg or "NaN" in msg else "other:" + msg[:40])
    finally:
        M.align_optimal = orig
    if len(calls) < 3:
        return {"outcome": outcome, "line": None}
    (saa, _), (s, tr), (sbb, _) = calls[0], calls[1], calls[2]
    counter = getattr(M, "_count_gaps", None)
    if counter is None:       # the private helper was renamed: no quantities for the exact model (the oracle still judges the outcome)
        return {"outcome": outcome, "line": None}
    n_open, n_ext = counter(tr, case["tp"])
    sm = matrix.score_matrix()
    ca = np.bincount(np.array(case["seqs"][0], dtype=int), minlength=k)
    cb = np.bincount(np.array(case["seqs"][1], dtype=int), minlength=k)
    pair_sum = int(sum(int(sm[x, y]) * int(ca[x]) * int(cb[y]) for x in range(k) for y in range(k)))
    go, ge = (gap, gap) if isinstance(gap, int) else gap
    ln = len(tr)
    r = pair_sum + ln * (int(n_open) * go + int(n_ext) * ge)
    num, den = 2 * ln * s - 2 * r, ln * (saa + sbb) - 2 * r
    line = f"dist {s} {saa} {sbb} {pair_sum} {ln} {int(n_open)} {int(n_ext)} {go} {ge}"
    if pair_sum % ln != 0 and (num == 0 or den == 0):
        line = None        # float32 rounding of pairSum / L decides at the boundary; the exact model does not apply
    return {"outcome": outcome, "line": line, "num": num, "den": den}


_DIST_CACHE = {}


def _run_dist(case):
    from common import sandbox, util
    key = util.jdump({k: v for k, v in case.items() if k in ("alph", "seqs", "gap", "tp", "mseed", "weird")})
    if key not in _DIST_CACHE:
        import biotite.sequence.align.multiple  # noqa: F401
        import biotite.sequence.phylo  # noqa: F401
        res = sandbox.run_forked(_dist_call, case, timeout=60)
        _DIST_CACHE[key] = res[1] if res[0] == "ok" else None
    return _DIST_CACHE[key]


_MSA_CACHE = {}


def _run_msa(case):
    from common import sandbox, util
    key = util.jdump({k: v for k, v in case.items() if k in ("alph", "seqs", "gap", "tp", "dist", "tree", "mseed", "same", "spell", "weird")})
    if key not in _MSA_CACHE:
        import biotite.sequence.align.multiple  # noqa: F401  (import in the parent: the forked child must not pay for it)
        import biotite.sequence.phylo  # noqa: F401
        res = sandbox.run_forked(_msa_call, case, timeout=60)
        if res[0] == "ok" and res[1][0] == "REFUSED":
            _MSA_CACHE[key] = ("err", res[1][1], res[1][2], res[1][3])
        elif res[0] == "ok":
            _MSA_CACHE[key] = ("ok", res[1])
        elif res[0] == "err":
            _MSA_CACHE[key] = ("err", res[1], res[2])
        else:
            _MSA_CACHE[key] = ("crash",)
    return _MSA_CACHE[key]


def _msa_line(case):
    r = _run_msa(case)
    if r[0] != "ok":
        return None
    _ali, _order, tree, calls, _after = r[1]
    k = int(case["alph"][3:]) if case["alph"].startswith("big") else {"nuc": 4, "prot": 24, "gen": 6}[case["alph"]]
    return f"msa {k} {_codes(case['seqs'])} {tree} " + ("|".join(_tr(c) for c in calls) if calls else "_")


# ---------------------------------------------------------------- property oracle (independent of the model)
def _is_valid(cols, n=None):
    """strictly increasing indices per sequence, no all-gap column, rectangular"""
    last = {}
    for col in cols:
        if n is not None and len(col) != n:
            return False
        if all(x < 0 for x in col):
            return False
        for k, x in enumerate(col):
            if x < -1:
                return False
            if x >= 0:
                if k in last and x <= last[k]:
                    return False
                last[k] = x
    return True


def _renumber(cols):
    cnt = {}
    out = []
    for col in cols:
        new = []
        for k, x in enumerate(col):
            if x < 0:
                new.append(-1)
            else:
                new.append(cnt.get(k, 0))
                cnt[k] = cnt.get(k, 0) + 1
        out.append(new)
    return out


def _contig(cols, k):
    idx = [c[k] for c in cols if c[k] >= 0]
    return all(b == a + 1 for a, b in zip(idx, idx[1:]))


def oracle(case):
    kind = case.get("kind", "")
    if kind.startswith("trace/") and case.get("valid"):
        return _oracle_trace(case)
    if kind.startswith("bigalph/"):
        return _oracle_big(case)
    if kind == "fastagaps":
        return _oracle_gapchars(case)
    if kind.startswith("degenerate/"):
        return _oracle_degenerate(case)
    if kind.startswith("malformed/"):
        return _oracle_malformed(case)
    if kind == "fastareuse":
        return _oracle_fastareuse(case)
    if kind == "history":
        return _oracle_history(case)
    if kind == "spell":
        return _oracle_spell(case)
    if kind == "asbin":
        return _oracle_asbin(case)
    if kind.startswith("dist/"):
        return _oracle_dist(case)
    if kind.startswith("msa/"):
        return _oracle_msa(case)
    if kind == "fromstrings":
        return _oracle_fromstrings(case)
    if kind == "cigar_r":
        return _oracle_cigar_read(case)
    return []


def _oracle_gapchars(case):
    """reading a text whose gaps are written with additional gap characters = reading the plain '-' text, in every order"""
    import itertools as _it
    v = []
    try:
        ref = _read_gapped(case["stype"], case["plain"], ())
    except Exception as e:  # noqa: BLE001
        return [("C11/fasta/plain-text-rejected", f"{case['plain']}: {type(e).__name__}: {e}")]
    want = ([str(x) for x in ref.sequences], ref.trace.tolist())
    chars = [c for c in case["chars"] if c != "-"]
    # seq_type=None: the type is detected from the text; text and trace must be the same
    try:
        import io
        import warnings
        import biotite.sequence.io.fasta as fasta
        ff = fasta.FastaFile.read(io.StringIO("".join(f">s{i}\n{r}\n" for i, r in enumerate(case["subst"]))))
        with warnings.catch_warnings():
            warnings.simplefilter("ignore")
            auto = fasta.get_alignment(ff, additional_gap_chars=tuple(chars))
        if ([str(x) for x in auto.sequences], auto.trace.tolist()) != want:
            v.append(("C11/fasta/auto-seq-type", f"{case['subst']} read with seq_type=None -> {[str(x) for x in auto.sequences]} {auto.trace.tolist()}, expected {want}"))
    except Exception as e:  # noqa: BLE001
        v.append(("C11/fasta/auto-seq-type/rejected", f"{case['subst']} read with seq_type=None: {type(e).__name__}: {e}"))
    try:
        import io
        import warnings
        import biotite.sequence as seq
        import biotite.sequence.io.fasta as fasta
        text = ""
        for i, row in enumerate(case["subst"]):
            half = len(row) // 2
            text += f">s{i}\n{row[:half]}\n; a comment line\n  ; an indented comment line\n\t;tab\n{row[half:]}\n"
        ffc = fasta.FastaFile.read(io.StringIO(text))
        with warnings.catch_warnings():
            warnings.simplefilter("ignore")
            ac = fasta.get_alignment(ffc, additional_gap_chars=tuple(chars), seq_type=seq.NucleotideSequence if case["stype"] == "nuc" else seq.ProteinSequence)
        if ([str(x) for x in ac.sequences], ac.trace.tolist()) != want:
            v.append(("C11/fasta/comment-lines", f"{case['subst']} with ';' comment lines (plain, indented) between the row halves -> "
                      f"{[str(x) for x in ac.sequences]} {ac.trace.tolist()}, expected {want}"))
    except Exception as e:  # noqa: BLE001
        v.append(("C11/fasta/comment-lines/rejected", f"{case['subst']} with ';' comment lines: {type(e).__name__}: {e}"))
    for perm in _it.permutations(chars):
        try:
            got = _read_gapped(case["stype"], case["subst"], tuple(perm))
        except Exception as e:  # noqa: BLE001
            v.append((f"C11/fasta/gap-chars/rejected/{len(chars)}-chars", f"{case['subst']} additional_gap_chars={perm}: {type(e).__name__}: {e}"))
            continue
        if ([str(x) for x in got.sequences], got.trace.tolist()) != want:
            v.append((f"C11/fasta/gap-chars/{len(chars)}-chars", f"{case['subst']} additional_gap_chars={perm} -> {[str(x) for x in got.sequences]} "
                      f"{got.trace.tolist()}, plain text gives {want}"))
    return v


def _oracle_big(case):
    """get_codes / get_symbols / identity / '=' 'X' equal a column-by-column recomputation whatever the code dtype"""
    import warnings

    import numpy as np
    import biotite.sequence.align as align
    seqs, cols = case["codes"], case["trace"]
    n, ncol = len(seqs), len(cols)
    ali = _mkali_big(BIG, seqs, cols)
    v = []
    exp = [[-1 if c[k] < 0 else seqs[k][c[k]] for c in cols] for k in range(n)]
    got = align.get_codes(ali).tolist()
    if got != exp:
        v.append(("C11/codes/matrix/large-alphabet", f"{cols} {seqs} -> {got}, expected {exp}"))
    try:
        sy = [[None if x is None else int(x) for x in row] for row in align.get_symbols(ali)]
    except Exception as e:  # noqa: BLE001
        sy = type(e).__name__
    if sy != [[None if x < 0 else x for x in row] for row in exp]:
        v.append(("C11/symbols/matrix/large-alphabet", f"{cols} {seqs} -> {sy}"))
    nmatch = sum(1 for i in range(ncol) if all(x >= 0 for x in cols[i]) and len({exp[k][i] for k in range(n)}) == 1)
    if ncol:
        got_id = align.get_sequence_identity(ali, "all")
        if abs(got_id - nmatch / ncol) > 1e-9:
            v.append(("C11/helpers/identity/all/large-alphabet", f"{cols} {seqs} -> {got_id}, expected {nmatch}/{ncol}"))
        with np.errstate(all="ignore"), warnings.catch_warnings():
            warnings.simplefilter("ignore")
            pid = np.asarray(align.get_pairwise_sequence_identity(ali, "all"))
        for a in range(n):
            for b in range(n):
                m = sum(1 for i in range(ncol) if cols[i][a] >= 0 and cols[i][b] >= 0 and exp[a][i] == exp[b][i])
                if abs(float(pid[a][b]) - m / ncol) > 1e-9:
                    v.append(("C11/helpers/pairwise-identity/all/large-alphabet", f"{cols} {seqs} [{a},{b}] -> {pid.tolist()}"))
                    break
    pair = [[c[0], c[1]] for c in cols]
    if pair and not any(c[0] < 0 and c[1] < 0 for c in pair) and any(c[1] >= 0 for c in pair) and _contig(pair, 0) and _contig(pair, 1):
        try:
            cig = align.write_alignment_to_cigar(ali, 0, 1, distinguish_matches=True, include_terminal_gaps=True)
        except Exception as e:  # noqa: BLE001
            cig = type(e).__name__
        import re
        body = "".join(b * int(a) for a, b in re.findall(r"(\d+)([MIDN=X])", cig))
        want = "".join("I" if c[0] < 0 else "D" if c[1] < 0 else ("=" if seqs[0][c[0]] == seqs[1][c[1]] else "X") for c in pair)
        if body != want:
            v.append(("C11/cigar/write/columns/large-alphabet", f"{pair} {seqs} -> {cig!r}, expected columns {want}"))
    return v


def _oracle_fromstrings(case):
    """a parsed alignment has a valid trace (unless a column is all gaps in the text, which the text format cannot forbid)"""
    from biotite.sequence.align import Alignment
    strs = case["strs"]
    wellformed = len(strs) >= 2 and all(len(x) >= len(strs[0]) for x in strs)
    try:
        t = Alignment.trace_from_strings(strs).tolist()
    except (ValueError, IndexError) as e:
        # documented refusals only: fewer than two strings (ValueError), a later string shorter than the first (IndexError)
        if wellformed:
            return [("C11/trace_from_strings/well-formed-input-rejected", f"{strs}: {type(e).__name__}: {e}")]
        if (len(strs) < 2) != isinstance(e, ValueError):
            return [("C11/trace_from_strings/wrong-refusal", f"{strs}: {type(e).__name__}: {e}")]
        return []
    if not wellformed:
        return [("C11/trace_from_strings/malformed-input-accepted", f"{strs} -> {t}")]
    v = []
    n = len(strs)
    for k in range(n):
        idx = [c[k] for c in t if c[k] >= 0]
        if idx != list(range(len(idx))):
            v.append(("C11/trace_from_strings/indices-not-consecutive", f"{strs} -> {t}"))
            break
        pattern = [c[k] >= 0 for c in t]
        if pattern != [ch != "-" for ch in strs[k][:len(t)]]:
            v.append(("C11/trace_from_strings/gap-pattern", f"{strs} -> {t}"))
            break
    return v


def _oracle_cigar_read(case):
    """every alignment parsed from a CIGAR string has a valid, contiguous trace starting at `position`"""
    import re

    import biotite.sequence as seq
    import biotite.sequence.align as align
    ref = seq.NucleotideSequence("A" * 60)
    v = []
    for op in case["ops"]:
        w = op.split()
        cig = "" if w[1] == "_" else w[1]
        toks0 = re.findall(r"(\d+)([MIDNSHP=XB])", cig)
        well = "".join(a + b for a, b in toks0) == cig
        supported = well and all(b in "MIDNSH=X" for _, b in toks0)
        try:
            t = align.read_alignment_from_cigar(cig, int(w[2]), ref, ref).trace.tolist()
        except (ValueError, KeyError) as e:
            # allowed refusals: unknown operation letter (KeyError), missing count or P/B operation (ValueError)
            if supported:
                v.append(("C11/cigar/read/well-formed-cigar-rejected", f"{cig!r}: {type(e).__name__}: {e}"))
            continue
        if well and not supported:
            v.append(("C11/cigar/read/unsupported-operation-accepted", f"{cig!r} -> {t}"))
            continue
        toks = re.findall(r"(\d+)([MIDNSHP=XB])", cig)
        if "".join(a + b for a, b in toks) == cig and toks:
            codes = [(BAM[b], int(a)) for a, b in toks]
            try:
                t2 = align.read_alignment_from_cigar(codes, int(w[2]), ref, ref).trace.tolist()
            except Exception as e:  # noqa: BLE001
                t2 = type(e).__name__
            if t2 != t:
                v.append(("C11/cigar/read/bam-op-codes", f"{cig!r} at {w[2]} -> {t}, but as BAM (op code, length) tuples {codes} -> {t2}"))
            # the same tuples as a compact integer array (what a BAM parser yields), at reference offsets beyond that dtype's range:
            # positions and row counters must not take the narrow dtype of the op array (NEP 50 scalar promotion)
            import numpy as np
            for dt in (np.uint8, np.uint16, np.int8, np.int16, np.uint32, np.int32):
                if any(c > np.iinfo(dt).max for _, c in codes):
                    continue
                arr = np.array(codes, dtype=dt)
                for pos in (int(w[2]), 250, 300, 40000, 65400, 70000, 2 ** 31 - 5, 2 ** 32 + 7):
                    try:
                        want = align.read_alignment_from_cigar(cig, pos, ref, ref).trace.tolist()
                    except Exception:  # noqa: BLE001
                        continue
                    try:
                        got = align.read_alignment_from_cigar(arr, pos, ref, ref).trace.tolist()
                    except Exception as e:  # noqa: BLE001
                        got = "ERR:" + type(e).__name__
                    if got != want:
                        v.append((f"C11/cigar/read/narrow-dtype-op-array/{np.dtype(dt).name}",
                                  f"{cig!r} as {np.dtype(dt).name} (op, length) array at position {pos} -> {str(got)[:120]}, the string gives {str(want)[:120]}"))
                        break
                else:
                    continue
                break
        if not _is_valid(t, 2) and t:
            v.append(("C11/cigar/read/invalid-trace", f"{cig!r} at {w[2]} -> {t}"))
        elif t and not re.search(r"[SH]", re.sub(r"^(\d+H)?(\d+S)?|(\d+S)?(\d+H)?$", "", cig)) and not (_contig(t, 0) and _contig(t, 1)):
            v.append(("C11/cigar/read/not-contiguous", f"{cig!r} at {w[2]} -> {t}"))
        elif t and [c[0] for c in t if c[0] >= 0][:1] not in ([], [int(w[2])]):
            v.append(("C11/cigar/read/position", f"{cig!r} at {w[2]} -> {t}"))
    return v


def _oracle_trace(case):
    import warnings

    import numpy as np
    import biotite.sequence.align as align
    import biotite.sequence.io.fasta as fasta
    alph, strs, cols = case["alph"], case["seqs"], case["trace"]
    n = len(strs)
    v = []
    alphs = case.get("alphs") or [alph] * n
    mixed = len(set(alphs)) > 1
    ali = _mkali(list(alphs), strs, cols)
    seq_codes = [[alphs[k].index(ch) for ch in s] for k, s in enumerate(strs)]
    ncol = len(cols)
    renum = _renumber(cols)
    covered = [[c[k] for c in cols if c[k] >= 0] for k in range(n)]

    # --- gapped strings and back
    gs = ali.get_gapped_sequences()
    exp_gs = ["".join("-" if c[k] < 0 else strs[k][c[k]] for c in cols) for k in range(n)]
    if gs != exp_gs:
        v.append(("C11/strings/gapped-sequences", f"{cols} {strs} -> {gs}"))
    if n >= 1:
        chunks = [[g[i:i + 70] for i in range(0, len(g), 70)] for g in exp_gs]
        exp_str = "\n\n".join("\n".join(chunks[k][b] for k in range(n)) for b in range(len(chunks[0])))
        if str(ali) != exp_str:
            v.append(("C11/strings/__str__", f"{cols} {strs} -> {str(ali)!r}, expected {exp_str!r}"))
    if len(ali) != ncol or not (ali == _mkali(list(alphs), strs, cols)):
        v.append(("C11/alignment/len-or-eq", f"{cols} {strs}: len {len(ali)}, equal to an identical alignment: {ali == _mkali(list(alphs), strs, cols)}"))
    for ix in ([0, -1, np.int64(0), np.uint8(0)] if ncol else [0]):
        try:
            r1 = ali[ix]
            v.append(("C11/alignment/integer-index-accepted", f"{cols}: alignment[{ix!r}] returned an Alignment with trace {r1.trace.tolist()}"))
            break
        except IndexError:
            pass
    try:
        iter(ali)
        v.append(("C11/alignment/iterable", f"iter(alignment) did not raise"))
    except TypeError:
        pass
    back = align.Alignment.trace_from_strings(gs).tolist() if n >= 2 else None
    if back is not None and back != renum:
        v.append(("C11/strings/roundtrip", f"{cols} -> {gs} -> {back}"))
    # --- codes / symbols
    codes = align.get_codes(ali).tolist()
    exp_codes = [[-1 if c[k] < 0 else seq_codes[k][c[k]] for c in cols] for k in range(n)]
    if codes != exp_codes:
        v.append(("C11/codes/matrix", f"{cols} {strs} -> {codes}"))
    try:
        syms = [list(r) for r in align.get_symbols(ali)]
    except Exception as e:  # noqa: BLE001
        syms = type(e).__name__
    exp_syms = [[None if c[k] < 0 else strs[k][c[k]] for c in cols] for k in range(n)]
    if syms != exp_syms:
        v.append(("C11/symbols/matrix" + ("/mixed-alphabets" if mixed else ""), f"{cols} {strs} {alphs if mixed else ''} -> {syms}"))
    # --- FASTA
    if alph in (NUC, PROT) and n >= 2 and not mixed:
        import io
        ff = fasta.FastaFile()
        try:
            fasta.set_alignment(ff, ali, [f"seq{i}" for i in range(n - 1)])
            v.append(("C11/fasta/set_alignment/name-count-accepted", f"{n} sequences, {n - 1} names accepted"))
        except ValueError:
            if len(ff) != 0:
                v.append(("C11/fasta/set_alignment/refused-call-wrote-entries", f"{n} sequences, {n - 1} names: file has {len(ff)} entries"))
        fasta.set_alignment(ff, ali, tuple(f"seq{i}" for i in range(n)))
        buf = io.StringIO()
        ff.write(buf)
        buf.seek(0)
        with warnings.catch_warnings():
            warnings.simplefilter("ignore")
            b2 = fasta.get_alignment(fasta.FastaFile.read(buf), seq_type=type(ali.sequences[0]))
        exp_seqs = ["".join(strs[k][j] for j in covered[k]) for k in range(n)]
        if b2.trace.tolist() != renum or [str(s) for s in b2.sequences] != exp_seqs:
            v.append(("C11/fasta/roundtrip", f"{cols} {strs} -> {[str(s) for s in b2.sequences]} {b2.trace.tolist()}"))
    # --- terminal gaps, gap removal
    begun = [all(any(cols[j][k] >= 0 for j in range(i + 1)) for k in range(n)) for i in range(ncol)]
    alive = [all(any(cols[j][k] >= 0 for j in range(i, ncol)) for k in range(n)) for i in range(ncol)]
    start = begun.index(True) if True in begun else ncol
    stop = (ncol - alive[::-1].index(True)) if True in alive else 0
    tg = align.find_terminal_gaps(ali)
    if tuple(tg) != (start, stop):
        v.append(("C11/helpers/find_terminal_gaps", f"{cols} -> {tg}, expected {(start, stop)}"))
    try:
        rt = align.remove_terminal_gaps(ali).trace.tolist()
        if stop < start or rt != cols[start:stop] or not _is_valid(rt, n):
            v.append(("C11/helpers/remove_terminal_gaps", f"{cols} -> {rt}"))
    except ValueError:
        if stop >= start:
            v.append(("C11/helpers/remove_terminal_gaps/rejected", f"{cols} rejected although [{start},{stop}) is not empty"))
    rg = align.remove_gaps(ali).trace.tolist()
    if rg != [c for c in cols if all(x >= 0 for x in c)]:
        v.append(("C11/helpers/remove_gaps", f"{cols} -> {rg}"))
    # --- identity
    nmatch = sum(1 for i in range(ncol) if all(x >= 0 for x in cols[i]) and len({exp_codes[k][i] for k in range(n)}) == 1)
    lens = {"all": ncol, "not_terminal": stop - start, "shortest": min(len(s) for s in strs)}
    for mode, ln in lens.items():
        try:
            got = align.get_sequence_identity(ali, mode)
            if ln <= 0 or abs(got - nmatch / ln) > 1e-9:
                v.append((f"C11/helpers/identity/{mode}", f"{cols} {strs} -> {got}, expected {nmatch}/{ln}"))
        except (ValueError, ZeroDivisionError):
            if ln > 0:
                v.append((f"C11/helpers/identity/{mode}/rejected", f"{cols} {strs}: rejected, expected {nmatch}/{ln}"))
    for mode in lens:
        exp = [[None] * n for _ in range(n)]
        ok = True
        for a in range(n):
            for b in range(n):
                m = sum(1 for i in range(ncol) if cols[i][a] >= 0 and cols[i][b] >= 0 and exp_codes[a][i] == exp_codes[b][i])
                if mode == "all":
                    ln = ncol
                elif mode == "shortest":
                    ln = min(len(strs[a]), len(strs[b]))
                else:
                    ia = [i for i in range(ncol) if cols[i][a] >= 0]
                    ib = [i for i in range(ncol) if cols[i][b] >= 0]
                    ln = (min(ia[-1], ib[-1]) + 1 - max(ia[0], ib[0])) if ia and ib else 0
                    if ln <= 0:
                        ok = False
                exp[a][b] = (m, ln)
        try:
            with np.errstate(all="ignore"), warnings.catch_warnings():
                warnings.simplefilter("ignore")
                got = np.asarray(align.get_pairwise_sequence_identity(ali, mode))
            if not ok:
                v.append((f"C11/helpers/pairwise-identity/{mode}/no-overlap-accepted", f"{cols}"))
            else:
                for a in range(n):
                    for b in range(n):
                        m, ln = exp[a][b]
                        if ln > 0 and abs(float(np.broadcast_to(got, (n, n))[a][b]) - m / ln) > 1e-9:
                            v.append((f"C11/helpers/pairwise-identity/{mode}", f"{cols} {strs} [{a},{b}] -> {got.tolist()}, expected {m}/{ln}"))
                            break
        except ValueError:
            if ok:
                v.append((f"C11/helpers/pairwise-identity/{mode}/rejected", f"{cols} {strs}"))
    # --- score: pair sums + gap runs
    for op in case.get("ops", []):
        w = op.split()
        if w[0] != "score":
            continue
        rows = [[int(x) for x in r.split(",")] for r in w[1].split(";")]
        go, ge, tp = int(w[2]), int(w[3]), w[4] == "1"
        a0 = ali.sequences[0].get_alphabet()
        a1 = ali.sequences[1].get_alphabet() if n == 2 and len(rows[0]) != len(rows) else a0
        mat = align.SubstitutionMatrix(a0, a1, np.array(rows, dtype=np.int32))
        exp = 0
        for i in range(ncol):
            for a in range(n):
                for b in range(a + 1, n):
                    if cols[i][a] >= 0 and cols[i][b] >= 0:
                        exp += rows[exp_codes[a][i]][exp_codes[b][i]]
        lo, hi = (0, ncol) if tp else (start, stop)
        for k in range(n):
            run = 0
            for i in range(lo, hi):
                if cols[i][k] < 0:
                    exp += ge if run else go
                    run += 1
                else:
                    run = 0
        try:
            got = align.score(ali, mat, (go, ge), tp)
        except Exception as e:  # noqa: BLE001
            v.append(("C11/helpers/score/rejected", f"{cols} {strs} matrix {len(rows)}x{len(rows[0])}: {type(e).__name__}: {e}"))
            continue
        if int(got) != exp:
            v.append(("C11/helpers/score", f"{cols} {strs} gap=({go},{ge}) tp={tp} -> {got}, expected {exp}"))
    # --- CIGAR: every option combination on every (reference, segment) pair that is a pairwise trace
    if mixed:
        return v        # '='/'X' compare codes of different alphabets there; not part of the mixed stream
    for ri, si in ([(0, 1), (1, 0)] if n == 2 else [(0, 1), (n - 1, 0)]):
        pair = [[c[ri], c[si]] for c in cols]
        if any(c[0] < 0 and c[1] < 0 for c in pair) or not any(c[1] >= 0 for c in pair):
            # outside the writer's domain (C11_cigar_accept): it must refuse, with IndexError (no aligned segment base) or ValueError
            for itg in (False, True):
                try:
                    cg = align.write_alignment_to_cigar(ali, ri, si, include_terminal_gaps=itg)
                    if any(c[0] < 0 and c[1] < 0 for c in (pair if itg else _trim(pair))) or not any(c[1] >= 0 for c in pair):
                        v.append(("C11/cigar/write/unwritable-trace-accepted", f"{pair} include_terminal_gaps={itg} -> {cg!r}"))
                except (ValueError, IndexError):
                    pass
            continue
        if not (_contig(pair, 0) and _contig(pair, 1)):
            # skipped positions cannot be written as a CIGAR: the written part must be refused, not written as matches
            wr = _trim(pair)
            if not (_contig(wr, 0) and _contig(wr, 1)):
                try:
                    cig = align.write_alignment_to_cigar(ali, ri, si)
                    v.append(("C11/cigar/write/skipped-positions-accepted", f"{pair} -> {cig!r}, which reads back as a different alignment"))
                except ValueError:
                    pass
            continue
        v += _oracle_cigar(case, ali, ri, si, pair, strs)
    return v


def _oracle_cigar(case, ali, ri, si, pair, strs):
    import re

    import biotite.sequence.align as align
    v = []
    trimmed = _trim(pair)
    segidx = [c[1] for c in pair if c[1] >= 0]
    start_clip, end_clip = segidx[0], len(strs[si]) - segidx[-1] - 1
    runs = _d_runs(trimmed)
    intron_sets = [[]]
    if runs:
        intron_sets.append([(r[0], r[-1] + 1) for r in runs[:2]])
        if len(runs[0]) > 1:
            intron_sets.append([(runs[0][0] + 1, runs[0][-1] + 1)])
    for introns, dm, hc, itg in itertools.product(intron_sets, (False, True), (False, True), (False, True)):
        tag = f"hc{int(hc)}-dm{int(dm)}-itg{int(itg)}-introns{int(bool(introns))}"
        written = pair if itg else trimmed
        try:
            cig = align.write_alignment_to_cigar(ali, ri, si, introns=introns, distinguish_matches=dm, hard_clip=hc, include_terminal_gaps=itg)
            tup = align.write_alignment_to_cigar(ali, ri, si, introns=introns, distinguish_matches=dm, hard_clip=hc, include_terminal_gaps=itg,
                                                 as_string=False)
        except Exception as e:  # noqa: BLE001
            v.append((f"C11/cigar/write/rejected/{tag}", f"{pair} introns={introns}: {type(e).__name__}: {e}"))
            continue
        toks = re.findall(r"(\d+)([MIDNSHP=XB])", cig)
        if "".join(a + b for a, b in toks) != cig or any(int(a) <= 0 for a, _ in toks):
            v.append((f"C11/cigar/write/malformed-string/{tag}", f"{pair} -> {cig!r}"))
            continue
        if any(x[1] == y[1] for x, y in zip(toks, toks[1:])):
            v.append((f"C11/cigar/write/not-aggregated/{tag}", f"{pair} -> {cig!r}"))
        if [(BAM[b], int(a)) for a, b in toks] != [(int(o), int(c)) for o, c in tup]:
            v.append((f"C11/cigar/write/bam-op-codes/{tag}", f"{pair} -> {cig!r} but as BAM (op code, length) tuples {[(int(o), int(c)) for o, c in tup]}"))
        letters = {b for _, b in toks}
        if (dm and "M" in letters) or (not dm and letters & {"=", "X"}) or (not introns and "N" in letters) or \
                (letters & ({"S"} if hc else {"H"})) or letters & {"P", "B"}:
            v.append((f"C11/cigar/write/wrong-ops/{tag}", f"{pair} introns={introns} -> {cig!r}"))
        clip = "H" if hc else "S"
        exp_head = [(str(start_clip), clip)] if start_clip else []
        exp_tail = [(str(end_clip), clip)] if end_clip else []
        body = toks[len(exp_head):len(toks) - len(exp_tail)]
        if toks[:len(exp_head)] != exp_head or (exp_tail and toks[-1:] != exp_tail) or any(b in "SH" for _, b in body):
            v.append((f"C11/cigar/write/clipping/{tag}", f"{pair} seglen={len(strs[si])} -> {cig!r}"))
        # column-by-column expansion of the body
        exp_ops = []
        for c in written:
            if c[0] < 0:
                exp_ops.append("I")
            elif c[1] < 0:
                exp_ops.append("N" if any(a <= c[0] < b for a, b in introns) else "D")
            elif dm:
                exp_ops.append("=" if strs[ri][c[0]] == strs[si][c[1]] else "X")
            else:
                exp_ops.append("M")
        if "".join(b * int(a) for a, b in body) != "".join(exp_ops):
            v.append((f"C11/cigar/write/columns/{tag}", f"{pair} introns={introns} -> {cig!r}, expected columns {''.join(exp_ops)}"))
        # and back
        pos = _first_ref(written)
        seg = ali.sequences[si]
        shift = 0
        if hc:
            seg = seg[start_clip: len(seg) - end_clip]
            shift = start_clip
        expected = [[c[0], c[1] - shift if c[1] >= 0 else -1] for c in written]
        for form, src in (("string", cig), ("tuples", tup), ("bam-codes", [(BAM[b], int(a)) for a, b in toks])):
            try:
                back = align.read_alignment_from_cigar(src, pos, ali.sequences[ri], seg)
            except Exception as e:  # noqa: BLE001
                v.append((f"C11/cigar/roundtrip/{form}/read-rejected/{tag}", f"{pair} -> {cig!r}: {type(e).__name__}"))
                continue
            if back.trace.tolist() != expected:
                v.append((f"C11/cigar/roundtrip/{form}/{tag}", f"{pair} seglen={len(strs[si])} -> {cig!r} at {pos} -> {back.trace.tolist()}, expected {expected}"))
            elif back.sequences[0] != ali.sequences[ri] or back.sequences[1] != seg:
                v.append((f"C11/cigar/roundtrip/{form}/sequences/{tag}", f"{pair} -> {cig!r}"))
    return v


def _flatten(x):
    if isinstance(x, list):
        out = []
        for y in x:
            out += _flatten(y)
        return out
    return [x]


def _leaves_text(t):
    import re
    return [int(x) for x in re.findall(r"\d+", t)]


def _canon(x):
    import numpy as np
    if isinstance(x, np.ndarray):
        return ("nd", x.shape, _canon(x.tolist()))
    if isinstance(x, float):
        return "nan" if x != x else round(x, 12)
    if isinstance(x, (list, tuple)):
        return [_canon(y) for y in x]
    if hasattr(x, "trace") and hasattr(x, "sequences"):
        return ("ali", [str(q) for q in x.sequences], x.trace.tolist(), x.score)
    if isinstance(x, (np.integer,)):
        return int(x)
    if isinstance(x, (np.floating,)):
        return _canon(float(x))
    return x


def _battery(ali, seed):
    """every conversion / helper the property talks about, on one Alignment object: {name: canonical result | ERR:class}"""
    import io
    import random
    import warnings

    import numpy as np
    import biotite.sequence.align as align
    import biotite.sequence.io.fasta as fasta
    r = random.Random(seed)
    n = len(ali.sequences)
    a0 = ali.sequences[0].get_alphabet()
    k = len(a0)
    m = np.zeros((k, k), dtype=np.int32)
    for i in range(k):
        for j in range(k):
            m[i, j] = r.randint(-4, 6)          # not symmetric
    matrix = align.SubstitutionMatrix(a0, a0, m)

    def fasta_text():
        ff = fasta.FastaFile()
        fasta.set_alignment(ff, ali, [f"s{i}" for i in range(n)])
        buf = io.StringIO()
        ff.write(buf)
        return buf.getvalue()
    ncol = len(ali.trace)
    calls = {
        "gapped": lambda: ali.get_gapped_sequences(),
        "str": lambda: str(ali),
        "len": lambda: len(ali),
        "codes": lambda: align.get_codes(ali),
        "symbols": lambda: align.get_symbols(ali),
        "termgaps": lambda: align.find_terminal_gaps(ali),
        "rmterm": lambda: align.remove_terminal_gaps(ali),
        "rmgaps": lambda: align.remove_gaps(ali),
        "ident": lambda: [align.get_sequence_identity(ali, md) for md in ("all",)],
        "ident_nt": lambda: align.get_sequence_identity(ali),
        "ident_short": lambda: align.get_sequence_identity(ali, "shortest"),
        "pident": lambda: align.get_pairwise_sequence_identity(ali, "all"),
        "pident_nt": lambda: align.get_pairwise_sequence_identity(ali),
        "pident_short": lambda: align.get_pairwise_sequence_identity(ali, mode="shortest"),
        "score_default": lambda: align.score(ali, matrix),
        "score_int": lambda: align.score(ali, matrix, -7, False),
        "score_aff": lambda: align.score(ali, matrix, gap_penalty=(-6, -2), terminal_penalty=False),
        "cigar": lambda: align.write_alignment_to_cigar(ali),
        "cigar_opts": lambda: align.write_alignment_to_cigar(ali, 1, 0, introns=None, distinguish_matches=True, hard_clip=True,
                                                              include_terminal_gaps=True),
        "cigar_tuples": lambda: align.write_alignment_to_cigar(ali, reference_index=0, segment_index=n - 1, as_string=False),
        "fasta": fasta_text,
        "slice": lambda: ali[1:max(1, ncol - 1)],
        "slice2d": lambda: ali[:ncol // 2 + 1, [n - 1, 0]],
        "mask": lambda: ali[:, np.array([True] + [False] * (n - 2) + [True])],
        "colmask": lambda: ali[np.array([i % 2 == 0 for i in range(ncol)], dtype=bool)],
        "eq_self": lambda: ali == ali,
        "repr_len": lambda: len(repr(ali)) > 0,
    }
    out = {}
    for name, fn in calls.items():
        try:
            with np.errstate(all="ignore"), warnings.catch_warnings():
                warnings.simplefilter("ignore")
                out[name] = _canon(fn())
        except Exception as e:  # noqa: BLE001
            out[name] = "ERR:" + type(e).__name__
    return out


def _snapshot(ali):
    return ([s.code.tolist() for s in ali.sequences], [str(type(s).__name__) for s in ali.sequences], ali.trace.tolist(),
            str(ali.trace.dtype), ali.score)


def _apply_edit(ali, alph, e):
    """in-place edits of an Alignment (the object stays the same)"""
    import numpy as np
    if e[0] == "cell":
        ali.trace[e[1], e[2]] = e[3]
    elif e[0] == "rows":
        blk = ali.trace[e[1]:e[2]].copy()
        if e[3] == "gapfirst":
            blk[:, 0] = -1
        elif e[3] == "reverse":
            blk = blk[::-1].copy()
        else:
            blk = np.where(blk >= 0, blk + 1, blk)
        ali.trace[e[1]:e[2]] = blk                      # slicing assignment into the same array
    elif e[0] == "delrows":
        ali.trace = np.delete(ali.trace, slice(e[1], e[2]), axis=0)
    elif e[0] == "addrow":
        ali.trace = np.concatenate([ali.trace, np.array([e[1]], dtype=ali.trace.dtype)], axis=0)
    elif e[0] == "seq":
        ali.sequences[e[1]] = _mkseq(alph, e[2])
    elif e[0] == "seqcode":
        if len(ali.sequences[e[1]]):
            ali.sequences[e[1]].code[e[2] % len(ali.sequences[e[1]])] = e[3]
    elif e[0] == "score":
        ali.score = e[1]


def _fresh(ali):
    """a new Alignment with copies of the same content"""
    from biotite.sequence.align import Alignment
    return Alignment([s.copy() for s in ali.sequences], ali.trace.copy(), ali.score)


def _oracle_degenerate(case):
    """audit 6: regions the theorems exclude by hypothesis - what the code does there is pinned down"""
    import numpy as np
    import biotite.sequence as seq
    import biotite.sequence.align as align
    kind = case["kind"]
    v = []
    if kind == "degenerate/one-sequence":
        alph, strs, cols = case["alph"], case["seqs"], case["trace"]
        ali = _mkali(alph, strs, cols)
        codes = [alph.index(c) for c in strs[0]]
        want = {"gapped": ["".join(strs[0][c[0]] for c in cols)], "codes": [[codes[c[0]] for c in cols]], "rmgaps": cols,
                "termgaps": (0, len(cols))}
        got = {}
        for name, fn in (("gapped", lambda: ali.get_gapped_sequences()), ("codes", lambda: align.get_codes(ali).tolist()),
                         ("rmgaps", lambda: align.remove_gaps(ali).trace.tolist()), ("termgaps", lambda: tuple(align.find_terminal_gaps(ali)))):
            try:
                got[name] = fn()
            except Exception as e:  # noqa: BLE001
                got[name] = "ERR:" + type(e).__name__
            if got[name] != want[name]:
                v.append((f"C11/degenerate/one-sequence/{name}", f"{strs} {cols}: {got[name]}, expected {want[name]}"))
        try:
            align.Alignment.trace_from_strings(ali.get_gapped_sequences())
            v.append(("C11/strings/single-string-accepted", f"trace_from_strings accepted one string for {strs}"))
        except ValueError:
            pass
        if cols:
            got_id = align.get_sequence_identity(ali, "all")
            if abs(got_id - 1.0) > 1e-12:
                v.append(("C11/degenerate/one-sequence/identity", f"{strs} {cols}: identity {got_id}"))
    elif kind == "degenerate/no-sequence":
        a0 = align.Alignment([], np.zeros((case["ncol"], 0), dtype=int))
        try:
            r = align.find_terminal_gaps(a0)
            v.append(("C11/helpers/find_terminal_gaps/no-sequence-accepted", f"{case['ncol']} columns, no sequence -> {r}"))
        except ValueError:
            pass                      # C11_terminal_gaps_spec: n = 0 -> ValueError
    elif kind == "degenerate/dash-symbol":
        # C11_strings_needs_no_gap_symbol: the text cannot tell the symbol '-' from a gap (replay of the witness)
        al = seq.Alphabet(["a", "-", "b"])
        a = align.Alignment([seq.GeneralSequence(al, ["a", "-", "b"]), seq.GeneralSequence(al, ["a", "b"])], np.array([[0, 0], [1, -1], [2, 1]]))
        gs = a.get_gapped_sequences()
        if gs != ["a-b", "a-b"] or align.Alignment.trace_from_strings(gs).tolist() != [[0, 0], [-1, -1], [1, 1]]:
            v.append(("C11/strings/dash-symbol-witness-changed", f"{gs} {align.Alignment.trace_from_strings(gs).tolist()}"))
    elif kind == "degenerate/cigar-text":
        # counts written with non-ASCII digits / beyond int64: either read like the ASCII spelling or refused, never something else
        import unicodedata
        ref = seq.NucleotideSequence("A" * 60)
        cig = case["cigar"]
        try:
            t = align.read_alignment_from_cigar(cig, 0, ref, ref).trace.tolist()
        except (ValueError, OverflowError, KeyError):
            return v
        try:
            plain = "".join(str(unicodedata.digit(c)) if c.isdigit() and not c.isascii() else c for c in cig)
            t2 = align.read_alignment_from_cigar(plain, 0, ref, ref).trace.tolist()
        except Exception:  # noqa: BLE001
            t2 = None
        if t != t2:
            v.append(("C11/cigar/read/non-ascii-count", f"{cig!r} -> {t}, ASCII spelling -> {t2}"))
    return v


def _oracle_malformed(case):
    """audit 6: invalid alignments - an index outside its sequence must be refused (IndexError), never read as another symbol"""
    import biotite.sequence.align as align
    w = case["ops"][0].split()
    strs, cols = _parse_strs(w[2]), _parse_trace(w[3])
    out_of_range = any(x >= len(strs[k]) for c in cols for k, x in enumerate(c) if k < len(strs))
    if not out_of_range:
        return []
    ali = _mkali(w[1], strs, cols)
    v = []
    for name, fn in (("get_gapped_sequences", lambda: ali.get_gapped_sequences()), ("get_codes", lambda: align.get_codes(ali)),
                     ("get_symbols", lambda: align.get_symbols(ali)), ("get_sequence_identity", lambda: align.get_sequence_identity(ali, "all"))):
        try:
            r = fn()
            v.append((f"C11/malformed/index-outside-sequence-accepted/{name}", f"{strs} {cols}: {name} returned {str(r)[:100]}"))
        except IndexError:
            pass
        except Exception as e:  # noqa: BLE001
            v.append((f"C11/malformed/index-outside-sequence/{name}/{type(e).__name__}", f"{strs} {cols}: {e}"))
    return v


def _oracle_fastareuse(case):
    """a FastaFile that already holds an alignment under the same names gives, after set_alignment(), exactly what a fresh
    FastaFile gives: in memory, and after writing and reading the file"""
    import io
    import warnings

    import biotite.sequence as seq
    import biotite.sequence.io.fasta as fasta
    alph = NUC if case["alph"] == NUC else PROT
    stype = seq.NucleotideSequence if case["alph"] == NUC else seq.ProteinSequence
    n = len(case["alis"][0]["seqs"])
    names = [f"row{i}" for i in range(n)]

    def read(ff):
        with warnings.catch_warnings():
            warnings.simplefilter("ignore")
            a = fasta.get_alignment(ff, seq_type=stype)
        return ([str(x) for x in a.sequences], a.trace.tolist())

    def through_text(ff):
        buf = io.StringIO()
        ff.write(buf)
        buf.seek(0)
        return fasta.FastaFile.read(buf)
    reused = fasta.FastaFile()
    v = []
    prev_want = None
    for step, a in enumerate(case["alis"]):
        ali = _mkali(alph, a["seqs"], a["trace"])
        fresh = fasta.FastaFile()
        fasta.set_alignment(fresh, ali, names)
        want = read(fresh)
        hist = f"alignments with {[len(x['trace']) for x in case['alis'][:step + 1]]} columns written one after the other under the names {names}"
        try:
            clone = reused.copy() if step > 0 else None
            fasta.set_alignment(reused, ali, names)
            if clone is not None:
                # the copy taken before this write still holds the previous alignment, whatever happened to the original
                got_clone = read(clone)
                if got_clone != prev_want:
                    v.append(("C11/fasta/reused-file/copy-not-independent", f"{hist}: a FastaFile.copy() taken before the last write reads {str(got_clone)[:160]}, "
                              f"expected the previous alignment {str(prev_want)[:160]}"))
                    break
                fasta.set_alignment(clone, _mkali(alph, case["alis"][0]["seqs"], case["alis"][0]["trace"]), names)    # writing into the copy ...
            got = read(reused)                                                                                          # ... must not touch the original
            got_text = read(through_text(reused))
            keys = list(reused.keys())
        except Exception as e:  # noqa: BLE001
            v.append(("C11/fasta/reused-file/rejected", f"{hist}: {type(e).__name__}: {e}"))
            break
        if keys != names:
            v.append(("C11/fasta/reused-file/headers", f"{hist}: headers {keys}"))
            break
        if got != want:
            v.append(("C11/fasta/reused-file/in-memory", f"{hist}: get_alignment on the reused FastaFile gives {str(got)[:200]}, a fresh FastaFile gives {str(want)[:200]}"))
            break
        if got_text != want:
            v.append(("C11/fasta/reused-file/after-write-read", f"{hist}: after write/read the reused FastaFile gives {str(got_text)[:200]}, a fresh one {str(want)[:200]}"))
            break
        prev_want = want
        expect = ([("".join(a["seqs"][k][j] for j in [c[k] for c in a["trace"] if c[k] >= 0])) for k in range(n)], _renumber(a["trace"]))
        if want != expect:
            v.append(("C11/fasta/roundtrip", f"{hist}: fresh FastaFile gives {str(want)[:200]}, expected {str(expect)[:200]}"))
            break
    return v


def _oracle_history(case):
    alph = case["alph"]
    ali = _mkali(alph, case["seqs"], case["trace"])
    v = []
    steps = [None] + list(case["edits"])
    for step_no, e in enumerate(steps):
        if e is not None:
            try:
                _apply_edit(ali, alph, e)
            except Exception:
                continue
        snap = _snapshot(ali)
        got = _battery(ali, case["mseed"])                 # on the reused object
        if _snapshot(ali) != snap:
            bad = [k for k, val in got.items() if isinstance(val, str) and val.startswith("ERR:")]
            v.append(("C11/state/conversion-modified-the-alignment", f"{case['seqs']} {case['trace']} edits={steps[1:step_no + 1]}: the "
                      f"Alignment changed during the conversions (refused calls: {bad}): {snap} -> {_snapshot(ali)}"))
            break
        want = _battery(_fresh(ali), case["mseed"])        # on a fresh object of the same content
        again = _battery(ali, case["mseed"])               # and once more on the reused object
        for name in want:
            if got[name] != want[name] or again[name] != want[name]:
                v.append((f"C11/state/stale-after-edit/{name}", f"{case['seqs']} {case['trace']} after in-place edits {steps[1:step_no + 1]}: "
                          f"{name} on the reused Alignment = {str(got[name])[:160]} / {str(again[name])[:80]}, on a fresh Alignment of the same content = {str(want[name])[:160]}"))
                break
        if v:
            break
    return v


def _oracle_spell(case):
    """same values, other spellings"""
    import numpy as np
    import biotite.sequence.align as align
    from biotite.sequence.align import Alignment
    alph, strs, cols = case["alph"], case["seqs"], case["trace"]
    base = _mkali(alph, strs, cols)
    ref = _battery(base, case["mseed"])
    v = []
    t = np.array(cols, dtype=np.int64)
    wide = np.zeros((len(cols) * 2, 4), dtype=np.int64)
    wide[::2, 1:3] = t
    ro = t.copy()
    ro.setflags(write=False)
    variants = {"int32": t.astype(np.int32), "int16": t.astype(np.int16), "int8": t.astype(np.int8), "fortran": np.asfortranarray(t),
                "strided": wide[::2, 1:3], "readonly": ro, "byteswapped": t.astype(t.dtype.newbyteorder()),
                "float64": t.astype(np.float64) if False else t.astype(np.int64)}
    for name, tr in variants.items():
        got = _battery(Alignment([q.copy() for q in base.sequences], tr), case["mseed"])
        for key in ref:
            if got[key] != ref[key] and not (isinstance(got[key], str) and got[key] in ("ERR:TypeError",)):
                v.append((f"C11/spelling/trace-{name}/{key}", f"{strs} {cols}: trace as {name} array gives {str(got[key])[:120]}, int64 C-array gives {str(ref[key])[:120]}"))
                break
    # scalar / container arguments
    n = len(strs)
    pair = cols
    pos = _first_ref(_trim(pair))

    def attempt(fn):
        try:
            return _canon(fn())
        except Exception as e:  # noqa: BLE001
            return "ERR:" + type(e).__name__
    cig = attempt(lambda: align.write_alignment_to_cigar(base))
    tup = attempt(lambda: align.write_alignment_to_cigar(base, as_string=False))
    d_runs = _d_runs(_trim(pair))
    intr = [(r[0], r[-1] + 1) for r in d_runs[:2]]
    cig_i = attempt(lambda: align.write_alignment_to_cigar(base, introns=intr))
    checks = []
    for nm, ri, si in (("np.int64", np.int64(0), np.int64(1)), ("np.uint8", np.uint8(0), np.uint8(1)), ("np.int8", np.int8(0), np.int8(1)),
                       ("negative", -2, -1), ("np.int16-negative", np.int16(-2), np.int16(-1))):
        checks.append((f"cigar-index-{nm}", cig, attempt(lambda: align.write_alignment_to_cigar(base, ri, si))))
    for nm, iv in (("tuple", tuple(intr)), ("ndarray-int32", np.array(intr, dtype=np.int32).reshape(-1, 2)), ("np-scalars", [(np.int64(a), np.uint16(b)) for a, b in intr]),
                   ("list-of-lists", [list(x) for x in intr]), ("generator-free-iter", list(reversed(intr)))):
        checks.append((f"cigar-introns-{nm}", cig_i, attempt(lambda: align.write_alignment_to_cigar(base, introns=iv))))
    for nm, flag in (("np.bool_", np.bool_(True)), ("int-1", 1)):
        checks.append((f"cigar-flags-{nm}", attempt(lambda: align.write_alignment_to_cigar(base, distinguish_matches=True, hard_clip=True, include_terminal_gaps=True)),
                       attempt(lambda: align.write_alignment_to_cigar(base, distinguish_matches=flag, hard_clip=flag, include_terminal_gaps=flag))))
    if isinstance(cig, str) and not cig.startswith("ERR"):
        back = attempt(lambda: align.read_alignment_from_cigar(cig, pos, base.sequences[0], base.sequences[1]))
        for nm, p in (("np.int64", np.int64(pos)), ("np.int32", np.int32(pos)), ("np.uint16", np.uint16(pos)), ("np.uint8", np.uint8(pos))):
            checks.append((f"read-position-{nm}", back, attempt(lambda: align.read_alignment_from_cigar(cig, p, base.sequences[0], base.sequences[1]))))
        tl = [(int(o), int(c)) for o, c in tup[2]] if isinstance(tup, tuple) else []
        for nm, ops in (("list", tl), ("tuple", tuple(tl)), ("ndarray-int8", np.array(tl, dtype=np.int8).reshape(-1, 2) if all(c < 128 for _, c in tl) else np.array(tl).reshape(-1, 2)),
                        ("ndarray-uint32", np.array(tl, dtype=np.uint32).reshape(-1, 2)), ("enum", [(align.CigarOp(o), c) for o, c in tl]),
                        ("fortran", np.asfortranarray(np.array(tl).reshape(-1, 2)))):
            checks.append((f"read-tuples-{nm}", back, attempt(lambda: align.read_alignment_from_cigar(ops, pos, base.sequences[0], base.sequences[1]))))
        # symbol table both ways
        for o in align.CigarOp:
            if align.CigarOp.from_cigar_symbol(o.to_cigar_symbol()) != o:
                v.append(("C11/cigar/symbol-table", f"{o!r} -> {o.to_cigar_symbol()!r} -> {align.CigarOp.from_cigar_symbol(o.to_cigar_symbol())!r}"))
    a0 = base.sequences[0].get_alphabet()
    k = len(a0)
    mat = align.SubstitutionMatrix(a0, a0, ((np.arange(k * k).reshape(k, k) * 7) % 11 - 4 + 6 * np.eye(k, dtype=int)).astype(np.int32))   # not symmetric
    if len(base.sequences[0]) and len(base.sequences[1]):
        try:
            opt = align.align_optimal(base.sequences[0], base.sequences[1], mat, gap_penalty=(-6, -2), terminal_penalty=True, max_number=1)[0]
            rescored = align.score(opt, mat, (-6, -2), True)
            if int(rescored) != int(opt.score):
                v.append(("C11/helpers/score/differs-from-align_optimal", f"{strs}: align_optimal reports {opt.score} for {opt.trace.tolist()}, "
                          f"score() of that alignment with the same (asymmetric) matrix gives {rescored}"))
        except Exception as e:  # noqa: BLE001
            v.append(("C11/helpers/score/rejected", f"{strs}: score() of an align_optimal result: {type(e).__name__}: {e}"))
    sc = attempt(lambda: align.score(base, mat, (-6, -2), False))
    for nm, gp, tp in (("list", [-6, -2], False), ("np.int64", (np.int64(-6), np.int64(-2)), np.bool_(False)), ("np.int8", (np.int8(-6), np.int8(-2)), 0)):
        checks.append((f"score-gap-{nm}", sc, attempt(lambda: align.score(base, mat, gp, tp))))
    sc1 = attempt(lambda: align.score(base, mat, -5))
    for nm, gp in (("np.int32", np.int32(-5)), ("np.int64", np.int64(-5)), ("pair", (-5, -5))):
        checks.append((f"score-linear-{nm}", sc1, attempt(lambda: align.score(base, mat, gp))))
    sel = attempt(lambda: base[:, [1, 0]])
    for nm, ix in (("tuple", (1, 0)), ("ndarray", np.array([1, 0])), ("ndarray-int8", np.array([1, 0], dtype=np.int8)), ("np-scalars", [np.int64(1), np.uint8(0)]),
                   ("negative", [-1, -2])):
        checks.append((f"select-{nm}", sel, attempt(lambda: base[:, ix])))
    ncol = len(cols)
    sl = attempt(lambda: base[1:ncol])
    for nm, ix in (("np-ints", slice(np.int64(1), np.int32(ncol))), ("negative", slice(1 - ncol if ncol > 1 else 1, None)), ("index-array", np.arange(1, ncol)),
                   ("index-list", list(range(1, ncol)))):
        checks.append((f"slice-{nm}", sl, attempt(lambda: base[ix])))
    gs = attempt(lambda: base.get_gapped_sequences())
    if isinstance(gs, list):
        tfs = attempt(lambda: Alignment.trace_from_strings(gs))
        for nm, arg in (("tuple", tuple(gs)), ("np.str_", [np.str_(x) for x in gs]), ("ndarray", np.array(gs)), ("lists-of-chars", [list(x) for x in gs])):
            checks.append((f"trace_from_strings-{nm}", tfs, attempt(lambda: Alignment.trace_from_strings(arg))))
    for name, want, got in checks:
        if got != want and got not in ("ERR:TypeError",):
            v.append((f"C11/spelling/{name}", f"{strs} {cols}: {name} gives {str(got)[:140]}, the plain spelling gives {str(want)[:140]}"))
    return v


def _oracle_asbin(case):
    """as_binary keeps every leaf exactly once, in order, and every inner node has two children"""
    import re
    out = run_impl(case)[0]
    if not out.startswith("ok "):
        return [("C11/tree/as_binary/rejected", f"{case['mtree']} -> {out}")]
    txt = out[3:]
    v = []
    if [int(x) for x in re.findall(r"\d+", txt)] != _flatten(case["mtree"]):
        v.append(("C11/tree/as_binary/leaves", f"{case['mtree']} -> {txt}"))
    depth_commas = {}
    d = 0
    for ch in txt:
        if ch == "(":
            d += 1
            depth_commas[d] = 0
        elif ch == ",":
            depth_commas[d] += 1
        elif ch == ")":
            if depth_commas[d] != 1:
                v.append(("C11/tree/as_binary/not-binary", f"{case['mtree']} -> {txt}"))
                break
            d -= 1
    return v


def _oracle_dist(case):
    """two alignable sequences must get a distance unless the similarity is below the random expectation (documented)"""
    r = _run_dist(case)
    if r is None:
        return [("C11/msa/crash", f"align_multiple crashed on {case['seqs']}")]
    what = f"seqs={case['seqs']} gap={case['gap']} tp={case['tp']}: {r['outcome']} (2L(S-Srand)={r.get('num')}, 2L(Smax-Srand)={r.get('den')})"
    if r["outcome"] == "zeroDivision":
        return [("C11/msa/distances/ZeroDivisionError", what)]
    if r["outcome"] == "infinite":
        return [("C11/msa/distances/infinite-distance", what)]
    if r["outcome"].startswith("other"):
        return [("C11/msa/distances/other-rejection", what)]
    if r["outcome"] in ("negative", "notANumber") and not (r.get("num") is not None and r["num"] > r["den"]):
        # only S > S_max (mismatches outscoring matches) may be refused as a negative / undefined distance
        return [("C11/msa/distances/refused-although-S-below-Smax", what)]
    return []


def _oracle_msa(case):
    r = _run_msa(case)
    n = len(case["seqs"])
    if case.get("badtree"):
        # the supplied tree does not contain every sequence exactly once: the call must not return normally
        if r[0] == "ok":
            return [(f"C11/msa/guide-tree-not-validated/{case['badtree']}",
                     f"align_multiple accepted guide tree {case['tree']} for {n} sequences and returned {len(r[1][0]['trace'][0]) if r[1][0]['trace'] else '?'} rows, order {r[1][1]}")]
        return []
    if r[0] == "crash":
        return [("C11/msa/crash", f"align_multiple crashed on {case['seqs']}")]
    if r[0] == "err" and len(r) > 3 and [list(x) for x in r[3]] != [list(x) for x in case["seqs"]]:
        return [("C11/msa/input-sequences-modified-by-refused-call", f"seqs={case['seqs']} are {r[3]} after align_multiple raised {r[1]}")]
    if r[0] == "err":
        what = f"align_multiple raised {r[1]} ({r[2][:80]}) on {case['seqs']} gap={case['gap']} tp={case['tp']} dist={case['dist']} tree={case['tree']}"
        if case["dist"] is None and r[1] == "ValueError" and "randomized alignment" in r[2]:
            return []      # documented rejection: similarity below the random expectation, no distance can be computed
        if case["dist"] is None and r[1] == "ValueError" and "contains infinity" in r[2]:
            return [("C11/msa/distances/infinite-distance", what)]
        if case["dist"] is None and r[1] == "ZeroDivisionError":
            return [("C11/msa/distances/ZeroDivisionError", what)]
        return [(f"C11/msa/rejected/{r[1]}", what)]
    ali, order, tree, _calls, after = r[1]
    v = []
    if [list(x) for x in after] != [list(x) for x in case["seqs"]]:
        v.append(("C11/msa/input-sequences-modified", f"seqs={case['seqs']} same={case.get('same')} are {after} after align_multiple"))
    cols, out_seqs = ali["trace"], ali["seqs"]
    what = f"seqs={case['seqs']} same={case.get('same')} gap={case['gap']} tp={case['tp']} tree={case['tree']} -> trace={cols} order={order} tree={tree}"
    if any(len(c) != n for c in cols) or len(out_seqs) != n:
        return [("C11/msa/row-count", what)]
    if case["alph"] == "big256":
        # known finding: the gap symbol's code 256 does not fit the uint8 codes and is stored as 0
        if [list(s) for s in out_seqs] != [list(s) for s in case["seqs"]] or any(idx != list(range(len(sq))) for idx, sq in
                zip([[c[k] for c in cols if c[k] >= 0] for k in range(n)], case["seqs"])):
            return [("C11/msa/gap-code-overflows-code-dtype", what + f" sequences={out_seqs}")]
    if [list(s) for s in out_seqs] != [list(s) for s in case["seqs"]]:
        v.append(("C11/msa/sequences-not-in-input-order", what + f" sequences={out_seqs}"))
    for k in range(n):
        idx = [c[k] for c in cols if c[k] >= 0]
        if idx != list(range(len(case["seqs"][k]))):
            v.append(("C11/msa/row-does-not-spell-input", what + f" row {k}"))
            break
    if not _is_valid(cols, n) and cols:
        v.append(("C11/msa/invalid-trace", what))
    if sorted(order) != list(range(n)):
        v.append(("C11/msa/order-not-a-permutation", what))
    leaves = _leaves_text(tree)
    if sorted(leaves) != list(range(n)):
        v.append(("C11/msa/tree-leaves", what))
    elif leaves != list(order):
        v.append(("C11/msa/order-is-not-the-tree-order", what))
    if case["tree"] is not None and sorted(_flatten(case["tree"])) == list(range(n)) and sorted(leaves) != sorted(_flatten(case["tree"])):
        v.append(("C11/msa/custom-tree-leaves-changed", what))
    return v


# ---------------------------------------------------------------- bookkeeping
def nontrivial(case, impl_out):
    if case.get("kind", "").startswith("msa/"):
        return len({tuple(s) for s in case["seqs"]}) > 1 or len(case["seqs"]) > 2
    t = case.get("trace")
    if t is not None:
        return any(x < 0 for c in t for x in c) or (bool(t) and any(x > 0 for x in t[0]))
    return True


def signature(case):
    return "|".join(case.get("ops") or []) or repr({k: v for k, v in case.items() if not k.startswith("_")})


def distribution(cases, impl_outs):
    outcomes, ncols, opkinds = {}, {}, {}
    for c, o in zip(cases, impl_outs):
        for op, line in zip(c.get("ops") or [], o or []):
            k = op.split()[0] + ":" + line.split(" ")[0]
            outcomes[k] = outcomes.get(k, 0) + 1
            opkinds[op.split()[0]] = opkinds.get(op.split()[0], 0) + 1
        t = c.get("trace")
        if t is not None:
            b = "0" if not t else "1-3" if len(t) <= 3 else "4-8" if len(t) <= 8 else "9+"
            ncols[b] = ncols.get(b, 0) + 1
    return {"outcomes": outcomes, "trace_columns": ncols, "ops": opkinds}


def search(rng, problems, tier):
    yield from trace_cases(rng, 1500)
    yield from string_cases(rng, 200)
    yield from cigar_cases(rng, 300)
    yield from msa_cases(rng, 300)


def shrink(case, key):
    """drop ops that are not needed to reproduce an oracle violation (the oracle reads the case fields)"""
    if not case.get("ops") or not case.get("kind", "").startswith("trace/"):
        return case
    keep = [op for op in case["ops"] if op.startswith("set ") or (op.startswith("score") and "score" in key)]
    small = dict(case, ops=keep)
    try:
        if any(k == key for k, _ in oracle(small)):
            return small
    except Exception:
        pass
    return case

"""C14 — Cell-list neighbour search is exact.

Two correspondence streams (DESIGN.md §7 C14):
  (i)  exact  : coordinates/box/radii are integers / 2^S, cell size a power of two, all magnitudes
                small enough that every float32 operation of celllist.pyx is exact; the real code
                must agree with the ℚ model (Lean driver) as sets, op by op.
  (ii) floats : general float32 inputs (clustered, collinear, duplicated, 1 atom, radius 0 … ≫ extent,
                queries far outside, orthorhombic + triclinic boxes); judged by the oracle only.
The oracle is brute force (exact Fractions for stream (i), float64 with a 1e-4 relative guard band
around the radius for stream (ii)) and never looks at the Lean model.
"""
import ast
import math
import os
import re
from fractions import Fraction

PROP = "C14"
PROPS_MODULE = "BiotiteModel.Props.C14"
DRIVER_MODULE = "BiotiteModel.Driver.C14"
EXT_MODULES = ["biotite.structure.celllist"]
GEN_FILES = ["BiotiteModel/Gen/C14.lean"]
RULE = ("seeded cell lists: stream (i) dyadic coordinates (atoms on cell borders, duplicates, collinear, 1 atom, "
        "clusters), power-of-two cell size, dyadic radii incl. 0 and > extent, queries inside / on borders / far "
        "outside the bounding box, selections, orthorhombic periodic boxes; ops new/atoms/cells/adj with idx and "
        "mask output, scalar and per-query radii, compared as sets with the Lean ℚ model; stream (ii) general "
        "float32 inputs incl. triclinic boxes judged by the float64 brute-force oracle with a 1e-4 band; exact periodic boxes "
        "also as signed permutation matrices, float-geom stream (rotated orthorhombic, one-angle triclinic) compared with "
        "biotite's own geometry distances; every array argument must be bit-identical after each call (also a refused one); "
        "60 % of the cases pass every argument in another spelling (NumPy scalar widths, float64/F-order/strided/byte-swapped/"
        "read-only arrays, lists) and call style (positional/keyword/defaults omitted); first query re-issued after the others and "
        "on a second cell list with reversed atoms; box.py helpers checked directly. "
        "non-trivial = at least one query returns a non-empty proper subset of the atoms or an error branch is hit; "
        "distinct = different op lines / spec")
TRUSTED = ["numpy float32 arithmetic is exact on the dyadic inputs of the exact stream (power-of-two scaling, <2^24 magnitudes)",
           "numpy.linalg.inv / matmul / remainder used by move_inside_box are exact on diagonal power-of-two boxes"]
ASSUMPTIONS = ["float32 rounding in cell binning, ceil(radius/cell_size) and sq_dist <= sq_radius is not modelled (ℚ model); "
               "general floats are only tested against a float64 brute force with a 1e-4 relative guard band",
               "triclinic periodic boxes: minimum-image theorem only for r <= half the smallest box height (HalfHeight); beyond it exactness w.r.t. the 27 images only (known finding for strongly skewed cells); float triclinic boxes (62..118 deg) by oracle",
               "memory safety of the malloc'd pointer cells is not a theorem; only the index invariant "
               "0 <= cell index < cell_count is proved on the ℚ model (C14_cells_in_grid)",
               "result-buffer length must stay below 2^31 (Guard.fits) or wrap to a still sufficient positive length; otherwise the code fails or truncates (known findings, defect theorems)",
               "radius / cell size beyond int32: scalar radii are refused (OverflowError), per-query radii are silently wrong (known findings); theorems carry ceil(r/cs) < 2^31"]
LEVEL_TEXT = ("Lean 4 proofs over ℚ for all inputs: window sufficiency with C truncation for any query point, "
              "get_atoms = {d² ≤ r²} as a set (indices ⇔ masks, scalar ⇔ per-query radii, selection), cell queries ⊇ "
              "Chebyshev ball, adjacency symmetric = thresholded distances. Periodic mode, general invertible box matrix "
              "(move_inside_box through fractional coordinates, 27-fold replication, `% n`): get_atoms = atoms with one of "
              "the 27 images within r of the moved-inside query (what the code computes, any box); this equals "
              "{a | minimum over ALL lattice vectors ≤ r²} unconditionally for boxes with pairwise orthogonal vectors in any "
              "orientation, and for general triclinic boxes when r ≤ half the smallest box height; beyond that a decide "
              "witness shows a missed neighbour (known finding, replayed). Axis-aligned orthorhombic boxes additionally: "
              "explicit minimum-image distance, masks, cell-query superset, adjacency = thresholded minimum-image matrix, "
              "symmetric. Tied to celllist.pyx / box.py by an exact dyadic correspondence stream (diagonal, signed-permutation "
              "and triclinic box matrices) and regenerated loop bounds. Partial: float32 rounding, triclinic radii beyond "
              "half the box height and pointer-cell memory safety are exercised, not proved.")
LEVEL_NOTE = "the source text of all 13 modelled celllist.pyx functions and 5 box.py functions is regenerated into Lean and pinned by C14_gen_src_* obligations; ℚ model of float32 code; exact only where float32 arithmetic is exact; int overflow of the buffer length is a known finding"
TECHNIQUE = "Lean 4 proof (floor/ceil/trunc arithmetic over ℚ, list membership invariants) + exact dyadic correspondence + float64 brute-force oracle"

import warnings
warnings.filterwarnings("ignore", message="invalid value encountered in cast")   # numpy, radii beyond int32 (known finding)

K_OVERFLOW = "C14/result-buffer-length-int-overflow"
K_F32GRID = "C14/float32-cell-count-rounding/atom-outside-grid"
K_TRICLINIC = "C14/periodic/skewed-triclinic-box/minimum-image-outside-27-replicas"
K_HUGE_SCALAR = "C14/radius-over-cell-size-beyond-int32/scalar-OverflowError"
K_HUGE_MULTI = "C14/radius-over-cell-size-beyond-int32/per-query-array-silently-wrong"
K_WRAPPED = "C14/result-buffer-length-int-overflow/wrapped-positive-length-truncates-result"
K_READONLY = "C14/spelling/read-only-array-rejected"
K_SEL_STRIDED = "C14/spelling/non-contiguous-selection-mask-rejected"


# ---------------------------------------------------------------- translator (Gen)
def _pyx_functions(text):
    """{name: (header, [(indent, statement)])} of a .pyx: comments / docstrings / blank lines dropped,
    bracketed continuation lines joined, inner whitespace collapsed."""
    lines = []
    in_doc = None
    for raw in text.splitlines():
        s = raw.rstrip()
        st = s.strip()
        if in_doc:
            if in_doc in st:
                in_doc = None
            continue
        m = re.match(r'^[rRuUbB]{0,2}("""|\'\'\')', st)
        if m:
            if m.group(1) not in st[m.end():]:
                in_doc = m.group(1)
            continue
        if not st or st.startswith("#"):
            continue
        # trailing comment
        if "#" in s:
            i = s.find("#")
            if s[:i].count('"') % 2 == 0 and s[:i].count("'") % 2 == 0:
                s = s[:i].rstrip()
                if not s.strip():
                    continue
        lines.append(s)
    # join continuations
    stmts = []
    buf, depth, ind = "", 0, 0
    for s in lines:
        if not buf:
            ind = len(s) - len(s.lstrip())
        buf = (buf + " " + s.strip()) if buf else s.strip()
        depth = sum(buf.count(c) for c in "([{") - sum(buf.count(c) for c in ")]}")
        if depth <= 0 and not buf.endswith("\\"):
            stmts.append((ind, re.sub(r"\s+", " ", buf.replace("\\", " ")).strip()))
            buf = ""
    fns = {}
    i = 0
    while i < len(stmts):
        ind, s = stmts[i]
        m = re.match(r"(?:def|cdef|cpdef)\s+(?:inline\s+)?(?:[\w\.\[\]:, ]+?\s+)?(\w+)\s*\(", s)
        if m and s.endswith(":") and not s.startswith("cdef class"):
            name = m.group(1)
            body = []
            j = i + 1
            while j < len(stmts) and stmts[j][0] > ind:
                body.append((stmts[j][0] - ind, stmts[j][1]))
                j += 1
            fns.setdefault(name, []).append((s, body))
            i = j
        else:
            i += 1
    return fns


_STR_LIT = re.compile(r"""[fFrRbBuU]{0,2}("([^"\\]|\\.)*"|'([^'\\]|\\.)*')""")

_IDENT = re.compile(r"(?<![\w.])([A-Za-z_]\w*)")
PYX_ENTRY = ["__cinit__", "create_adjacency_matrix", "get_atoms", "get_atoms_in_cells"]
BOX_FUNCS = ["repeat_box_coord", "move_inside_box", "coord_to_fraction", "fraction_to_coord", "is_orthogonal"]


def _split_top(s, sep=","):
    out, depth, cur = [], 0, ""
    for ch in s:
        if ch in "([{":
            depth += 1
        elif ch in ")]}":
            depth -= 1
        if ch == sep and depth == 0:
            out.append(cur)
            cur = ""
        else:
            cur += ch
    if cur.strip():
        out.append(cur)
    return out


def _header_parts(header):
    """(prefix before the name, name, [(full parameter text, parameter name)])"""
    m = re.match(r"(.*?)(\w+)\s*\((.*)\)\s*:$", header)
    if not m:
        raise ValueError("unparsable function header: " + header)
    params = []
    for p in _split_top(m.group(3)):
        t = p.strip()
        core = t.split("=")[0].strip()
        core = re.sub(r"\s+not None$", "", core)
        names = re.findall(r"[A-Za-z_]\w*", core)
        if names:
            params.append((t, names[-1]))
    return m.group(1), m.group(2), params


def _locals_of(params, body, keep):
    """local names of a .pyx function in order of first binding (parameters first, except the public ones in `keep`)."""
    names = [n for _t, n in params if n != "self" and n not in keep]
    def add(n):
        if n not in names and n != "self" and n not in keep:
            names.append(n)
    for _ind, st in body:
        m = re.match(r"cdef\s+(.*)$", st)
        if m and not st.endswith(":"):
            chunks = _split_top(m.group(1))
            for c in chunks:
                before = c.split("=")[0]
                ids = re.findall(r"[A-Za-z_]\w*", before)
                if ids:
                    add(ids[-1])
            continue
        m = re.match(r"for\s+(.+?)\s+in\s", st)
        if m:
            for n in re.findall(r"[A-Za-z_]\w*", m.group(1)):
                add(n)
            continue
        m = re.match(r"([A-Za-z_]\w*(?:\s*,\s*[A-Za-z_]\w*)*)\s*(?:=|\+=|-=|\*=|/=|%=)(?!=)", st)
        if m:
            for n in re.findall(r"[A-Za-z_]\w*", m.group(1)):
                add(n)
    return names


def _normalise_pyx(fns):
    """Alpha-normalised text of the functions reachable from the public entry points of celllist.pyx.

    Private helpers (cdef functions and `_name` functions/methods defined in the module) are named H0, H1, … in order of their
    first call; private attributes `self._name` A0, A1, …; locals and the parameters of private helpers v0, v1, … per function in
    order of first binding; public names (entry points, their parameters, imported names, numpy) stay as they are.  Comments,
    docstrings, blank lines are gone already; string literals -> S; the arguments of `raise X(...)` are dropped."""
    def is_private(name, header):
        return header.lstrip().startswith(("cdef", "cpdef")) or (name.startswith("_") and not name.startswith("__"))
    helpers, attrs, order, out = {}, {}, [], []
    queue = [(n, None) for n in PYX_ENTRY]
    done = set()

    def pick(name, method):
        cands = fns.get(name) or []
        for h, b in cands:
            is_m = bool(re.search(r"\(\s*self\b", h))
            if method is None or is_m == method:
                return h, b
        return None
    while queue:
        name, method = queue.pop(0)
        got = pick(name, method)
        if got is None:
            raise ValueError(f"function {name} not found in celllist.pyx")
        header, body = got
        key = (name, bool(re.search(r"\(\s*self\b", header)))
        if key in done:
            continue
        done.add(key)
        private = is_private(name, header)
        prefix, _nm, params = _header_parts(header)
        keep = set() if private else {n for _t, n in params}
        local = _locals_of(params, body, keep)
        lmap = {n: f"v{i}" for i, n in enumerate(local)}

        def sub(text):
            text = _STR_LIT.sub("S", text)
            text = re.sub(r"^raise (\w+)\(.*\)$", r"raise \1", text)
            # private attributes
            def attr(m):
                a = m.group(1)
                if a in fns and any(re.search(r"\(\s*self\b", h) for h, _b in fns[a]) and re.match(r"\s*\(", text[m.end():]):
                    return m.group(0)          # a method call, handled below
                if a not in attrs:
                    attrs[a] = f"A{len(attrs)}"
                return "self." + attrs[a]
            text = re.sub(r"\bself\.(_\w+)", attr, text)
            # helper calls
            def call(m):
                pre, nm = m.group(1), m.group(2)
                meth = pre == "self."
                cands = fns.get(nm)
                if not cands:
                    return m.group(0)
                tgt = pick(nm, meth)
                if tgt is None or not is_private(nm, tgt[0]):
                    if tgt is not None and (nm, meth) not in done and all(q[0] != nm for q in queue):
                        queue.append((nm, meth))
                    return m.group(0)
                k = (nm, meth)
                if k not in helpers:
                    helpers[k] = f"H{len(helpers)}"
                    queue.append((nm, meth))
                return pre + helpers[k] + "("
            text = re.sub(r"((?:self\.)?)\b([A-Za-z_]\w*)\s*\(", lambda m: call(m) if (m.start() == 0 or text[m.start() - 1] != ".") or m.group(1) else m.group(0), text)
            # locals (not attributes, not keyword arguments `name=value` inside calls)
            def loc(m):
                n = m.group(1)
                if n not in lmap:
                    return n
                rest = text[m.end():]
                if rest.startswith("=") and not rest.startswith("==") and m.start() > 0 and text[m.start() - 1] in "(, " \
                        and not re.match(r"(cdef\s|[\w, ]*$)", text[:m.start()]):
                    return n
                return lmap[n]
            return _IDENT.sub(loc, text)
        if private:
            hname = helpers.get(key) or helpers.setdefault(key, f"H{len(helpers)}")
            ptxt = ", ".join(_IDENT.sub(lambda m: lmap.get(m.group(1), m.group(1)), _STR_LIT.sub("S", t)) for t, _n in params)
            head = f"{prefix}{hname}({ptxt}):"
            ident = "pyx_" + hname
        else:
            head = _STR_LIT.sub("S", header)
            ident = "pyx_" + name.strip("_")
        out.append((ident, head, [(ind, sub(st)) for ind, st in body]))
    return out, helpers, attrs


class _BoxNorm(ast.NodeTransformer):
    def __init__(self, params):
        self.map = {}
        self.params = set(params)

    def _name(self, n):
        if n in self.params:
            return n
        if n not in self.map:
            self.map[n] = f"v{len(self.map)}"
        return self.map[n]

    def visit_Constant(self, node):
        return ast.copy_location(ast.Name(id="S", ctx=ast.Load()), node) if isinstance(node.value, str) else node

    def visit_JoinedStr(self, node):
        return ast.copy_location(ast.Name(id="S", ctx=ast.Load()), node)

    def visit_Raise(self, node):
        if isinstance(node.exc, ast.Call):
            node.exc = node.exc.func
        return node


def _negate(e):
    """logical negation with the `not` pushed inwards (De Morgan, flipped comparisons)"""
    flip = {ast.Eq: ast.NotEq, ast.NotEq: ast.Eq, ast.Lt: ast.GtE, ast.GtE: ast.Lt, ast.Gt: ast.LtE, ast.LtE: ast.Gt,
            ast.Is: ast.IsNot, ast.IsNot: ast.Is, ast.In: ast.NotIn, ast.NotIn: ast.In}
    if isinstance(e, ast.UnaryOp) and isinstance(e.op, ast.Not):
        return e.operand
    if isinstance(e, ast.BoolOp):
        return ast.BoolOp(op=ast.Or() if isinstance(e.op, ast.And) else ast.And(), values=[_negate(v) for v in e.values])
    if isinstance(e, ast.Compare) and len(e.ops) == 1 and type(e.ops[0]) in flip:
        return ast.Compare(left=e.left, ops=[flip[type(e.ops[0])]()], comparators=e.comparators)
    return ast.UnaryOp(op=ast.Not(), operand=e)


def _canonical_control_flow(stmts, in_loop=False):
    """Equivalent control flow in one shape: `for a, b, c in itertools.product(R, repeat=3)` (or product(R, R, R)) becomes three
    nested loops; inside a loop `if C: continue` followed by the rest of the body becomes `if not C: <rest>`."""
    import copy
    out = []
    i = 0
    while i < len(stmts):
        st = stmts[i]
        if isinstance(st, ast.For) and isinstance(st.iter, ast.Call) and isinstance(st.target, ast.Tuple) and not st.orelse:
            f = st.iter.func
            name = f.attr if isinstance(f, ast.Attribute) else getattr(f, "id", None)
            if name == "product":
                n = len(st.target.elts)
                rep = [k.value for k in st.iter.keywords if k.arg == "repeat"]
                args = list(st.iter.args)
                if rep and len(args) == 1 and isinstance(rep[0], ast.Constant) and rep[0].value == n:
                    args = [copy.deepcopy(args[0]) for _ in range(n)]
                if len(args) == n and not (rep and len(st.iter.args) != 1):
                    body = st.body
                    for tgt, it in reversed(list(zip(st.target.elts, args))):
                        body = [ast.For(target=tgt, iter=it, body=body, orelse=[], type_comment=None)]
                    st = body[0]
        if isinstance(st, (ast.For, ast.While)):
            st.body = _canonical_control_flow(st.body, True)
        elif isinstance(st, ast.If):
            if (in_loop and len(st.body) == 1 and isinstance(st.body[0], ast.Continue) and not st.orelse and i + 1 < len(stmts)):
                rest = _canonical_control_flow(stmts[i + 1:], in_loop)
                out.append(ast.If(test=_negate(st.test), body=rest, orelse=[]))
                return out
            st.body = _canonical_control_flow(st.body, in_loop)
            st.orelse = _canonical_control_flow(st.orelse, in_loop)
        out.append(st)
        i += 1
    return out


def _inline_temps(fn, body):
    """`t = expr` immediately followed by the only statement that reads `t` (bound once in the whole function): substitute.
    (so that naming or un-naming an intermediate value is not a difference)"""
    def counts():
        st, ld = {}, {}
        for nd in ast.walk(fn):
            if isinstance(nd, ast.Name):
                d = st if isinstance(nd.ctx, ast.Store) else ld
                d[nd.id] = d.get(nd.id, 0) + 1
        return st, ld
    params = {a.arg for a in fn.args.args + fn.args.kwonlyargs}

    def block(stmts):
        changed = True
        while changed:
            changed = False
            st, ld = counts()
            for i in range(len(stmts) - 1):
                a = stmts[i]
                if (isinstance(a, ast.Assign) and len(a.targets) == 1 and isinstance(a.targets[0], ast.Name)):
                    n = a.targets[0].id
                    nxt = stmts[i + 1]
                    head = nxt
                    if isinstance(nxt, (ast.For, ast.If, ast.While)):
                        continue
                    uses = [x for x in ast.walk(head) if isinstance(x, ast.Name) and x.id == n and isinstance(x.ctx, ast.Load)]
                    if n not in params and st.get(n) == 1 and ld.get(n) == 1 and len(uses) == 1:
                        class Sub(ast.NodeTransformer):
                            def visit_Name(self, node):
                                return a.value if (node.id == n and isinstance(node.ctx, ast.Load)) else node
                        stmts[i + 1] = Sub().visit(nxt)
                        del stmts[i]
                        changed = True
                        break
        for s_ in stmts:
            for fld in ("body", "orelse"):
                if isinstance(getattr(s_, fld, None), list) and getattr(s_, fld):
                    block(getattr(s_, fld))
        return stmts
    return block(list(body))


def _normalise_box(src):
    """box.py functions: annotations, docstrings, `assert`s, raise-arguments dropped; locals v0, v1, … in order of first
    binding; public function and parameter names kept."""
    tree = ast.parse(src)
    found = {n.name: n for n in tree.body if isinstance(n, ast.FunctionDef)}
    out = []
    for name in BOX_FUNCS:
        fn = found.get(name)
        if fn is None:
            raise ValueError(f"function {name} not found in box.py")
        for a in fn.args.args + fn.args.kwonlyargs:
            a.annotation = None
        fn.returns = None
        params = [a.arg for a in fn.args.args + fn.args.kwonlyargs]
        body = fn.body[1:] if ast.get_docstring(fn) else fn.body
        fn.body = _canonical_control_flow(list(body))
        ast.fix_missing_locations(fn)
        body = _inline_temps(fn, fn.body)
        bound = []
        for nd in ast.walk(ast.Module(body=body, type_ignores=[])):
            if isinstance(nd, ast.Name) and isinstance(nd.ctx, ast.Store) and nd.id not in bound and nd.id not in params:
                bound.append(nd.id)
        norm = _BoxNorm(params)
        # order of first binding in source order
        stores = sorted(((nd.lineno, nd.col_offset, nd.id) for nd in ast.walk(ast.Module(body=body, type_ignores=[]))
                         if isinstance(nd, ast.Name) and isinstance(nd.ctx, ast.Store) and nd.id not in params))
        for _l, _c, n in stores:
            norm._name(n)
        locs = set(norm.map)

        class Ren(ast.NodeTransformer):
            def visit_Name(self, node):
                if node.id in locs:
                    node.id = norm.map[node.id]
                return node
        stmts = []

        def walk(nodes, ind):
            for nd in nodes:
                if isinstance(nd, ast.Assert):
                    continue
                if isinstance(nd, (ast.For, ast.If, ast.While)):
                    def up(x):
                        return ast.unparse(Ren().visit(norm.visit(x)))
                    if isinstance(nd, ast.For):
                        hd = f"for {up(nd.target)} in {up(nd.iter)}:"
                    else:
                        hd = ("if " if isinstance(nd, ast.If) else "while ") + up(nd.test) + ":"
                    stmts.append((ind, hd))
                    walk(nd.body, ind + 4)
                    if nd.orelse:
                        stmts.append((ind, "else:"))
                        walk(nd.orelse, ind + 4)
                else:
                    stmts.append((ind, ast.unparse(Ren().visit(norm.visit(nd))).replace("\n", " ")))
        walk(body, 4)
        out.append(("box_" + name, f"def {name}({ast.unparse(fn.args)}):", stmts))
    return out


def _lean_str(x):
    return '"' + x.replace("\\", "\\\\").replace('"', '\\"') + '"'


def _source_functions():
    """Alpha-normalised modelled functions: (lean identifier, header, [(indent, statement)]), plus the helper-name map."""
    from common import paths
    pyx, helpers, attrs = _normalise_pyx(_pyx_functions(open(os.path.join(paths.SRC, "biotite/structure/celllist.pyx")).read()))
    box = _normalise_box(open(os.path.join(paths.SRC, "biotite/structure/box.py")).read())
    return pyx + box, helpers, attrs


def _fn_literal(header, stmts):
    return "⟨" + _lean_str(header) + ", [" + ", ".join(f"({i}, {_lean_str(t)})" for i, t in stmts) + "]⟩"


def gen_lean():
    """Gen/C14.lean: (1) facts parsed from the alpha-normalised functions (found structurally, not by private name),
    (2) the alpha-normalised text of every modelled function.  Raises (= broken tie) when a construct is not found."""
    fns, helpers, attrs = _source_functions()
    by_id = {ident: (head, body) for ident, head, body in fns}

    def stmts(ident):
        return [t for _i, t in by_id[ident][1]]

    def find_fn(pred, what):
        hits = [ident for ident, _h, body in fns if ident.startswith("pyx_") and pred([t for _i, t in body])]
        if len(hits) != 1:
            raise ValueError(f"construct not found (or ambiguous, {len(hits)} candidates): {what}")
        return hits[0]

    def lin(expr):
        m = re.fullmatch(r"(\w+)([+-])(\w+)(?:([+-])(\d+))?", expr.replace(" ", ""))
        if not m:
            raise ValueError(f"window bound {expr!r} is not of the form x±r±c")
        c = int(m.group(5)) * (1 if m.group(4) == "+" else -1) if m.group(5) else 0
        return m.group(1), (1 if m.group(2) == "+" else -1), m.group(3), c

    # --- the window scan: the function with three nested clipped range loops
    loop_re = re.compile(r"for (\w+) in range\(([^,]+), ?([^)]+)\):")
    clip_re = re.compile(r"if \((\w+) (>=|>) (-?\d+) and (\w+) (<|<=) (\w+)\.shape\[(\d)\]\):")

    def window_of(ss):
        out = []
        for a, b in zip(ss, ss[1:]):
            m, c = loop_re.fullmatch(a), clip_re.fullmatch(b)
            if m and c and c.group(1) == m.group(1) == c.group(4):
                out.append((m, c))
        return out
    scan_id = find_fn(lambda ss: len(window_of(ss)) == 3, "window scan (three nested clipped range loops)")
    ss = stmts(scan_id)
    axes, bases, radii = [], [], set()
    for m, c in window_of(ss):
        b1, s1, r1, c1 = lin(m.group(2))
        b2, s2, r2, c2 = lin(m.group(3))
        if b1 != b2 or r1 != r2:
            raise ValueError("window bounds of one axis use different variables")
        bases.append(b1)
        radii.add(r1)
        axes.append(((s1, c1), (s2, c2), c.group(2), int(c.group(3)), c.group(5), int(c.group(7))))
    if len(radii) != 1:
        raise ValueError("the three window loops do not share one cell radius variable")
    # the loop centres are the three outputs of the cell-index helper, in order
    call = next((re.fullmatch(r"self\.(H\d+)\((\w+), (\w+), (\w+), &(\w+), &(\w+), &(\w+)\)", t) for t in ss
                 if re.fullmatch(r"self\.(H\d+)\((\w+), (\w+), (\w+), &(\w+), &(\w+), &(\w+)\)", t)), None)
    if call is None or [call.group(5), call.group(6), call.group(7)] != bases:
        raise ValueError("window loops are not centred on the outputs of the cell-index helper in axis order")
    idx_id = "pyx_" + call.group(1)
    idx = []
    mins, sizes = set(), set()
    head = by_id[idx_id][0]
    params = re.findall(r"\b(v\d+)\b", head)
    for t in stmts(idx_id):
        m = re.fullmatch(r"(v\d+)\[0\] = <int>\(\((v\d+) - self\.(A\d+)\[(\d)\]\) / self\.(A\d+)\)", t)
        if not m:
            raise ValueError("cell-index helper: statement is not `out[0] = <int>((x - self.min[axis]) / self.cellsize)`: " + t)
        idx.append((params.index(m.group(1)), params.index(m.group(2)), int(m.group(4))))
        mins.add(m.group(3))
        sizes.add(m.group(5))
    if len(idx) != 3 or len(mins) != 1 or len(sizes) != 1:
        raise ValueError("cell-index helper does not consist of three statements on one origin and one cell size")
    # --- distance filter in get_atoms: `d = H(x1,y1,z1,x2,y2,z2)` then `if d <= r2:`
    ga = stmts("pyx_get_atoms")
    dv = next((re.fullmatch(r"(v\d+) = H\d+\((?:v\d+, ){5}v\d+\)", t) for t in ga if re.fullmatch(r"(v\d+) = H\d+\((?:v\d+, ){5}v\d+\)", t)), None)
    if dv is None:
        raise ValueError("construct not found: squared distance helper call in get_atoms")
    cm = [re.fullmatch(r"if (v\d+) (<=|<|>=|>) (v\d+):", t) for t in ga]
    cm = [m for m in cm if m and m.group(1) == dv.group(1)]
    if len(cm) != 1:
        raise ValueError("construct not found: distance filter `if sq_dist ? sq_radius`")
    cmp_ = cm[0].group(2)
    ceils = [t for t in ga if re.search(r"np\.ceil\(radius(?:\[0\])? / self\.%s\)" % next(iter(sizes)), t)]
    if len(ceils) != 2:
        raise ValueError("construct not found: np.ceil(radius / self._cellsize) (per-query and scalar)")
    # --- constructor: cell_count
    cc = [re.fullmatch(r"v\d+ = \(\(\(v\d+ - v\d+\) / cell_size\) ?\+ ?(\d+)\)\.astype\(int\)", t) for t in stmts("pyx_cinit")]
    cc = [m for m in cc if m]
    if len(cc) != 1:
        raise ValueError("construct not found: cell_count = ((max - min) / cell_size + 1).astype(int)")
    plus = int(cc[0].group(1))
    # --- result buffer length
    buf = None
    for ident, _h, body in fns:
        for _i, t in body:
            m = re.fullmatch(r"cdef int v\d+ = \((\d+)\*v\d+ \+ (\d+)\)\*\*(\d+) \* self\.A\d+", t)
            if m:
                buf = tuple(int(g) for g in m.groups())
    if buf is None:
        raise ValueError("construct not found: cdef int length = (2*max_cell_radius + 1)**3 * self._max_cell_length")
    if not any(re.fullmatch(r"(v\d+)\[\1 != -1\] %= self\.A\d+", t) for _id, _h, body in fns for _i, t in body):
        raise ValueError("construct not found: indices[indices != -1] %= self._orig_length")
    # --- box.py
    rb_head, rb_body = by_id["box_repeat_box_coord"]
    m = re.search(r"amount=(\d+)\)", rb_head)
    if not m:
        raise ValueError("construct not found: default of repeat_box_coord(amount)")
    amount = int(m.group(1))
    loops = [(i, t) for i, t in rb_body if re.fullmatch(r"for v\d+ in range\(-amount, amount \+ 1\):", t)]
    if len(loops) != 3 or [i for i, _t in loops] != [loops[0][0], loops[0][0] + 4, loops[0][0] + 8]:
        raise ValueError("construct not found: three nested loops over range(-amount, amount + 1) in repeat_box_coord")
    if not any("% 1" in t for _i, t in by_id["box_move_inside_box"][1]):
        raise ValueError("construct not found: `% 1` in move_inside_box")

    def b(x):
        return "true" if x else "false"
    body = [
        "/- REGENERATED on every run by harness/props/c14.py from structure/celllist.pyx and structure/box.py. Do not edit. -/",
        "namespace BiotiteModel.Gen.C14",
        "/-- per axis: window `range(i + lo.1*cell_r + lo.2, i + hi.1*cell_r + hi.2)`,",
        "clip test `adj >= / > lowC` and `adj < / <= cells.shape[shapeAxis]`. -/",
        "structure Axis where",
        "  loSign : Int",
        "  loConst : Int",
        "  hiSign : Int",
        "  hiConst : Int",
        "  lowIsGe : Bool",
        "  lowC : Int",
        "  highIsLt : Bool",
        "  shapeAxis : Nat",
        "  deriving DecidableEq, Repr",
        "def window : List Axis := [" + ", ".join(
            f"⟨{lo[0]}, {lo[1]}, {hi[0]}, {hi[1]}, {b(ge == '>=')}, {lc}, {b(lt == '<')}, {sh}⟩"
            for lo, hi, ge, lc, lt, sh in axes) + "]",
        "/-- the cell-index helper: (position of the output parameter, position of the coordinate parameter, origin axis). -/",
        "def cellIndex : List (Nat × Nat × Nat) := [" + ", ".join(f"({a}, {c}, {n})" for a, c, n in idx) + "]",
        "/-- the comparison in `if sq_dist ? sq_radius` -/",
        f'def distCmp : String := "{cmp_}"',
        "/-- `cell_count = ((max-min)/cell_size + cellCountPlus).astype(int)` -/",
        f"def cellCountPlus : Int := {plus}",
        "/-- `length = (a*max_cell_radius + b)**e * max_cell_length` -/",
        f"def bufLen : Nat × Nat × Nat := ({buf[0]}, {buf[1]}, {buf[2]})",
        "/-- default `amount` of `repeat_box_coord` (images per axis = 2*amount+1) -/",
        f"def repeatAmount : Nat := {amount}",
        "/-- A function of the source in alpha-normalised form: private helpers H0, H1, … (order of first call from the public",
        "entry points), private attributes A0, A1, …, locals and parameters of private helpers v0, v1, … (order of first binding);",
        "comments, docstrings, annotations (box.py), `assert`s (box.py), message arguments of `raise` and string literals dropped. -/",
        "structure Fn where",
        "  header : String",
        "  body : List (Nat × String)",
        "  deriving DecidableEq, Repr"]
    for ident, head, st in fns:
        body.append(f"def {ident} : Fn := {_fn_literal(head, st)}")
    body += ["end BiotiteModel.Gen.C14", ""]
    return {"BiotiteModel/Gen/C14.lean": "\n".join(body)}


# ---------------------------------------------------------------- helpers shared by generator / adapter / oracle
def _ints(xs):
    xs = list(xs)
    return ",".join(str(int(x)) for x in xs) if xs else "_"


def _parse_ints(s):
    return [] if s in ("_", "") else [int(x) for x in s.split(",")]


def _parse_ops(ops):
    """ops -> spec dict (exact rationals as ints + scale)."""
    spec = None
    qs = []
    for op in ops:
        w = op.split()
        if w[0] == "new":
            ks = _parse_ints(w[5])
            src = None
            if "/" in w[3]:
                # AtomArray input: explicit `box` argument / the array's own box / periodic flag (p|n).
                # Documented precedence: the `box` parameter overrides the AtomArray's box.
                e_tok, o_tok, p_tok = w[3].split("/")
                expl = None if e_tok == "-" else _parse_ints(e_tok)
                own = None if o_tok == "-" else _parse_ints(o_tok)
                src = {"expl": expl, "own": own, "periodic": p_tok == "p"}
                eff = (expl if expl is not None else own) if p_tok == "p" else None
            else:
                eff = None if w[3] == "-" else _parse_ints(w[3])
            spec = {"S": int(w[1]), "cs": int(w[2]),
                    "box": eff, "src": src,
                    "sel": None if w[4] == "-" else ([] if w[4] == "_" else [ch == "1" for ch in w[4]]),
                    "coords": [ks[i:i + 3] for i in range(0, len(ks), 3)]}
        elif w[0] in ("atoms", "cells"):
            ks = _parse_ints(w[3])
            kind, vals = w[4].split(":")
            qs.append({"op": w[0], "mode": w[1], "shape": w[2], "q": [ks[i:i + 3] for i in range(0, len(ks), 3)],
                       "rad_kind": kind, "rad": int(vals) if kind == "s" else _parse_ints(vals)})
        elif w[0] == "adj":
            qs.append({"op": "adj", "thr": int(w[1])})
    return spec, qs


_LAST = {}


# ---------------------------------------------------------------- the same value in another spelling
_INT_TYPES = ("int8", "int16", "int32", "int64", "uint8", "uint16", "uint32", "uint64")


def _spell_scalar(np, v, rnd, allow_bool=False):
    """A Python/NumPy scalar of a randomly chosen type that represents the float value v exactly."""
    if rnd is None:
        return v
    import warnings
    cands = [float(v), np.float64(v)]
    if float(np.float32(v)) == float(v):
        cands.append(np.float32(v))
    with warnings.catch_warnings():
        warnings.simplefilter("ignore")
        h = np.float16(v)
    if np.isfinite(h) and float(h) == float(v):
        cands.append(h)
    if float(v) == int(v):
        iv = int(v)
        cands.append(iv)
        for t in _INT_TYPES:
            info = np.iinfo(t)
            if info.min <= iv <= info.max:
                cands.append(getattr(np, t)(iv))
        if allow_bool and iv in (0, 1):
            cands += [bool(iv), np.bool_(iv)]
    return rnd.choice(cands)


def _spell_array(np, a, rnd, ints=False, allow_list=False):
    """The same array values as float64 / Fortran order / strided view / byte-swapped / read-only float64 /
    (u)int of several widths when integral / list.  (read-only *float32* and read-only int32 are rejected by the
    unchanged code: known finding, kept in its own witness case.)"""
    if rnd is None:
        return a
    kinds = ["same", "same", "wide", "F", "strided", "swap", "ro-wide"]
    vals = np.asarray(a, dtype=np.float64)
    if vals.size and np.all(vals == np.round(vals)) and np.all(np.abs(vals) < 2 ** 31):
        kinds += ["i64", "i16" if np.all(np.abs(vals) < 2 ** 15) else "i64", "u8" if np.all((vals >= 0) & (vals < 256)) else "i64"]
    if not ints and vals.size:
        with np.errstate(all="ignore"):
            if np.all(vals.astype(np.float16).astype(np.float64) == vals):
                kinds.append("f16")
    if allow_list:
        kinds.append("list")
    k = rnd.choice(kinds)
    if k == "same":
        return a
    if k == "wide":
        return a.astype(np.int64 if ints else np.float64)
    if k == "F":
        return np.asfortranarray(a)
    if k == "strided":
        big = np.zeros(a.shape[:-1] + (a.shape[-1] * 2,), dtype=a.dtype)
        big[..., ::2] = a
        return big[..., ::2]
    if k == "swap":
        return a.astype(a.dtype.newbyteorder())
    if k == "ro-wide":
        w = a.astype(np.int64 if ints else np.float64)
        w.flags.writeable = False
        return w
    if k == "f16":
        return a.astype(np.float16)
    if k == "list":
        return a.tolist()
    return a.astype({"i64": np.int64, "i16": np.int16, "u8": np.uint8}[k])


def _sp(case):
    import random
    return random.Random(case["sp"]) if case.get("sp") is not None else None


def _box_matrix(np, b, sc):
    if b is None:
        return None
    if len(b) == 9:     # full matrix, row = box vector
        return (np.array(b, dtype=np.float64).reshape(3, 3) * sc).astype(np.float32)
    return np.diag(np.array(b, dtype=np.float64) * sc).astype(np.float32)


def _snap_args(np, arr, box, sel):
    out = []
    for name, a in (("coordinates", arr), ("box", box), ("selection mask", sel)):
        if isinstance(a, np.ndarray):
            out.append((name, a, a.tobytes(), a.dtype, a.shape))
        elif a is not None and hasattr(a, "coord"):
            out.append(("AtomArray.coord", a.coord, a.coord.tobytes(), a.coord.dtype, a.coord.shape))
            if a.box is not None:
                out.append(("AtomArray.box", a.box, a.box.tobytes(), a.box.dtype, a.box.shape))
    return out


def _snap_changed(snaps):
    return [name for name, a, b, dt, sh in snaps if a.tobytes() != b or a.dtype != dt or a.shape != sh]


def _construct(np, rnd, arr, cs, periodic, box, sel):
    """CellList(...) with positional or keyword arguments, defaults omitted or spelled out."""
    from biotite.structure import CellList
    _LAST["ctor_snap"] = []
    if rnd is None:
        _LAST["ctor_snap"] = _snap_args(np, arr, box, sel)
        return CellList(arr, cs, periodic=periodic, box=box, selection=sel)
    cs = _spell_scalar(np, cs, rnd)
    if box is not None and isinstance(box, np.ndarray):
        b = rnd.choice(["same", "f64", "F-ro", "int"])
        if b == "f64":
            box = box.astype(np.float64)
        elif b == "F-ro":
            box = np.asfortranarray(box)
            box.flags.writeable = False
        elif b == "int" and np.all(box == np.round(box)):
            box = box.astype(np.int64)
    _LAST["ctor_snap"] = _snap_args(np, arr, box, sel)
    style = rnd.choice(["pos", "kw", "mixed", "minimal"])
    if style == "pos":
        return CellList(arr, cs, periodic, box, sel)
    if style == "kw":
        return CellList(atom_array=arr, cell_size=cs, periodic=periodic, box=box, selection=sel)
    if style == "minimal":
        kw = {}
        if periodic:
            kw["periodic"] = True if rnd.random() < 0.5 else np.bool_(True)
        if box is not None:
            kw["box"] = box
        if sel is not None:
            kw["selection"] = sel
        return CellList(arr, cs, **kw)
    return CellList(arr, cell_size=cs, periodic=periodic, box=box, selection=sel)


def _build(np, spec, exact, rnd=None):
    """Construct the real CellList from a spec. exact: ints/2^S ; else floats.

    spec["box"] is the box that must be in effect by the documentation; spec["src"] (exact) or
    spec["own_box"/"box_pass"] (float) say how the boxes are handed over (ndarray vs AtomArray carrying its own box).
    rnd: a random.Random choosing another spelling of the same argument values (None: canonical float32 arrays)."""
    from biotite.structure import AtomArray
    sel = None if spec["sel"] is None else np.array(spec["sel"], dtype=bool)
    _LAST["sel"] = sel
    if exact:
        sc = 2.0 ** (-spec["S"])
        coords = (np.array(spec["coords"], dtype=np.float64).reshape(-1, 3) * sc).astype(np.float32)
        cs = spec["cs"] * sc
        box = _box_matrix(np, spec["box"], sc)
        src = spec.get("src")
        if src is None:
            arr = _spell_array(np, coords, rnd, allow_list=len(coords) > 0) if len(coords) else coords
            return _construct(np, rnd, arr, cs, box is not None, box, sel), coords, box
        atoms = AtomArray(len(coords))
        atoms.coord = coords
        own = _box_matrix(np, src["own"], sc)
        if own is not None:
            atoms.box = own
        return (_construct(np, rnd, atoms, cs, src["periodic"], _box_matrix(np, src["expl"], sc), sel), coords, box)
    coords = np.array(spec["coords"], dtype=np.float64).reshape(-1, 3).astype(np.float32)
    cs = spec["cs"]
    box = None if spec["box"] is None else np.array(spec["box"], dtype=np.float32)
    if not spec.get("as_atoms"):
        return _construct(np, rnd, _spell_array(np, coords, rnd, allow_list=True), cs, box is not None, box, sel), coords, box
    atoms = AtomArray(len(coords))
    atoms.coord = coords
    if spec.get("box_pass") == "own":          # only the AtomArray carries the box
        atoms.box = box
        return _construct(np, rnd, atoms, cs, box is not None, None, sel), coords, box
    if spec.get("own_box") is not None:        # the AtomArray carries a *different* box; the explicit one must win
        atoms.box = np.array(spec["own_box"], dtype=np.float32)
    return _construct(np, rnd, atoms, cs, box is not None, box, sel), coords, box


def _rows_from_idx(np, arr, single, n, periodic):
    """index output -> list of sorted sets; structural checks -> 'BAD:...' string."""
    a = np.asarray(arr)
    if a.dtype != np.int32:
        return "BAD:dtype=" + str(a.dtype)
    if single:
        if a.ndim != 1:
            return "BAD:ndim"
        a = a[None, :]
    elif a.ndim != 2:
        if a.ndim == 1 and a.shape[0] == 0:
            return []
        return "BAD:ndim"
    rows = []
    for r in a:
        r = [int(x) for x in r]
        k = len(r)
        while k and r[k - 1] == -1:
            k -= 1
        body = r[:k]
        if any(x == -1 for x in body):
            return "BAD:padding-inside"
        if any(x < 0 or x >= n for x in body):
            return "BAD:index-out-of-range"
        if not periodic and len(set(body)) != len(body):
            return "BAD:duplicate-index"
        rows.append(sorted(set(body)))
    return rows


def _rows_from_mask(np, arr, single, n):
    a = np.asarray(arr)
    if a.dtype != np.bool_:
        return "BAD:dtype=" + str(a.dtype)
    if single:
        if a.shape != (n,):
            return "BAD:shape"
        a = a[None, :]
    elif a.ndim != 2:
        if a.ndim == 1 and a.shape[0] == 0:
            return []
        return "BAD:ndim"
    elif a.shape[1] != n:
        return "BAD:shape"
    return [[int(i) for i in np.nonzero(r)[0]] for r in a]


def _show(rows, single):
    if isinstance(rows, str):
        return rows
    if single:
        return "ok s " + _ints(rows[0]) if len(rows) == 1 else "BAD:shape"
    if not rows:
        return "ok m -"
    return "ok m " + ";".join(_ints(r) for r in rows)


def _query(np, cl, q, n, periodic, exact, S=0, wide=False, issues=None, rnd=None):
    """Run one query op on the real cell list -> rows (list of sorted lists) or 'BAD…'; raises on error.

    wide: pass float64 coordinates / float64 (int64) radii instead of float32 (int32).
    rnd: random.Random choosing another spelling of the same argument values and the call style
         (positional / keyword / defaults omitted).
    issues: if a list, every array argument must be bit-identical after the call — also when the call raises —
    and the call is repeated with the *same* argument objects: the second answer must equal the first."""
    sc = 2.0 ** (-S) if exact else 1.0
    if q["op"] == "adj":
        thr = _spell_scalar(np, q["thr"] * sc, rnd)
        if rnd is not None and rnd.random() < 0.5:
            m = cl.create_adjacency_matrix(threshold_distance=thr)
        else:
            m = cl.create_adjacency_matrix(thr)
        if m.shape != (n, n):
            return "BAD:shape"
        if issues is not None:
            m2 = cl.create_adjacency_matrix(thr)
            if not np.array_equal(m, m2):
                issues.append(("repeated-query-differs", f"create_adjacency_matrix({thr!r}) called twice gives different matrices"))
        return _rows_from_mask(np, m, False, n)
    pts = np.array(q["q"], dtype=np.float64).reshape(-1, 3) * sc
    pts = pts.astype(np.float64 if wide else np.float32)
    single = q["shape"] == "s"
    if single:
        pts = pts[0]
    if pts.size:
        pts = _spell_array(np, pts, rnd)
    as_mask = q["mode"] == "mask"
    if q["op"] == "atoms":
        if q["rad_kind"] == "s":
            rad = _spell_scalar(np, q["rad"] * sc, rnd)
        else:
            rad = (np.array(q["rad"], dtype=np.float64) * sc).astype(np.float64 if wide else np.float32)
            if rad.size:
                rad = _spell_array(np, rad, rnd)
        fn, rname = cl.get_atoms, "radius"
    else:
        if q["rad_kind"] == "s":
            rad = int(q["rad"]) if rnd is None else _spell_scalar(np, int(q["rad"]), rnd, allow_bool=True)
        else:
            rad = np.array(q["rad"], dtype=np.int64 if (wide or any(abs(x) >= 2 ** 31 for x in q["rad"])) else np.int32)
            if rad.size:
                rad = _spell_array(np, rad, rnd, ints=True)
        fn, rname = cl.get_atoms_in_cells, "cell_radius"
    style = "canon" if rnd is None else rnd.choice(["pos", "kw", "default", "canon"])
    mflag = as_mask if (rnd is None or rnd.random() < 0.6) else np.bool_(as_mask)

    def call():
        if style == "pos":
            return fn(pts, rad, mflag)
        if style == "kw":
            return fn(coord=pts, as_mask=mflag, **{rname: rad})
        if style == "default":        # leave out every argument that has its default value
            kw = {}
            if as_mask:
                kw["as_mask"] = mflag
            if rname == "cell_radius" and not isinstance(rad, np.ndarray) and rad == 1:
                return fn(pts, **kw)
            return fn(pts, rad, **kw)
        return fn(pts, rad, as_mask=mflag)
    snaps = [(name, a, a.tobytes()) for name, a in (("query coordinates", pts), ("radius array", rad)) if isinstance(a, np.ndarray)]

    def modified():
        out = []
        for name, a, b in snaps:
            if a.tobytes() != b:
                out.append(("caller-array-modified", f"{q['op']} overwrote the caller's {name} ({a.dtype}): now {a.tolist()}"[:300]))
        return out
    import warnings
    try:
        with warnings.catch_warnings():
            warnings.simplefilter("ignore", RuntimeWarning)     # numpy: "invalid value encountered in cast" for radii beyond int32
            res = call()
    except Exception:
        if issues is not None:
            issues += modified()
        raise
    if issues is not None:
        issues += modified()
        if issues:      # do not query again with corrupted arguments (a squared radius can ask for gigabytes)
            return _rows_from_mask(np, res, single, n) if as_mask else _rows_from_idx(np, res, single, n, periodic)
        res2 = call()
        if not np.array_equal(np.asarray(res), np.asarray(res2)):
            issues.append(("repeated-query-differs", f"{q['op']} with the same argument objects ({getattr(pts, 'dtype', 'list')} coordinates, "
                           f"{getattr(rad, 'dtype', type(rad).__name__)} radii) answers differently the second time: "
                           f"{np.asarray(res).tolist()} vs {np.asarray(res2).tolist()}"[:400]))
    if as_mask:
        return _rows_from_mask(np, res, single, n)
    return _rows_from_idx(np, res, single, n, periodic)


# ---------------------------------------------------------------- implementation adapter
def run_impl(case):
    """Every real call runs in a forked child: a wrong index inside celllist (unchecked C indexing) must not kill the check."""
    from common.sandbox import run_forked
    _warm()
    _prefetch("impl")
    hit = _CACHE["impl"].get(_sig(case))
    if hit is not None:
        return hit
    r = run_forked(_run_impl_inner, case, timeout=120)
    if r[0] == "ok":
        return r[1]
    if r[0] == "err":
        return ["UNCAUGHT:" + r[1]] * len(case["ops"])
    return ["CRASH" if r[0] == "crash" else "TIMEOUT"] * len(case["ops"])


def _run_impl_inner(case):
    import numpy as np
    out = []
    cl = None
    spec = None
    rnd = _sp(case)
    for op in case["ops"]:
        w = op.split()
        try:
            if w[0] == "new":
                spec, _ = _parse_ops([op])
                cl = None
                cl, _c, _b = _build(np, spec, True, rnd)
                out.append("ok")
            elif cl is None:
                out.append("no-state")
            else:
                _s, qs = _parse_ops([op])
                q = qs[0]
                rows = _query(np, cl, q, len(spec["coords"]), spec["box"] is not None, True, spec["S"], rnd=rnd)
                out.append(_show(rows, q.get("shape") == "s"))
        except Exception as e:  # noqa: BLE001
            out.append("ERR:" + type(e).__name__)
    return out


# ---------------------------------------------------------------- property oracle (independent of the model)
def _mat_inv(M):
    """Exact inverse (Fractions) of a 3x3 integer matrix given as 9 ints row-major; None if singular."""
    a1, a2, a3, b1, b2, b3, c1, c2, c3 = [Fraction(x) for x in M]
    det = a1 * (b2 * c3 - b3 * c2) - a2 * (b1 * c3 - b3 * c1) + a3 * (b1 * c2 - b2 * c1)
    if det == 0:
        return None
    return [[(b2 * c3 - b3 * c2) / det, (a3 * c2 - a2 * c3) / det, (a2 * b3 - a3 * b2) / det],
            [(b3 * c1 - b1 * c3) / det, (a1 * c3 - a3 * c1) / det, (a3 * b1 - a1 * b3) / det],
            [(b1 * c2 - b2 * c1) / det, (a2 * c1 - a1 * c2) / det, (a1 * b2 - a2 * b1) / det]]


def _is_orthogonal_rows(M):
    r = [M[0:3], M[3:6], M[6:9]]
    return all(sum(r[i][k] * r[j][k] for k in range(3)) == 0 for i, j in ((0, 1), (0, 2), (1, 2)))


def _lattice_min(M, inv, d, cheb=False):
    """Exact minimum over ALL lattice vectors n@M of |d + n@M|^2 (or the Chebyshev norm): d integer vector."""
    rows = [M[0:3], M[3:6], M[6:9]]
    f = [sum(Fraction(d[k]) * inv[k][i] for k in range(3)) for i in range(3)]
    n0 = [-round(x) for x in f]

    def vec(nv):
        return [d[k] + sum(nv[i] * rows[i][k] for i in range(3)) for k in range(3)]

    def val(v):
        return max(abs(x) for x in v) if cheb else sum(x * x for x in v)
    v0 = vec(n0)
    R2 = sum(x * x for x in v0)                      # Euclidean bound also bounds the Chebyshev search (cheb <= eucl)
    cn = [math.sqrt(float(sum(inv[k][i] ** 2 for k in range(3)))) for i in range(3)]
    K = [int(math.sqrt(float(R2)) * cn[i]) + 2 for i in range(3)]
    best = val(v0)
    for i in range(-K[0], K[0] + 1):
        for j in range(-K[1], K[1] + 1):
            for k in range(-K[2], K[2] + 1):
                c = val(vec([n0[0] + i, n0[1] + j, n0[2] + k]))
                if c < best:
                    best = c
    return best


def _exact_sets(spec, q):
    """Brute force over exact rationals (ints / 2^S share the scale, so integers suffice).
    Periodic: true minimum image over ALL lattice vectors (per axis for diagonal boxes, exact search otherwise)."""
    coords = spec["coords"]
    n = len(coords)
    sel = spec["sel"] if spec["sel"] is not None else [True] * n
    box = spec["box"]
    full = box is not None and len(box) == 9
    inv = _mat_inv(box) if full else None
    if box is not None and not full:
        box = [abs(x) for x in box]          # a mirrored box vector spans the same lattice

    def d2(a, p):
        if full:
            return _lattice_min(box, inv, [a[k] - p[k] for k in range(3)])
        t = 0
        for ax in range(3):
            d = a[ax] - p[ax]
            if box is not None:
                L = box[ax]
                d %= L
                d = min(d, L - d)
            t += d * d
        return t

    def cheb(a, p):
        if full:
            if _is_orthogonal_rows(box) and all(sum(1 for x in box[3 * i:3 * i + 3] if x) == 1 for i in range(3)):
                return _lattice_min(box, inv, [a[k] - p[k] for k in range(3)], cheb=True)
            # skewed / rotated boxes: only the (weaker) Euclidean ball is required inside the cell query
            m2 = _lattice_min(box, inv, [a[k] - p[k] for k in range(3)])
            return (math.isqrt(m2 - 1) + 1) if m2 > 0 else 0      # ceil(sqrt(m2)): <= k  iff  m2 <= k^2
        m = 0
        for ax in range(3):
            d = a[ax] - p[ax]
            if box is not None:
                L = box[ax]
                d %= L
                d = min(d, L - d)
            m = max(m, abs(d))
        return m
    if q["op"] == "adj":
        r = q["thr"]
        return [([j for j in range(n) if sel[i] and sel[j] and d2(coords[j], coords[i]) <= r * r] if sel[i] else [])
                for i in range(n)], None
    rads = [q["rad"]] * len(q["q"]) if q["rad_kind"] == "s" else q["rad"]
    if q["op"] == "atoms":
        return [[j for j in range(n) if sel[j] and d2(coords[j], p) <= r * r] for p, r in zip(q["q"], rads)], None
    # cells: required subset
    return None, [[j for j in range(n) if sel[j] and cheb(coords[j], p) <= c * spec["cs"]] for p, c in zip(q["q"], rads)]


def _beyond_half_height(spec, r):
    """True iff the box is not orthogonal and radius r (same integer scale) exceeds half of some box height:
    4 r^2 |column_i(inv)|^2 > 1 — outside the hypothesis of C14_triclinic_min_image."""
    box = spec["box"]
    if box is None or len(box) != 9 or _is_orthogonal_rows(box):
        return False
    inv = _mat_inv(box)
    return any(4 * Fraction(r) ** 2 * sum(inv[k][i] ** 2 for k in range(3)) > 1 for i in range(3))


def _float_bounds(np, coords32, box, sel, q):
    """(required, allowed) per query for the float stream; d in float64, band 1e-4 * radius."""
    n = len(coords32)
    A = coords32.astype(np.float64)
    selv = np.ones(n, bool) if sel is None else np.array(sel, bool)
    if q["op"] == "adj":
        P = A
        rads = np.full(n, float(np.float32(q["thr"])))
    else:
        P = np.array(q["q"], dtype=np.float64).reshape(-1, 3).astype(np.float32).astype(np.float64)
        rads = np.full(len(P), float(q["rad"])) if q["rad_kind"] == "s" else np.array(q["rad"], dtype=np.float64)
    D = A[None, :, :] - P[:, None, :]
    if box is not None:
        B = np.asarray(box, dtype=np.float64)
        F = D @ np.linalg.inv(B)
        F -= np.round(F)
        best = None
        rng3 = range(-2, 3)
        for i in rng3:
            for j in rng3:
                for k in rng3:
                    V = (F + np.array([i, j, k], dtype=np.float64)) @ B
                    if q["op"] == "cells":
                        d = np.abs(V).max(axis=-1)
                    else:
                        d = np.sqrt((V * V).sum(axis=-1))
                    best = d if best is None else np.minimum(best, d)
        dist = best
    elif q["op"] == "cells":
        dist = np.abs(D).max(axis=-1)
    else:
        dist = np.sqrt((D * D).sum(axis=-1))
    finite = np.isfinite(P).all(axis=-1)
    req, allowed = [], []
    for i in range(len(P)):
        if not finite[i]:
            req.append([])
            allowed.append([])
            continue
        r = rads[i] * (q.get("cs", 1.0) if q["op"] == "cells" else 1.0)
        band = 1e-4 * r
        row_sel = selv if q["op"] != "adj" else (selv & selv[i])
        req.append([int(j) for j in np.nonzero(row_sel & (dist[i] < r - band))[0]])
        allowed.append([int(j) for j in np.nonzero(row_sel & (dist[i] <= r + band))[0]])
    return req, allowed, dist, rads


def _geometry_disagreement(np, coords32, box, sel, q, rows, dist, rads, tag):
    """Second real code path: biotite's own minimum-image distances (geometry.distance / index_distance with the box),
    thresholded, must equal the periodic cell-list result; the brute-force lattice distances `dist` arbitrate."""
    import biotite.structure as struc
    n = len(coords32)
    selv = np.ones(n, bool) if sel is None else np.array(sel, bool)
    if q["op"] == "adj":
        pairs = np.stack([np.repeat(np.arange(n), n), np.tile(np.arange(n), n)], axis=-1)
        g = np.asarray(struc.index_distance(coords32, pairs, periodic=True, box=box), dtype=np.float64).reshape(n, n)
        P_n = n
    else:
        P = np.array(q["q"], dtype=np.float64).reshape(-1, 3).astype(np.float32)
        P_n = len(P)
        g = np.stack([np.asarray(struc.distance(P[i], coords32, box=box), dtype=np.float64) for i in range(P_n)])
    for i in range(P_n):
        if not np.isfinite(g[i]).all() and not np.isfinite(dist[i]).all():
            continue
        r = rads[i]
        band = 1e-4 * r
        row = set(rows[i])
        for j in range(n):
            if not selv[j] or (q["op"] == "adj" and not selv[i]):
                continue
            if abs(dist[i][j] - r) <= band or abs(g[i][j] - r) <= band:
                continue
            in_cl = j in row
            in_geo = bool(g[i][j] <= r)
            if in_cl != in_geo:
                truth = bool(dist[i][j] <= r)
                side = "geometry-wrong" if truth == in_cl else "celllist-wrong"
                return [(f"C14/{q['op']}/periodic/differs-from-geometry-distance/{side}",
                         f"{q['op']} query {i}, atom {j}, radius {r}: cell list says {in_cl}, thresholded "
                         f"geometry distance(box=box) = {g[i][j]:.6g} says {in_geo}; brute-force minimum image {dist[i][j]:.6g} "
                         f"(box {np.asarray(box).tolist()})")]
    return []


def _max_cell_radius(spec, q):
    """ceil(radius / cell_size) of the largest radius of an exact-stream query (cells: the cell radius itself)."""
    if q["op"] == "adj":
        return -(-q["thr"] // spec["cs"])
    rs = [q["rad"]] if q["rad_kind"] == "s" else (q["rad"] or [0])
    return max(rs) if q["op"] == "cells" else max(-(-r // spec["cs"]) for r in rs)


def _overflow_possible(spec_n, periodic, cs, q):
    """Necessary condition for the C-int overflow of (2*cr+1)^3 * max_cell_length (max_cell_length <= #coords)."""
    if q["op"] == "adj":
        cr = math.ceil(q["thr"] / cs)
    elif q["op"] == "atoms":
        r = q["rad"] if q["rad_kind"] == "s" else max(q["rad"] or [0])
        cr = math.ceil(r / cs)
    else:
        cr = q["rad"] if q["rad_kind"] == "s" else max(q["rad"] or [0])
    return (2 * cr + 1) ** 3 * spec_n * (27 if periodic else 1) >= 2 ** 31


def _oracle_body(case):
    import numpy as np
    if case.get("kind") == "malformed":
        return _oracle_malformed(np, case)
    if case.get("kind") == "ctor-reject":
        return _oracle_ctor_reject(np, case)
    if case.get("kind") == "read-only":
        return _oracle_readonly(np, case)
    if case.get("kind") == "wrapped-defect":
        from biotite.structure import CellList
        c = np.array(case["coords"], dtype=np.float32)
        got = CellList(c, case["cs"]).get_atoms_in_cells(np.array(case["q"], dtype=np.float32), case["cell_radius"])
        got = sorted(int(x) for x in got if x != -1)
        if got != list(range(len(c))):
            return [(K_WRAPPED, f"get_atoms_in_cells(q, {case['cell_radius']}) returned {len(got)} of the {len(c)} atoms that all lie "
                     f"inside the window: the C int buffer length wrapped to a positive value smaller than the number of atoms")]
        return []
    exact = "ops" in case and case.get("spec") is None
    if exact:
        spec, qs = _parse_ops(case["ops"])
        if spec is None:
            return []
    else:
        spec, qs = case["spec"], case["spec"]["queries"]
    v = []
    n = len(spec["coords"])
    valid = case.get("valid", True)
    try:
        rnd = _sp(case)
        cl, coords32, box = _build(np, spec, exact, rnd)
        ctor_snap = _LAST.get("ctor_snap", [])
    except Exception as e:  # noqa: BLE001
        for name in _snap_changed(_LAST.get("ctor_snap", [])):
            v.append(("C14/new/caller-array-modified", f"the refused constructor call modified the caller's {name}"))
        if valid:
            v.append((f"C14/new/unexpected-{type(e).__name__}", f"constructor raised {type(e).__name__}: {e} on valid input {spec}"))
        return v
    if not valid and case.get("expect_reject") == "new":
        v.append(("C14/new/malformed-accepted", f"malformed constructor input accepted: {spec}"))
        return v
    sc = 2.0 ** (-spec["S"]) if exact else 1.0
    cs_f = spec["cs"] * sc
    first_ok = None
    for q in qs:
        if q.get("malformed"):
            try:
                _query(np, cl, q, n, box is not None, exact, spec.get("S", 0))
                v.append((f"C14/{q['op']}/malformed-accepted", f"malformed query accepted: {q}"))
            except ValueError:
                pass
            continue
        qq = dict(q, cs=cs_f)
        tag = f"{q['op']}/{q.get('mode', 'mask')}/{'periodic' if box is not None else 'plain'}"
        issues = []
        st0 = rnd.getstate() if rnd is not None else None     # derived calls replay the same argument spelling / call style:

        def same_spelling(state=st0):                         # results are only compared when obtained from identical inputs
            if state is None:
                return None
            import random
            r_ = random.Random()
            r_.setstate(state)
            return r_
        try:
            rows = _query(np, cl, q, n, box is not None, exact, spec.get("S", 0), issues=issues, rnd=rnd)
            if first_ok is None:
                first_ok = (q, rows, same_spelling)
        except Exception as e:  # noqa: BLE001
            for kind_, msg_ in issues:
                v.append((f"C14/{q['op']}/{kind_}", msg_ + " (the call raised)"))
            qf = dict(q)
            if exact:
                if "rad" in qf and q["op"] == "atoms":
                    qf["rad"] = q["rad"] * sc if q["rad_kind"] == "s" else [r * sc for r in q["rad"]]
                if "thr" in qf:
                    qf["thr"] = q["thr"] * sc
            if exact and isinstance(e, OverflowError) and q.get("rad_kind", "s") == "s" and _max_cell_radius(spec, q) >= 2 ** 31:
                v.append((K_HUGE_SCALAR, f"{q['op']} raised {type(e).__name__}: {e} — radius / cell size >= 2^31 does not fit the int32 cell radius"))
            elif (isinstance(e, ValueError) and "negative dimensions" in str(e)
                    and _overflow_possible(n, box is not None, cs_f, qf)):
                v.append((K_OVERFLOW, f"{q['op']} raised {type(e).__name__}: {e} — the C int (2*cell_radius+1)^3*max_cell_length overflowed"))
            else:
                v.append((f"C14/{tag}/unexpected-{type(e).__name__}", f"{q} raised {type(e).__name__}: {e}"))
            continue
        for kind_, msg_ in issues:
            v.append((f"C14/{q['op']}/{kind_}", msg_))
        if isinstance(rows, str):
            v.append((f"C14/{tag}/malformed-output", f"{q}: {rows}"))
            continue
        light = bool(case.get("light"))
        if q["op"] != "adj" and (exact or (q["rad_kind"] == "m")) and not light:
            # float64 coordinates / float64 (int64) radii: arrays untouched, same answer as with float32 input
            issues_w = []
            try:
                rows_w = _query(np, cl, q, n, box is not None, exact, spec.get("S", 0), wide=True, issues=issues_w)
                for kind_, msg_ in issues_w:
                    v.append((f"C14/{q['op']}/{kind_}", msg_))
                # (a float32 LAPACK inverse of a triclinic box carries ~1e-18 garbage in its zero entries: with float64
                #  coordinates move_inside_box keeps that error, so equality is only demanded where inv(box) is exact)
                inv_exact = spec["box"] is None or len(spec["box"]) == 3 or \
                    all(sum(1 for x in spec["box"][3 * i:3 * i + 3] if x) == 1 for i in range(3))
                if exact and inv_exact and rows_w != rows:
                    v.append((f"C14/{q['op']}/float64-arguments-differ", f"{q}: float32 args {rows} vs float64 args {rows_w}"))
            except Exception as e:  # noqa: BLE001
                v.append((f"C14/{q['op']}/float64-arguments-differ", f"{q} with float64 arguments raised {type(e).__name__}: {e}"))
        if exact:
            want, sup = _exact_sets(spec, q)
            if want is not None and rows != want:
                i = next((k for k in range(min(len(rows), len(want))) if rows[k] != want[k]), 0)
                rmax = q["thr"] if q["op"] == "adj" else (q["rad"] if q["rad_kind"] == "s" else max(q["rad"] or [0]))
                only_missing = len(rows) == len(want) and all(set(a) <= set(b) for a, b in zip(rows, want))
                key = (K_TRICLINIC if (only_missing and _beyond_half_height(spec, rmax)) else f"C14/{tag}/not-exact")
                if q["op"] != "adj" and q["rad_kind"] == "m" and _max_cell_radius(spec, q) >= 2 ** 31:
                    key = K_HUGE_MULTI
                v.append((key, f"{q}: query {i} returned {rows[i] if i < len(rows) else None}, "
                          f"exact minimum-image brute force {want[i] if i < len(want) else None} (box {spec['box']})"))
            if sup is not None:
                selv = spec["sel"] if spec["sel"] is not None else [True] * n
                for i, (r, s) in enumerate(zip(rows, sup)):
                    if not set(s) <= set(r):
                        rmax = (q["rad"] if q["rad_kind"] == "s" else max(q["rad"] or [0])) * spec["cs"]
                        v.append((K_HUGE_MULTI if (q["rad_kind"] == "m" and _max_cell_radius(spec, q) >= 2 ** 31) else
                                  K_TRICLINIC if _beyond_half_height(spec, rmax) else f"C14/{tag}/not-superset",
                                  f"{q}: query {i} misses {sorted(set(s) - set(r))} (box {spec['box']})"))
                        break
                    if any(not selv[j] for j in r):
                        v.append((f"C14/{tag}/unselected-returned", f"{q}: query {i} returned unselected atoms"))
                        break
                if len(rows) != len(sup):
                    v.append((f"C14/{tag}/row-count", f"{q}: {len(rows)} rows for {len(sup)} queries"))
        else:
            req, allowed, dist, rads = _float_bounds(np, coords32, box, spec["sel"], qq)
            if spec.get("geom") and box is not None and q["op"] in ("atoms", "adj") and len(rows) == len(req):
                v += _geometry_disagreement(np, coords32, box, spec["sel"], q, rows, dist, rads, tag)
            if len(rows) != len(req):
                v.append((f"C14/{tag}/row-count", f"{q}: {len(rows)} rows for {len(req)} queries"))
                continue
            for i, r in enumerate(rows):
                if not set(req[i]) <= set(r):
                    span = (coords32.max(axis=0) - coords32.min(axis=0)) / np.float32(spec["cs"])
                    v.append((K_F32GRID if (box is None and float(span.max()) >= 2 ** 24) else f"C14/{tag}/missing-atom", f"query {i} of {q} misses atoms {sorted(set(req[i]) - set(r))[:8]} "
                              f"(within radius outside the 1e-4 band)"))
                    break
                if q["op"] != "cells" and not set(r) <= set(allowed[i]):
                    v.append((f"C14/{tag}/extra-atom", f"query {i} of {q} returns atoms {sorted(set(r) - set(allowed[i]))[:8]} "
                              f"beyond the radius (outside the 1e-4 band)"))
                    break
        # derived views: mask ⇔ indices, scalar ⇔ per-query radii, adjacency symmetric
        if light:
            continue
        if q["op"] in ("atoms", "cells"):
            other = dict(q, mode="mask" if q["mode"] == "idx" else "idx")
            try:
                rows2 = _query(np, cl, other, n, box is not None, exact, spec.get("S", 0), rnd=same_spelling())
                if rows2 != rows:
                    v.append((f"C14/{q['op']}/mask-differs-from-indices", f"{q}: idx/mask disagree: {rows} vs {rows2}"))
            except Exception as e:  # noqa: BLE001
                v.append((f"C14/{q['op']}/mask-differs-from-indices", f"{other} raised {type(e).__name__}"))
            if q["rad_kind"] == "s" and q["shape"] == "m" and len(q["q"]) > 0:
                multi = dict(q, rad_kind="m", rad=[q["rad"]] * len(q["q"]))
                try:
                    rows3 = _query(np, cl, multi, n, box is not None, exact, spec.get("S", 0), rnd=same_spelling())
                    if rows3 != rows:
                        v.append((f"C14/{q['op']}/scalar-differs-from-per-query-radii", f"{q}: {rows} vs {rows3}"))
                except Exception as e:  # noqa: BLE001
                    v.append((f"C14/{q['op']}/scalar-differs-from-per-query-radii", f"{multi} raised {type(e).__name__}"))
        else:
            for i, r in enumerate(rows):
                for j in r:
                    if not exact and abs(dist[i][j] - rads[i]) <= 1e-4 * rads[i]:
                        continue        # pair inside the float guard band of the threshold: either answer is allowed
                    if i not in rows[j]:
                        v.append(("C14/adj/not-symmetric", f"adjacency[{i}][{j}] is True but [{j}][{i}] is False (thr {q['thr']})"))
                        break
    # ---- state across calls on one object / a second object alive at the same time / permuted input order
    if first_ok is not None and not isinstance(first_ok[1], str) and n >= 1 and not case.get("light"):
        q0, rows0, spell0 = first_ok
        try:
            spec2 = dict(spec, coords=list(reversed(spec["coords"])), cs=spec["cs"] * 2,
                         sel=None if spec["sel"] is None else list(reversed(spec["sel"])))
            if exact or (spec["cs"] * 2 > 0):
                cl2, coords2, box2 = _build(np, spec2, exact)
                rows2 = _query(np, cl2, q0, n, box2 is not None, exact, spec.get("S", 0), rnd=spell0())
                if not isinstance(rows2, str) and q0["op"] != "cells":
                    back = ([sorted(n - 1 - j for j in r) for r in reversed(rows2)] if q0["op"] == "adj"
                            else [sorted(n - 1 - j for j in r) for r in rows2])
                    if exact and back != rows0:
                        v.append((f"C14/{q0['op']}/depends-on-atom-order-or-cell-size",
                                  f"{q0}: {rows0} but with the atoms in reverse order and twice the cell size {back} (mapped back)"))
                    elif not exact:
                        req2, allowed2, _d, _r = _float_bounds(np, coords2, box2, spec2["sel"], dict(q0, cs=cs_f * 2))
                        for i, r in enumerate(rows2):
                            if i < len(req2) and (not set(req2[i]) <= set(r) or not set(r) <= set(allowed2[i])):
                                v.append((f"C14/{q0['op']}/depends-on-atom-order-or-cell-size",
                                          f"{q0} on the reversed atoms with twice the cell size: row {i} = {r}, "
                                          f"required {req2[i]}, allowed {allowed2[i]}"))
                                break
            again = _query(np, cl, q0, n, box is not None, exact, spec.get("S", 0), rnd=spell0())
            if again != rows0:
                v.append((f"C14/{q0['op']}/state-across-calls",
                          f"{q0} answered {rows0} first and {again} after {len(qs)} other calls on the same cell list "
                          f"(and a second cell list built in between)"))
        except Exception as e:  # noqa: BLE001
            v.append((f"C14/{q0['op']}/state-across-calls", f"re-issuing {q0} raised {type(e).__name__}: {e}"))
    if box is not None:
        v += _box_function_checks(np, coords32, box, exact)
    for name in _snap_changed(ctor_snap):
        v.append(("C14/new/caller-array-modified", f"the caller's {name} array was modified by the cell list"))
    return v


def _oracle_malformed(np, case):
    """Malformed input must be rejected (ValueError/IndexError/TypeError), never answered; a refused call changes
    nothing: arguments bit-identical, and every valid query answers the same before and after it."""
    v = []
    spec = None
    cl = None
    seen = {}
    for op, exp in zip(case["ops"], case.get("expect", [])):
        w = op.split()[0]
        got = None
        issues = []
        try:
            if w == "new":
                spec, _ = _parse_ops([op])
                cl = None
                cl, _c, _b = _build(np, spec, True)
                got = "ok"
            elif cl is None:
                got = "no-state"
            else:
                _s, qs = _parse_ops([op])
                rows = _query(np, cl, qs[0], len(spec["coords"]), spec["box"] is not None, True, spec["S"], issues=issues)
                got = _show(rows, qs[0].get("shape") == "s")
        except Exception as e:  # noqa: BLE001
            got = "ERR:" + type(e).__name__
            if w == "new":
                for name in _snap_changed(_LAST.get("ctor_snap", [])):
                    v.append(("C14/new/caller-array-modified", f"the refused constructor call {op!r} modified the caller's {name}"))
        for kind_, msg_ in issues:
            v.append((f"C14/{w}/{kind_}", msg_ + f" (op {op!r}, answered {got})"))
        if exp.startswith("rej"):
            allowed = ("ERR:" + exp.split(":")[1],) if ":" in exp else ("ERR:ValueError",)
            if got.startswith("ERR:") and not got.startswith(allowed):
                v.append((f"C14/{w}/refused-with-undocumented-exception", f"malformed op {op!r}: {got!r}, documented {allowed[0]}"))
            elif not got.startswith("ERR:"):
                v.append((f"C14/{w}/malformed-accepted", f"malformed op {op!r} answered {got!r}"))
        if exp == "ok" and not got.startswith("ok"):
            v.append((f"C14/{w}/valid-rejected", f"valid op {op!r} answered {got!r}"))
        if exp == "ok" and w != "new":
            if op in seen and seen[op] != got:
                v.append((f"C14/{w}/refused-call-changed-state", f"{op!r} answered {seen[op]!r} before and {got!r} after a refused call"))
            seen[op] = got
    return v


def _oracle_ctor_reject(np, case):
    """Constructor inputs the documentation rejects; Python-level descriptions (not expressible in the protocol)."""
    import biotite.structure as struc
    what = case["what"]
    c = np.array(case["coords"], dtype=np.float32)
    b = np.diag([8.0, 8.0, 8.0]).astype(np.float32)
    try:
        if what == "stack":
            st = struc.AtomArrayStack(2, len(c))
            st.coord = np.stack([c, c])
            struc.CellList(st, 2.0)
        elif what == "nan-box":
            bb = b.copy()
            bb[1, 1] = np.nan
            struc.CellList(c, 2.0, periodic=True, box=bb)
        elif what == "own-box-shape":
            at = struc.AtomArray(len(c))
            at.coord = c
            at.box = b
            at._box = np.stack([b, b])          # a stack-shaped box on an AtomArray
            struc.CellList(at, 2.0, periodic=True)
        elif what == "nan-coord":
            cc = c.copy()
            cc[0, 1] = np.nan
            struc.CellList(cc, 2.0)
        elif what == "inf-coord-selected":
            cc = c.copy()
            cc[0, 1] = np.inf
            struc.CellList(cc, 2.0, selection=np.ones(len(c), dtype=bool))
        elif what == "bad-shape":
            struc.CellList(c[:, :2], 2.0)
        else:
            return []
    except Exception as e:  # noqa: BLE001
        want = TypeError if what == "stack" else ValueError
        if isinstance(e, want):
            return []
        return [(f"C14/new/refused-with-undocumented-exception/{what}", f"{what}: {type(e).__name__}: {e} (documented {want.__name__})")]
    return [(f"C14/new/malformed-accepted/{what}", f"constructor accepted {what} input")]


def _oracle_readonly(np, case):
    """Read-only / non-contiguous spellings of valid arguments must be answered like the writable contiguous ones."""
    from biotite.structure import CellList
    c = np.array(case["coords"], dtype=np.float32)
    qp = np.array(case["q"], dtype=np.float32)
    sel = np.array(case["sel"], dtype=bool)
    r = float(case["r"])

    def ro(a):
        a = a.copy()
        a.flags.writeable = False
        return a
    ref = CellList(c, 2.0).get_atoms(qp, r, as_mask=True)
    refc = CellList(c, 2.0).get_atoms_in_cells(qp, np.array([1] * len(qp), dtype=np.int32), as_mask=True)
    refs = CellList(c, 2.0, selection=sel).get_atoms(qp, r, as_mask=True)
    big = np.zeros(2 * len(sel), dtype=bool)
    big[::2] = sel
    trials = [
        ("constructor-coordinates", K_READONLY, lambda: CellList(ro(c), 2.0).get_atoms(qp, r, as_mask=True), ref),
        ("query-coordinates", K_READONLY, lambda: CellList(c, 2.0).get_atoms(ro(qp), r, as_mask=True), ref),
        ("cell-radius-array", K_READONLY, lambda: CellList(c, 2.0).get_atoms_in_cells(qp, ro(np.array([1] * len(qp), dtype=np.int32)), as_mask=True), refc),
        ("selection-mask", K_READONLY, lambda: CellList(c, 2.0, selection=ro(sel)).get_atoms(qp, r, as_mask=True), refs),
        ("strided", K_SEL_STRIDED, lambda: CellList(c, 2.0, selection=big[::2]).get_atoms(qp, r, as_mask=True), refs),
    ]
    v = []
    for name, key, fn, want in trials:
        try:
            got = fn()
            if not np.array_equal(got, want):
                v.append((f"C14/spelling/{name}/wrong-answer", f"{name}: {got.tolist()} instead of {want.tolist()}"))
        except Exception as e:  # noqa: BLE001
            v.append((key if key == K_SEL_STRIDED else key + "/" + name, f"{name}: {type(e).__name__}: {e}"))
    return v


def _box_function_checks(np, coords32, box, exact):
    """The box.py helpers the periodic cell list is built from, at every entry level (one coordinate, an array, a stack):
    move_inside_box changes a coordinate by a lattice vector and lands in the cell; repeat_box_coord / repeat_box
    return the original coordinates first, then every translation exactly once, with indices = tile(arange(n))."""
    import biotite.structure as struc
    from biotite.structure.box import move_inside_box, repeat_box, repeat_box_coord
    v = []
    n = len(coords32)
    B = box.astype(np.float64)
    inv = np.linalg.inv(B)
    scale = float(np.abs(B).max()) + float(np.abs(coords32).max() if n else 0.0)
    tol = 0.0 if exact else 2e-5 * scale
    for level, arr in (("array", coords32), ("single", coords32[0]), ("stack", np.stack([coords32, coords32[::-1]]))):
        try:
            w = np.asarray(move_inside_box(arr, box), dtype=np.float64)
        except Exception as e:  # noqa: BLE001
            v.append((f"C14/box/move_inside_box/{level}/unexpected-{type(e).__name__}", str(e)[:200]))
            continue
        if w.shape != arr.shape:
            v.append((f"C14/box/move_inside_box/{level}/shape", f"{w.shape} for input {arr.shape}"))
            continue
        k = (w - arr.astype(np.float64)) @ inv
        f = w @ inv
        # the code works in float32 (float32 `inv`, matmul, `% 1`, matmul): a few ulps relative to the magnitude of the
        # fractional coordinates before wrapping; both ends closed (`% 1` may round to 1.0, a tiny negative stays negative)
        mag = 3.0 * float(np.abs(arr).max() if arr.size else 0.0) * float(np.abs(inv).max())
        ftol = 64 * float(np.finfo(np.float32).eps) * (1.0 + mag)
        if np.abs(k - np.round(k)).max() > ftol or f.min() < -ftol or f.max() > 1 + ftol:
            v.append((f"C14/box/move_inside_box/{level}/not-a-lattice-shift-into-the-cell",
                      f"fractional coordinates of the result in [{f.min():.6g}, {f.max():.6g}], shift deviates from the lattice by "
                      f"{np.abs(k - np.round(k)).max():.3g} (box {box.tolist()})"))
    for amount in (1, 2):
        try:
            rc, idx = repeat_box_coord(coords32, box, amount) if amount != 1 else repeat_box_coord(coords32, box)
        except Exception as e:  # noqa: BLE001
            v.append((f"C14/box/repeat_box_coord/unexpected-{type(e).__name__}", str(e)[:200]))
            continue
        m = (2 * amount + 1) ** 3
        ok = rc.shape == (m * n, 3) and np.array_equal(idx, np.tile(np.arange(n), m)) and np.array_equal(rc[:n], coords32)
        if ok:
            shifts = set()
            for bi in range(m):
                d = (rc[bi * n:(bi + 1) * n].astype(np.float64) - coords32.astype(np.float64))
                kk = d @ inv
                ktol = 1e-4 + 64 * float(np.finfo(np.float32).eps) * (1.0 + 3.0 * float(np.abs(rc).max()) * float(np.abs(inv).max()))
                if np.abs(kk - kk[0]).max() > ktol or np.abs(kk[0] - np.round(kk[0])).max() > ktol:
                    ok = False
                    break
                shifts.add(tuple(int(x) for x in np.round(kk[0])))
            ok = ok and len(shifts) == m and all(max(abs(x) for x in t) <= amount for t in shifts)
        if not ok:
            v.append((f"C14/box/repeat_box_coord/amount-{amount}/wrong-images",
                      f"repeat_box_coord(n={n}, amount={amount}) does not return the original coordinates followed by every "
                      f"translation once with indices tile(arange(n))"))
    try:
        from biotite.structure.box import coord_to_fraction, fraction_to_coord, is_orthogonal
        fr = np.asarray(coord_to_fraction(coords32, box), dtype=np.float64)
        back = np.asarray(fraction_to_coord(coord_to_fraction(coords32, box), box), dtype=np.float64)
        if np.abs(fr - coords32.astype(np.float64) @ inv).max() > 1e-4 * (1 + np.abs(fr).max()) or \
                np.abs(back - coords32).max() > max(1e-4, 64 * float(np.finfo(np.float32).eps) * float(np.abs(B).max()) * float(np.abs(inv).max())) * scale:
            v.append(("C14/box/coord_to_fraction/round-trip", f"fraction_to_coord(coord_to_fraction(x)) != x for box {box.tolist()}"))
        dots = [abs(float(B[i] @ B[j])) for i, j in ((0, 1), (0, 2), (1, 2))]
        err = 5e-7 * float((B * B).sum(axis=1).max())      # float32 rounding of the dot products inside is_orthogonal
        if max(dots) + err < 1e-6 or max(dots) - err > 1e-6:
            mine = max(dots) < 1e-6
            if bool(np.all(is_orthogonal(box))) != mine:
                v.append(("C14/box/is_orthogonal/wrong", f"is_orthogonal({box.tolist()}) = {bool(np.all(is_orthogonal(box)))}, "
                          f"pairwise dot products {dots}"))
        if n >= 2:
            dv = np.asarray(struc.displacement(coords32[0], coords32, box=box), dtype=np.float64)
            dd = np.asarray(struc.distance(coords32[0], coords32, box=box), dtype=np.float64)
            pairs = np.stack([np.zeros(n, dtype=int), np.arange(n)], axis=-1)
            di = np.asarray(struc.index_distance(coords32, pairs, periodic=True, box=box), dtype=np.float64)
            dj = np.asarray(struc.index_displacement(coords32, pairs, periodic=True, box=box), dtype=np.float64)
            if np.abs(np.sqrt((dv * dv).sum(axis=-1)) - dd).max() > 1e-4 * scale or np.abs(di - dd).max() > 1e-4 * scale \
                    or np.abs(dj - dv).max() > 1e-4 * scale:
                v.append(("C14/geometry/distance-displacement-index-variants-disagree",
                          f"|displacement|, distance, index_distance, index_displacement differ for box {box.tolist()}"))
    except Exception as e:  # noqa: BLE001
        v.append((f"C14/box/helpers/unexpected-{type(e).__name__}", str(e)[:200]))
    try:
        at = struc.AtomArray(n)
        at.coord = coords32
        at.box = box
        rep, idx2 = repeat_box(at)
        rc1, idx1 = repeat_box_coord(coords32, box)
        if rep.array_length() != 27 * n or not np.array_equal(rep.coord, rc1) or not np.array_equal(idx2, idx1):
            v.append(("C14/box/repeat_box/differs-from-repeat_box_coord", f"repeat_box(AtomArray n={n}) != repeat_box_coord"))
    except Exception as e:  # noqa: BLE001
        v.append((f"C14/box/repeat_box/unexpected-{type(e).__name__}", str(e)[:200]))
    return v


def _limit_memory():
    """Safety net: a changed tree may ask numpy for a giant result buffer; fail with MemoryError instead of swapping."""
    if _LAST.get("rlimit"):
        return
    _LAST["rlimit"] = True
    try:
        import resource
        soft, hard = resource.getrlimit(resource.RLIMIT_AS)
        cap = 12 * 2 ** 30
        if soft == resource.RLIM_INFINITY or soft > cap:
            resource.setrlimit(resource.RLIMIT_AS, (cap, hard))
    except Exception:
        pass


def _warm():
    """Import the heavy modules in the parent so that the forked children do not import them again."""
    if not _LAST.get("warm"):
        import numpy  # noqa: F401
        import numpy.linalg  # noqa: F401
        import biotite.structure  # noqa: F401
        import biotite.structure.box  # noqa: F401
        import biotite.structure as struc
        try:    # first-use initialisation (LAPACK, Cython module state) once in the parent instead of in every child
            c = numpy.array([[0, 0, 0], [1, 1, 1]], dtype=numpy.float32)
            b = numpy.diag([4.0, 4.0, 4.0]).astype(numpy.float32)
            cl = struc.CellList(c, 2.0, periodic=True, box=b)
            cl.get_atoms(c, 1.0, as_mask=True)
            cl.create_adjacency_matrix(1.0)
            struc.index_distance(c, numpy.array([[0, 1]]), periodic=True, box=b)
            numpy.linalg.inv(b.astype(numpy.float64))
        except Exception:
            pass
        _LAST["warm"] = True


def _died_in(case):
    """Which op kills the process? Re-run construction + one query at a time, each in its own child."""
    from common.sandbox import run_forked
    if "ops" in case and case.get("spec") is None:
        new = case["ops"][0]
        if run_forked(_run_impl_inner, {"ops": [new]}, timeout=60)[0] in ("crash", "timeout"):
            return "new"
        for op in case["ops"][1:]:
            if run_forked(_run_impl_inner, {"ops": [new, op]}, timeout=60)[0] in ("crash", "timeout"):
                w = op.split()
                return w[0] + ("/" + w[1] if w[0] != "adj" else "")
        return "case"
    sp = case["spec"]
    for q in sp["queries"]:
        one = dict(case, spec=dict(sp, queries=[q]))
        if run_forked(_oracle_body, one, timeout=60)[0] in ("crash", "timeout"):
            return q["op"] + ("/" + q.get("mode", "") if q["op"] != "adj" else "")
    return "new" if not sp["queries"] else "case"


def oracle(case):
    """Runs in a forked child; a dead child is a violation with this case as the failing input."""
    from common.sandbox import run_forked
    _limit_memory()
    _warm()
    _prefetch("oracle")
    hit = _CACHE["oracle"].get(_sig(case))
    if hit is not None:
        return hit
    r = run_forked(_oracle_body, case, timeout=120)
    if r[0] == "ok":
        return r[1]
    if r[0] == "err":
        raise RuntimeError(f"oracle raised {r[1]}: {r[2]}")
    if case.get("crash_key"):
        return [(case["crash_key"], f"process {'died with signal ' + str(r[1]) if r[0] == 'crash' else 'timed out'}")]
    where = _died_in(case)
    what = f"died with signal {r[1]}" if r[0] == "crash" else "did not return within 120 s"
    return [(f"C14/{where}/process-died", f"the Python process {what} while executing {where} of this case "
             f"(unchecked indexing in celllist.pyx reached with an invalid index?)")]


def _grid_stats(coords, sel, cs, box):
    """Exact cell assignment (ints): dims product and max cell occupancy (incl. periodic copies).
    box: None | 3 axis lengths | 9 ints (full matrix, rows = box vectors)."""
    pts = coords
    n = len(coords)
    sl = sel if sel is not None else [True] * n
    if box is not None:
        if len(box) == 9:
            rows = [box[0:3], box[3:6], box[6:9]]
            inv = _mat_inv(box)
            base = []
            for c in coords:
                f = [sum(Fraction(c[k]) * inv[k][i] for k in range(3)) for i in range(3)]
                f = [x - math.floor(x) for x in f]
                w = [sum(f[i] * rows[i][k] for i in range(3)) for k in range(3)]
                base.append([int(x) for x in w])          # = c - floor(f) @ box: integral
        else:
            rows = [[box[0], 0, 0], [0, box[1], 0], [0, 0, box[2]]]
            base = [[c[a] % box[a] for a in range(3)] for c in coords]
        pts = []
        for i in (0, -1, 1):
            for j in (0, -1, 1):
                for k in (0, -1, 1):
                    pts += [[b[a] + i * rows[0][a] + j * rows[1][a] + k * rows[2][a] for a in range(3)] for b in base]
        sl = sl * 27
    mn = [min(p[a] for p in pts) for a in range(3)]
    mx = [max(p[a] for p in pts) for a in range(3)]
    dims = [(mx[a] - mn[a]) // cs + 1 for a in range(3)]
    occ = {}
    for p, s in zip(pts, sl):
        if s:
            key = tuple((p[a] - mn[a]) // cs for a in range(3))
            occ[key] = occ.get(key, 0) + 1
    return dims, (max(occ.values()) if occ else 0), mn, mx


def _gen_coords(rng, style, n, lim):
    def clip(v):
        return max(-lim, min(lim, v))
    if style == "one":
        return [[rng.randint(-lim, lim) for _ in range(3)]]
    if style == "cluster":
        w = rng.choice([1, 2, 4, 16, 64])
        cents = [[rng.randint(-lim // 2, lim // 2) for _ in range(3)] for _ in range(rng.randint(1, 3))]
        return [[clip(c + rng.randint(-w, w)) for c in rng.choice(cents)] for _ in range(n)]
    if style == "collinear":
        o = [rng.randint(-50, 50) for _ in range(3)]
        d = rng.choice([[1, 0, 0], [0, 1, 0], [0, 0, 1], [1, 1, 0], [1, 2, 3], [1, -1, 1]])
        st = rng.choice([1, 2, 5, 8])
        return [[clip(o[a] + d[a] * st * t) for a in range(3)] for t in range(n)]
    if style == "dups":
        base = [[rng.randint(-40, 40) for _ in range(3)] for _ in range(max(1, n // 3))]
        return [list(rng.choice(base)) for _ in range(n)]
    if style == "lattice":
        st = rng.choice([1, 2, 4, 8])
        return [[st * rng.randint(-6, 6) for _ in range(3)] for _ in range(n)]
    w = rng.choice([8, 40, 200, lim])
    return [[rng.randint(-w, w) for _ in range(3)] for _ in range(n)]


def _exact_case(rng, periodic=False):
    LIM = 1023
    S = rng.choice([0, 0, 1, 2, 3, 6])
    style = rng.choice(["one", "cluster", "cluster", "collinear", "dups", "lattice", "random", "random"])
    n = 1 if style == "one" else rng.choice([2, 3, 5, 8, 12, 20, 30])
    box = None
    lim_c = LIM
    if periodic:
        n = min(n, 10)
        lim_c = 600
        box = [2 ** rng.randint(2, 8) for _ in range(3)]
        if rng.random() < 0.5:
            box = [box[0]] * 3
        bt = rng.random()
        if bt < 0.25:
            # the same orthorhombic lattice, box vectors not along x,y,z in this order / direction:
            # signed permutation matrix times lengths (row i = sign_i * L * e_perm[i]); exact in float32
            perm = rng.choice([[0, 1, 2], [1, 0, 2], [2, 1, 0], [0, 2, 1], [1, 2, 0], [2, 0, 1]])
            mat = [0] * 9
            for i in range(3):
                mat[3 * i + perm[i]] = rng.choice([1, 1, -1]) * box[perm[i]]
            box = mat
        elif bt < 0.6:
            # triclinic, lower triangular, power-of-two diagonal (inverse is dyadic -> float32 exact), small entries
            lx, ly, lz = [2 ** rng.randint(2, 5) for _ in range(3)]
            if bt < 0.5:      # mildly skewed (|off-diagonal| <= half the diagonal of its column)
                box = [lx, 0, 0, rng.randint(-lx // 2, lx // 2), ly, 0, rng.randint(-lx // 2, lx // 2), rng.randint(-ly // 2, ly // 2), lz]
            else:             # strongly skewed cells (the 27 replicas may not contain the minimum image: known finding)
                box = [lx, 0, 0, rng.randint(-2 * lx, 2 * lx), ly, 0, rng.randint(-lx, lx), rng.randint(-2 * ly, 2 * ly), lz]
            S = min(S, 2)
            lim_c = 200
    coords = _gen_coords(rng, style, n, lim_c)
    n = len(coords)
    sel = None
    if rng.random() < 0.35:
        sel = [rng.random() < 0.6 for _ in range(n)]
        if not any(sel):
            sel[rng.randrange(n)] = True
    # cell size: a power of two (times 2^-S); grid must stay small
    cs = 2 ** rng.randint(0, 9)
    for _ in range(14):
        dims, mcl, mn, mx = _grid_stats(coords, sel, cs, box)
        if dims[0] * dims[1] * dims[2] <= 150000:
            break
        cs *= 2
    box_tok = "-" if box is None else _ints(box)
    # AtomArray input: the structure may carry a box of its own next to (or instead of) the explicit `box` argument
    ar = rng.random()
    other = _ints([2 ** rng.randint(2, 8) for _ in range(3)]) if rng.random() < 0.7 else \
        _ints([2 ** rng.randint(2, 5), 0, 0, rng.randint(-3, 3), 2 ** rng.randint(2, 5), 0, 0, rng.randint(-3, 3), 2 ** rng.randint(2, 5)])
    if box is not None and ar < 0.45:
        v = rng.random()
        if v < 0.55:
            box_tok = f"{box_tok}/{other}/p"       # explicit box must win over the AtomArray's own (different) box
        elif v < 0.85:
            box_tok = f"-/{box_tok}/p"             # only the AtomArray carries the box
        else:
            box_tok = f"{box_tok}/-/p"
    elif box is None and ar < 0.12:
        box_tok = rng.choice([f"-/{other}/n", f"{other}/{other}/n", f"{other}/-/n", "-/-/n"])   # periodic=False: boxes ignored
    ops = [f"new {S} {cs} {box_tok} {'-' if sel is None else ''.join('1' if s else '0' for s in sel)} "
           f"{_ints(x for c in coords for x in c)}"]
    ext = max(mx[a] - mn[a] for a in range(3))
    nq_total = 0
    for _ in range(rng.randint(1, 4)):
        kind = rng.choice(["atoms", "atoms", "atoms", "cells", "adj"])
        if kind == "adj":
            thr = rng.choice([0, 1, cs, 2 * cs, cs + 1, max(1, ext // 2), ext + 1, rng.randint(0, 60)])
            thr = _cap_radius(thr, cs, mcl, n)
            ops.append(f"adj {thr}")
            continue
        shape = rng.choice(["s", "m", "m"])
        m = 1 if shape == "s" else rng.choice([1, 2, 3, 5])
        pts = []
        for _ in range(m):
            t = rng.random()
            if t < 0.25:
                p = list(rng.choice(coords))
            elif t < 0.45:   # on a cell border of the grid
                p = [mn[a] + cs * rng.randint(-2, (mx[a] - mn[a]) // cs + 2) for a in range(3)]
            elif t < 0.65:   # far outside the bounding box
                p = [rng.choice([-1, 1]) * rng.randint(LIM // 2, LIM) if rng.random() < 0.6 else rng.randint(-LIM, LIM) for _ in range(3)]
            elif t < 0.8:    # just outside the bounding box
                p = [rng.choice([mn[a] - rng.randint(0, 2 * cs), mx[a] + rng.randint(0, 2 * cs), rng.randint(mn[a], mx[a])]) for a in range(3)]
            else:
                p = [rng.randint(mn[a] - 3, mx[a] + 3) for a in range(3)]
            pts.append([max(-LIM, min(LIM, x)) for x in p])
        if kind == "atoms":
            def pick_r():
                r = rng.choice([0, 0, 1, cs - 1, cs, cs + 1, 2 * cs, 3 * cs, ext, ext + 1, 2 * ext + 3, 4095,
                                rng.randint(0, 40), rng.randint(0, max(1, ext))])
                return _cap_radius(max(0, min(4095, r)), cs, mcl, m)
            if shape == "m" and rng.random() < 0.5:
                rad = "m:" + _ints(pick_r() for _ in range(m))
            else:
                rad = f"s:{pick_r()}"
        else:
            def pick_c():
                c = rng.choice([0, 1, 1, 2, 3, rng.randint(0, 12)])
                while (2 * c + 1) ** 3 * mcl * m > 2_000_000 and c > 0:
                    c //= 2
                return c
            if shape == "m" and rng.random() < 0.5:
                rad = "m:" + _ints(pick_c() for _ in range(m))
            else:
                rad = f"s:{pick_c()}"
        ops.append(f"{kind} {rng.choice(['idx', 'mask'])} {shape} {_ints(x for p in pts for x in p)} {rad}")
        nq_total += m
    return {"kind": "exact-periodic" if periodic else "exact", "ops": ops}


def _cap_radius(r, cs, mcl, m):
    """Keep (2*ceil(r/cs)+1)^3 * mcl * m (result buffer, int32 entries) below ~2e6."""
    while r > 0 and (2 * (-(-r // cs)) + 1) ** 3 * mcl * m > 2_000_000:
        r //= 2
    return r


def _malformed_exact(rng):
    c = _malformed_exact0(rng)
    if "expect" in c:
        return c
    c["expect"] = ["ok" if (op.startswith("new") and i > 0 or " _ " in op and not op.startswith("new")) else
                   # numpy's boolean-mask length check is an IndexError, everything else a ValueError
                   ("rej:IndexError" if (op.startswith("new") and op.split()[4] not in ("-", "_")
                                         and len(op.split()[4]) != len(op.split()[5].split(",")) // 3) else "rej:ValueError")
                   for i, op in enumerate(c["ops"])]
    if len(c["ops"]) > 1:
        c["expect"][0] = "ok"
        # a refused call changes nothing: the same valid queries before, between and after the refused ones
        first = c["ops"][0].split()
        q = ",".join(first[5].split(",")[:3])
        valid = [f"atoms idx m {q},{q} m:{rng.randint(0, 9)},{rng.randint(10, 40)}", f"cells mask s {q} s:{rng.randint(0, 2)}",
                 f"adj {rng.randint(0, 30)}"]
        ops, exp = [c["ops"][0]], ["ok"]
        for op, e in zip(c["ops"][1:], c["expect"][1:]):
            w = rng.choice(valid)
            ops += [w, op, w]
            exp += ["ok", e, "ok"]
        c["ops"], c["expect"] = ops, exp
    else:
        # a refused constructor followed by a good one (nothing global may be left behind)
        coords = [[rng.randint(-9, 9) for _ in range(3)] for _ in range(3)]
        c["ops"] += [f"new 0 4 - - {_ints(x for p in coords for x in p)}", f"atoms idx s {_ints(coords[0])} s:12"]
        c["expect"] += ["ok", "ok"]
    return c


def _malformed_exact0(rng):
    t = rng.choice(["empty", "cs0", "csneg", "sel-len", "sel-none", "no-box", "no-box-sel", "neg-radius", "radii-len", "neg-radii", "multi-rad-single",
                    "empty-query", "neg-thr", "neg-cellrad"])
    coords = [[rng.randint(-20, 20) for _ in range(3)] for _ in range(rng.randint(1, 5))]
    flat = _ints(x for c in coords for x in c)
    n = len(coords)
    q = _ints(coords[0])
    if t == "empty":
        return {"kind": "malformed", "ops": ["new 0 4 - - _"]}
    if t == "no-box":        # periodic=True, AtomArray without box, no box argument
        return {"kind": "malformed", "ops": [f"new 0 4 -/-/p - {flat}"]}
    if t == "no-box-sel":    # the selection check (IndexError) comes first
        return {"kind": "malformed", "ops": [f"new 0 4 -/-/p {'1' * (n + 1)} {flat}"]}
    if t == "cs0":
        return {"kind": "malformed", "ops": [f"new 0 0 - - {flat}"]}
    if t == "csneg":
        return {"kind": "malformed", "ops": [f"new 0 -2 - - {flat}"]}
    if t == "sel-len":
        return {"kind": "malformed", "ops": [f"new 0 4 - {'1' * (n + 1)} {flat}"]}
    if t == "sel-none":
        return {"kind": "malformed", "ops": [f"new 0 4 - {'0' * n} {flat}"]}
    new = f"new 0 4 - - {flat}"
    if t == "neg-radius":
        return {"kind": "malformed", "ops": [new, f"atoms idx s {q} s:-1", f"atoms mask m {q} s:-3"]}
    if t == "radii-len":
        return {"kind": "malformed", "ops": [new, f"atoms idx m {q} m:1,2", f"cells idx m {q} m:1,2"]}
    if t == "neg-radii":
        return {"kind": "malformed", "ops": [new, f"atoms idx m {q},{q} m:1,-2", f"cells mask m {q},{q} m:-1,0"]}
    if t == "multi-rad-single":
        return {"kind": "malformed", "ops": [new, f"atoms idx s {q} m:1"]}
    if t == "empty-query":
        return {"kind": "malformed", "ops": [new, "atoms idx m _ s:3", "cells mask m _ s:1", "atoms mask m _ m:_"]}
    if t == "neg-thr":
        return {"kind": "malformed", "ops": [new, "adj -1"]}
    return {"kind": "malformed", "ops": [new, f"cells idx s {q} s:-1"]}


def _overflow_case(rng):
    """The known defect: (2*cr+1)^3*mcl wraps negative in C int -> ValueError on both sides."""
    coords = [[rng.randint(0, 6), 0, 0] for _ in range(rng.randint(1, 4))]
    _d, mcl, _mn, _mx = _grid_stats(coords, None, 1, None)
    for _ in range(200):
        cr = rng.randint(640, 1000)
        T = (2 * cr + 1) ** 3 * mcl
        if T >= 2 ** 31 and ((T + 2 ** 31) % 2 ** 32) - 2 ** 31 < 0:
            break
    else:
        cr = 700
    ok = f"atoms idx s {_ints(coords[0])} s:{rng.randint(0, 5)}"
    return {"kind": "overflow", "ops": [f"new 0 1 - - {_ints(x for c in coords for x in c)}", ok,
                                        f"atoms idx s {_ints(coords[0])} s:{cr}", ok]}


# ---------------------------------------------------------------- generator: regions the other streams stay out of
def _wrapped_ok_radii():
    """cell radii whose C-int buffer length (2r+1)^3 (max_cell_length 1) wraps to a still sufficient positive value"""
    if "wrapped" not in _LAST:
        out = []
        for cr in range(813, 2048):
            T = (2 * cr + 1) ** 3
            L = ((T + 2 ** 31) % 2 ** 32) - 2 ** 31
            if T >= 2 ** 31 and 64 <= L <= 3_000_000:
                out.append(cr)
        _LAST["wrapped"] = out
    return _LAST["wrapped"]


def _region_case(rng):
    """Inputs beyond the size caps of the ordinary streams (audit 6): huge radius / cell size ratios (int32 cell radius),
    buffer lengths that wrap to a positive value, windows of ~10^7 cells, grids of ~10^7 cells, mirrored / singular boxes."""
    t = rng.choice(["huge", "huge", "wrapped-ok", "large-window", "many-cells", "neg-diag", "singular", "singular"])
    if t == "huge":
        coords = [[rng.randint(0, 3), rng.randint(0, 1), 0] for _ in range(rng.randint(1, 4))]
        q = _ints(coords[0])
        new = f"new 0 1 - - {_ints(x for c in coords for x in c)}"
        big = rng.choice([2 ** 31, 2 ** 32, 2 ** 33, 3 * 2 ** 30 + 2 ** 31])
        ops = [new, f"atoms idx m {q},{q} m:{big},{rng.randint(0, 3)}", f"atoms {rng.choice(['idx', 'mask'])} s {q} s:{big}",
               f"atoms idx m {q},{q} s:{big}", f"cells idx m {q},{q} m:{rng.choice([2 ** 31, 2 ** 32 + 1, 2 ** 33])},1",
               f"cells mask s {q} s:{2 ** 31}", f"atoms idx s {q} s:{rng.randint(0, 4)}"]
        return {"kind": "region-huge", "light": True, "ops": ops}
    if t == "wrapped-ok":
        coords = [[i * rng.randint(1, 3), rng.randint(0, 2) * 2, 0] for i in range(rng.randint(1, 5))]
        cr = rng.choice(_wrapped_ok_radii())
        _d, mcl, _mn, _mx = _grid_stats(coords, None, 1, None)
        if mcl != 1:
            coords = [[2 * i, 0, 0] for i in range(len(coords))]
        q = _ints(coords[-1])
        return {"kind": "region-wrapped-ok", "light": True, "ops": [f"new 0 1 - - {_ints(x for c in coords for x in c)}",
                                                     f"atoms {rng.choice(['idx', 'mask'])} s {q} s:{cr}", f"cells idx s {q} s:{cr}"]}
    if t == "large-window":
        coords = [[2 * i, 3 * (i % 2), 0] for i in range(rng.randint(1, 6))]
        cr = rng.randint(55, 85)
        q = _ints([rng.randint(-50, 50), 0, 0])
        return {"kind": "region-large-window", "light": True, "ops": [f"new 0 1 - - {_ints(x for c in coords for x in c)}",
                                                       f"atoms idx s {q} s:{cr}", f"cells mask s {q} s:{cr}"]}
    if t == "many-cells":
        w = rng.randint(45, 65)
        coords = [[rng.randint(-w, w) for _ in range(3)] for _ in range(rng.randint(2, 6))] + [[-w, -w, -w], [w, w, w]]
        q = coords[rng.randrange(len(coords))]
        return {"kind": "region-many-cells", "light": True, "ops": [f"new 0 1 - - {_ints(x for c in coords for x in c)}",
                                                     f"atoms idx m {_ints(q)},{_ints([w, w, w])} m:{rng.randint(0, 40)},2", f"adj {rng.randint(0, 30)}"]}
    coords = [[rng.randint(-20, 20) for _ in range(3)] for _ in range(rng.randint(1, 5))]
    flat = _ints(x for c in coords for x in c)
    if t == "neg-diag":
        L = [rng.choice([-1, 1]) * 2 ** rng.randint(2, 4) for _ in range(3)]
        if all(x > 0 for x in L):
            L[rng.randrange(3)] *= -1
        return {"kind": "exact-periodic", "ops": [f"new 0 2 {_ints(L)} - {flat}", f"atoms idx s {_ints(coords[0])} s:{rng.randint(0, 9)}",
                                                  f"adj {rng.randint(0, 9)}", f"cells mask s {_ints(coords[-1])} s:1"]}
    # singular boxes: numpy.linalg.inv refuses (LinAlgError) before anything else is looked at
    box = rng.choice(["0,8,8", "8,0,0,8,0,0,0,0,8", "8,4,0,4,2,0,0,0,8", "0,0,0,0,0,0,0,0,0", "4,0,0,0,4,0,4,4,0"])
    c = {"kind": "malformed", "ops": [f"new 0 2 {box} - {flat}", f"new 0 2 8,8,8 - {flat}", f"atoms idx s {_ints(coords[0])} s:3"],
         "expect": ["rej:LinAlgError", "ok", "ok"]}
    return c


# ---------------------------------------------------------------- generator: float stream
def _atoms_variant(rng, spec):
    """Hand the periodic box over through an AtomArray: as its own box only, or next to a *different* own box
    (the explicit argument must win), instead of plain coordinates + box argument."""
    if spec["box"] is None or rng.random() >= 0.4:
        return spec
    spec["as_atoms"] = True
    if rng.random() < 0.6:
        f = rng.choice([0.37, 2.5, 6.0])
        spec["own_box"] = [[f * spec["box"][0][0] + 1.0, 0.0, 0.0], [0.0, f * abs(spec["box"][1][1]) + 2.0, 0.0],
                           [0.0, 0.0, f * abs(spec["box"][2][2]) + 3.0]]
    else:
        spec["box_pass"] = "own"
    return spec


def _f32(x):
    import numpy as np
    return float(np.float32(x))


def _float_case(rng):
    import numpy as np
    style = rng.choice(["one", "cluster", "collinear", "dups", "random", "random", "far-origin"])
    n = 1 if style == "one" else rng.choice([2, 3, 6, 15, 40, 120])
    scale = rng.choice([0.37, 1.0, 3.3, 17.0, 250.0])
    nrng = np.random.default_rng(rng.getrandbits(32))
    if style == "cluster":
        cents = nrng.normal(0, 10 * scale, (rng.randint(1, 4), 3))
        coords = cents[nrng.integers(0, len(cents), n)] + nrng.normal(0, scale, (n, 3))
    elif style == "collinear":
        d = nrng.normal(0, 1, 3)
        d /= np.linalg.norm(d)
        coords = nrng.normal(0, 5, 3) + np.outer(np.arange(n) * scale * rng.choice([0.1, 1.0, 1.5]), d)
    elif style == "dups":
        base = nrng.normal(0, 3 * scale, (max(1, n // 3), 3))
        coords = base[nrng.integers(0, len(base), n)]
    elif style == "far-origin":
        coords = nrng.normal(0, 3 * scale, (n, 3)) + rng.choice([1e3, -1e4, 1e5])
    else:
        coords = nrng.uniform(-10 * scale, 10 * scale, (n, 3))
    coords = coords.astype(np.float32)
    ext = float((coords.max(axis=0) - coords.min(axis=0)).max()) if n > 1 else 0.0
    periodic = rng.random() < 0.35 and style != "far-origin"
    box = None
    if periodic:
        L = max(ext, scale) * rng.choice([0.5, 1.0, 1.5, 3.0])
        if rng.random() < 0.5:
            box = np.diag([L * rng.choice([1.0, 0.7, 1.9]) for _ in range(3)])
        else:
            from biotite.structure.box import vectors_from_unitcell
            ang = [math.radians(rng.uniform(62, 118)) for _ in range(3)]
            for _ in range(20):
                try:
                    box = vectors_from_unitcell(L, L * rng.choice([1.0, 0.8, 1.6]), L * rng.choice([1.0, 1.3]), *ang)
                    if np.isfinite(box).all() and abs(np.linalg.det(box)) > 1e-3 * L ** 3:
                        break
                except Exception:
                    pass
                ang = [math.radians(rng.uniform(75, 105)) for _ in range(3)]
            else:
                box = np.diag([L, L, L])
        box = np.asarray(box, dtype=np.float32)
    lmax = float(np.abs(box).max()) if periodic else 0.0
    mag = float(np.abs(coords).max()) + lmax
    cs = max(ext, scale, 1e-3) * rng.choice([0.02, 0.05, 0.1, 0.3, 1.0, 2.5])
    span = (3 * lmax if periodic else ext)
    while (span / cs + 1) ** 3 > 300000 or span / cs > 400:
        cs *= 2
    cs = _f32(cs)
    sel = None
    if rng.random() < 0.3:
        sel = [rng.random() < 0.6 for _ in range(n)]
        if not any(sel):
            sel[0] = True
    total = n * (27 if periodic else 1)
    queries = []
    rmin = 0.05 * mag if periodic else 0.0       # float32 error of move_inside_box must stay inside the band
    for _ in range(rng.randint(1, 3)):
        kind = rng.choice(["atoms", "atoms", "atoms", "cells", "adj"])

        def pick_r(m):
            r = rng.choice([0.0, cs, 2 * cs, 0.5 * cs, 1.7 * cs, ext * 0.3, ext * 1.1 + scale, 3 * ext + scale, scale * rng.uniform(0, 8)])
            if periodic or r < 0:
                r = max(r, rmin)
            while r > 0 and (2 * math.ceil(r / cs) + 1) ** 3 * total * m > 3_000_000:
                r *= 0.5
            if periodic and r < rmin:
                return None
            return _f32(r)
        if kind == "adj":
            r = pick_r(n)
            if r is None:
                continue
            queries.append({"op": "adj", "thr": r})
            continue
        shape = rng.choice(["s", "m", "m"])
        m = 1 if shape == "s" else rng.choice([1, 2, 4, 9])
        pts = []
        for _ in range(m):
            t = rng.random()
            if t < 0.3:
                p = coords[rng.randrange(n)].astype(np.float64)
            elif t < 0.55:
                p = coords[rng.randrange(n)].astype(np.float64) + nrng.normal(0, 1, 3) * rng.choice([1e-3, 0.5, 2.0]) * max(scale, cs)
            elif t < 0.8:    # far outside
                p = coords.mean(axis=0) + nrng.normal(0, 1, 3) * (ext + scale) * rng.choice([2, 10, 1000])
            elif t < 0.85 and not periodic:
                p = np.array([np.nan, 0.0, 0.0]) if rng.random() < 0.5 else np.array([np.inf, 0.0, -np.inf])
            else:
                p = coords.min(axis=0) + nrng.uniform(-0.2, 1.2, 3) * (coords.max(axis=0) - coords.min(axis=0) + scale)
            if periodic:
                finite = p[np.isfinite(p)]
                if len(finite) and np.abs(finite).max() > 50 * mag:
                    p = coords[0].astype(np.float64)
            pts.append([_f32(x) for x in p])
        if kind == "atoms":
            if shape == "m" and rng.random() < 0.5:
                rs = [pick_r(m) for _ in range(m)]
                if any(r is None for r in rs):
                    continue
                queries.append({"op": "atoms", "mode": rng.choice(["idx", "mask"]), "shape": shape, "q": pts, "rad_kind": "m", "rad": rs})
            else:
                r = pick_r(m)
                if r is None:
                    continue
                queries.append({"op": "atoms", "mode": rng.choice(["idx", "mask"]), "shape": shape, "q": pts, "rad_kind": "s", "rad": r})
        else:
            if periodic and cs < rmin:
                continue
            c = rng.choice([1, 1, 2, 3, 0 if not periodic else 1])
            while (2 * c + 1) ** 3 * total * m > 3_000_000 and c > 0:
                c -= 1
            if shape == "m" and rng.random() < 0.4:
                queries.append({"op": "cells", "mode": rng.choice(["idx", "mask"]), "shape": shape, "q": pts, "rad_kind": "m", "rad": [c] * m})
            else:
                queries.append({"op": "cells", "mode": rng.choice(["idx", "mask"]), "shape": shape, "q": pts, "rad_kind": "s", "rad": c})
    return {"kind": "float-" + ("triclinic" if periodic and abs(float(box[1][0])) + abs(float(box[2][0])) + abs(float(box[2][1])) > 0
                                else "ortho" if periodic else "plain"),
            "spec": _atoms_variant(rng, {"coords": [[float(x) for x in c] for c in coords], "cs": cs,
                                         "box": None if box is None else [[float(x) for x in row] for row in box],
                                         "sel": sel, "queries": queries})}


def _rotation(np, nrng):
    """Random proper rotation (QR of a Gaussian matrix)."""
    qm, rm = np.linalg.qr(nrng.normal(0, 1, (3, 3)))
    qm = qm * np.sign(np.diag(rm))
    if np.linalg.det(qm) < 0:
        qm[:, 0] = -qm[:, 0]
    return qm


def _float_geom_case(rng):
    """Periodic boxes for which biotite has a second, independent code path for minimum-image distances
    (geometry.distance / index_distance with the box): axis-aligned and *rotated* orthorhombic boxes, and triclinic
    boxes in which exactly one of alpha/beta/gamma differs from 90 deg (reduced cells: |cos| <= 0.31, edge ratio <= 1.56).
    Atoms and queries lie inside and outside the box; radii reach 0.75 box lengths."""
    import numpy as np
    from biotite.structure.box import vectors_from_unitcell
    nrng = np.random.default_rng(rng.getrandbits(32))
    L = rng.choice([0.8, 1.0, 2.0, 7.0, 25.0])
    lens = [L * rng.uniform(0.8, 1.25) for _ in range(3)]
    kind = rng.choice(["ortho", "rotated", "rotated", "alpha", "alpha", "beta", "gamma"])
    ang = [90.0, 90.0, 90.0]
    if kind in ("alpha", "beta", "gamma"):
        ang[{"alpha": 0, "beta": 1, "gamma": 2}[kind]] = rng.choice([rng.uniform(72, 84), rng.uniform(96, 108)])
    box = np.asarray(vectors_from_unitcell(*lens, *[math.radians(a) for a in ang]), dtype=np.float64)
    if kind == "rotated":
        box = np.diag(lens) @ (_rotation(np, nrng) if rng.random() < 0.7 else
                               np.array(rng.choice([[[0, 1, 0], [0, 0, 1], [1, 0, 0]], [[0, -1, 0], [1, 0, 0], [0, 0, 1]],
                                                    [[0, 0, 1], [0, 1, 0], [-1, 0, 0]]]), dtype=np.float64))
    elif rng.random() < 0.3:
        box = box @ _rotation(np, nrng)          # the whole (triclinic) cell rotated together with the structure
    box = box.astype(np.float32)
    n = rng.choice([2, 4, 8, 14])
    coords = (nrng.uniform(-0.6, 1.6, (n, 3)) @ box.astype(np.float64)).astype(np.float32)
    cs = _f32(min(lens) * rng.choice([0.3, 0.5, 0.8]))
    sel = None
    if rng.random() < 0.25:
        sel = [rng.random() < 0.7 for _ in range(n)]
        if not any(sel):
            sel[0] = True
    queries = []
    for _ in range(rng.randint(1, 3)):
        r = _f32(min(lens) * rng.choice([0.3, 0.45, 0.6, 0.75]))
        if rng.random() < 0.5:
            queries.append({"op": "adj", "thr": r})
        else:
            m = rng.choice([1, 3, 6])
            pts = (nrng.uniform(-1.5, 2.5, (m, 3)) @ box.astype(np.float64)).astype(np.float32)
            if rng.random() < 0.5:
                queries.append({"op": "atoms", "mode": rng.choice(["idx", "mask"]), "shape": "m", "q": [[float(x) for x in p] for p in pts],
                                "rad_kind": "m", "rad": [_f32(min(lens) * rng.choice([0.3, 0.45, 0.6, 0.75])) for _ in range(m)]})
            else:
                queries.append({"op": "atoms", "mode": rng.choice(["idx", "mask"]), "shape": "m", "q": [[float(x) for x in p] for p in pts],
                                "rad_kind": "s", "rad": r})
    return {"kind": "float-geom-" + kind,
            "spec": _atoms_variant(rng, {"coords": [[float(x) for x in c] for c in coords], "cs": cs,
                                         "box": [[float(x) for x in row] for row in box],
                                         "sel": sel, "queries": queries, "geom": True})}


_GEN = []          # cases handed to the runner by cases()/search(); lets run_impl/oracle pre-compute them in few forks
_CACHE = {"impl": {}, "oracle": {}, "done": set()}


def cases(rng, tier):
    for c in _cases(rng, tier):
        _GEN.append(c)
        yield c


def _sig(case):
    return signature(case) + "|" + str(case.get("kind"))


def _batch_child(args):
    which, chunk = args
    fn = _run_impl_inner if which == "impl" else _oracle_body
    out = []
    for c in chunk:
        try:
            out.append(("ok", fn(c)))
        except BaseException as e:  # noqa: BLE001
            out.append(("exc", type(e).__name__))
    return out


def _prefetch(which):
    """Run all generated cases in children of 48 cases each (a fork per case costs ~5 ms of page-table copying).
    A chunk whose child dies or raises is simply not cached: those cases fall back to one child per case, which also
    attributes a crash to the exact case."""
    if which in _CACHE["done"]:
        return
    _CACHE["done"].add(which)
    from common.sandbox import run_forked
    todo = [c for c in _GEN if (which == "oracle" or c.get("ops")) and not c.get("fork")]
    for i in range(0, len(todo), 48):
        chunk = todo[i:i + 48]
        r = run_forked(_batch_child, (which, chunk), timeout=300)
        if r[0] == "ok":
            for c, (st, val) in zip(chunk, r[1]):
                if st == "ok":
                    _CACHE[which][_sig(c)] = val


def _spelled(rng, c):
    """60 % of the cases hand every argument over in another spelling of the same value (NumPy scalars of several
    widths, float64 / Fortran / strided / byte-swapped / read-only-float64 arrays, lists) and with another call style."""
    if rng.random() < 0.6:
        c["sp"] = rng.getrandbits(30)
    return c


def _cases(rng, tier):
    n_exact, n_float = (800, 700) if tier == "quick" else (12000, 12000)
    for i in range(n_exact):
        t = rng.random()
        if t < 0.07:
            yield _malformed_exact(rng)
        elif t < 0.09:
            yield _overflow_case(rng)
        elif t < 0.32:
            yield _spelled(rng, _exact_case(rng, periodic=True))
        else:
            yield _spelled(rng, _exact_case(rng))
    for i in range(n_float):
        yield _spelled(rng, _float_case(rng))
    for i in range(200 if tier == "quick" else 3000):
        yield _spelled(rng, _float_geom_case(rng))
    for i in range(14 if tier == "quick" else 150):
        yield _region_case(rng)
    for what in ("stack", "nan-box", "own-box-shape", "nan-coord", "inf-coord-selected", "bad-shape"):
        yield {"kind": "ctor-reject", "what": what, "coords": [[rng.randint(-9, 9) for _ in range(3)] for _ in range(rng.randint(1, 4))]}


def corpus():
    return [
        # truncation vs floor: query left of the origin cell, atom in cell 0, radius < cell size
        {"kind": "exact", "ops": ["new 0 4 - - 0,0,0,7,0,0", "atoms idx m -3,0,0,-4,0,0,-5,0,0 s:4", "cells idx m -3,0,0,-5,0,0 s:1"]},
        # atoms exactly on cell borders, radius exactly the distance
        {"kind": "exact", "ops": ["new 1 8 - - 0,0,0,8,0,0,16,0,0,24,0,0", "atoms mask m 8,0,0,12,0,0 m:8,4", "adj 8"]},
        # single atom, radius 0, query far outside
        {"kind": "exact", "ops": ["new 0 1 - - 5,5,5", "atoms idx s 5,5,5 s:0", "atoms idx s -1000,900,5 s:2000", "adj 0"]},
        # periodic: neighbour through the box face, query outside the box
        {"kind": "exact-periodic", "ops": ["new 0 2 8,8,8 - 0,0,0,7,0,0,4,4,4", "atoms idx m 0,0,0,16,8,-8 s:1", "adj 1", "cells mask s 7,7,7 s:1"]},
        # periodic, radius far beyond the box (r = 20, 2.5 box lengths): never rejected, nothing missed;
        # index rows repeat atoms (one entry per image), sets / masks stay exact (Props: example after C14_periodic_adjacency_symm)
        {"kind": "exact-periodic", "ops": ["new 0 8 8,8,8 - 0,0,0,7,0,0,4,4,4", "atoms idx s 3,0,0 s:20", "atoms mask s 3,0,0 s:20",
                                           "adj 20", "atoms idx m 3,0,0,-100,50,7 m:9,1", "cells idx s 100,100,100 s:2"]},
        {"kind": "exact-periodic", "ops": ["new 1 4 8,16,32 01101 0,0,0,15,1,1,-1,-1,-1,8,16,32,9,17,33", "atoms idx m 0,0,0,7,15,31 s:3",
                                           "adj 4", "cells mask m 0,0,0,-9,-17,-33 m:1,0"]},
        # general box matrices: mirrored + permuted orthorhombic box (Props example), triclinic within the half-height hypothesis
        {"kind": "exact-periodic", "ops": ["new 0 2 0,8,0,-4,0,0,0,0,16 - 0,0,0,3,7,0", "atoms idx s 0,0,0 s:2", "adj 2", "cells idx s 1,1,1 s:1"]},
        {"kind": "exact-periodic", "ops": ["new 0 2 4,0,0,2,4,0,1,-2,4 - 0,0,0,3,3,3,5,-1,2,-6,2,9", "atoms mask m 0,0,0,7,7,7 s:1", "adj 1"]},
        # AtomArray carrying its own (bigger) box next to the explicit box argument: the argument wins
        {"kind": "exact-periodic", "ops": ["new 0 2 8,8,8/64,64,64/p - 0,0,0,7,0,0,4,4,4", "atoms idx m 0,0,0,16,8,-8 s:1", "adj 1"]},
        {"kind": "exact-periodic", "ops": ["new 0 2 -/8,8,8/p - 0,0,0,7,0,0,4,4,4", "atoms mask s 0,0,0 s:1", "adj 1"]},
        {"kind": "exact", "ops": ["new 0 2 8,8,8/4,4,4/n - 0,0,0,7,0,0,4,4,4", "atoms idx s 0,0,0 s:1"]},
        # selection: unselected atoms never returned, adjacency rows of unselected atoms empty
        {"kind": "exact", "ops": ["new 0 2 - 1010 0,0,0,1,0,0,2,0,0,3,0,0", "atoms idx s 1,0,0 s:5", "adj 2"]},
    ]


# ---------------------------------------------------------------- bookkeeping
def nontrivial(case, impl_out):
    if impl_out:
        if any(o.startswith("ERR") for o in impl_out):
            return True
        for o in impl_out[1:]:
            body = o.split(" ", 2)[2] if o.count(" ") >= 2 else ""
            if any(s not in ("_", "-", "") for s in body.split(";")):
                return True
        return False
    sp = case.get("spec")
    return bool(sp and sp["queries"] and len(sp["coords"]) > 1)


def signature(case):
    if "ops" in case:
        return "|".join(case["ops"]) + ("#" + str(case["sp"]) if case.get("sp") is not None else "")
    from common import util
    return util.jdump(case.get("spec") if case.get("spec") is not None else {k: v for k, v in case.items() if not k.startswith("_")}) + \
        ("#" + str(case["sp"]) if case.get("sp") is not None else "")


def distribution(cases, impl_outs):
    outcomes, sizes, opk = {}, {}, {}
    for c, o in zip(cases, impl_outs):
        for line in o or []:
            k = line.split(" ")[0]
            outcomes[k] = outcomes.get(k, 0) + 1
        if "ops" in c:
            sp, qs = _parse_ops(c["ops"])
            n = len(sp["coords"]) if sp else 0
        else:
            sp, qs = c["spec"], c["spec"]["queries"]
            n = len(sp["coords"])
        b = "0" if n == 0 else "1" if n == 1 else "2-5" if n <= 5 else "6-20" if n <= 20 else "21+"
        sizes[b] = sizes.get(b, 0) + 1
        for q in qs:
            k = q["op"] + ("/" + q.get("mode", "") if q["op"] != "adj" else "")
            opk[k] = opk.get(k, 0) + 1
    return {"outcomes": outcomes, "atom_counts": sizes, "query_ops": opk}


def search(rng, problems, tier):
    """Failing-input search: both streams again from a different seed stream, plus border-heavy exact cases."""
    _CACHE["done"].discard("oracle")
    del _GEN[:]
    for c in _search(rng, problems, tier):
        _GEN.append(c)
        yield c


def _search(rng, problems, tier):
    for _ in range(600 if tier == "quick" else 4000):
        yield _exact_case(rng, periodic=rng.random() < 0.3)
    for _ in range(300 if tier == "quick" else 2000):
        yield _float_case(rng)
    for _ in range(200 if tier == "quick" else 1500):
        yield _float_geom_case(rng)


def shrink(case, key):
    if "ops" not in case or len(case["ops"]) <= 2:
        return case
    new = case["ops"][0]
    for op in case["ops"][1:]:
        cand = dict(case, ops=[new, op])
        try:
            if any(k == key for k, _ in oracle(cand)):
                return cand
        except Exception:
            pass
    return case

"""C03 — Symbol encoding is a bijection and sequences behave like their strings.

Plugin interface: see harness/README.md.  Protocol lines are documented in
lean/BiotiteModel/Driver/C03.lean; letters travel as decimal byte values, generic symbols as
tokens (`i5` int, `sAB` str, `bAB` bytes, `t1.2` tuple of ints, `N` None).
"""
import ast
import os
import re

PROP = "C03"
PROPS_MODULE = "BiotiteModel.Props.C03"
DRIVER_MODULE = "BiotiteModel.Driver.C03"
EXT_MODULES = ["biotite.sequence.codec", "biotite.sequence.align.kmeralphabet"]
GEN_FILES = ["BiotiteModel/Gen/C03.lean"]
RULE = ("seeded op scripts over letter alphabets of 1..94 printable letters and generic alphabets of mixed hashable "
        "symbols: encode/decode (all byte values, code arrays of every integer dtype incl. >=256, 2^32, negatives), "
        "AlphabetMapper, stateful Sequence scripts (new/str/index/assign/slice/+/reverse/==/copy/complement/code "
        "setter), KmerAlphabet fuse/split/create_kmers (k 2..6, spacings), CodonTable construction/loading and "
        "translate in both modes, op by op against the Lean model; oracle: Python str/list/dict reference semantics "
        "on the real objects. non-trivial = at least one op output that is not an error and not empty, or an error "
        "branch reached with a non-empty input; distinct = different op script")
TRUSTED = ["numpy array construction, comparison and astype casts modelled as mathematical integers with explicit range checks",
           "Python str.upper / bytes / dict semantics used by the sequence constructors"]
ASSUMPTIONS = ["k-mer arithmetic is modelled over unbounded integers; the real code uses int64, the tie holds for len(base)**k < 2**63",
               "alphabets have pairwise distinct symbols (the constructors do not enforce it; duplicates are outside the property)"]
LEVEL_TEXT = ("Lean 4 proof for all inputs (no size bound) of: encode/decode bijection and exact AlphabetError rejection for generic "
              "alphabets; the 256-entry table codec of codec.pyx and the repaired LetterAlphabet.decode_multiple refine the generic "
              "model (a code >= 256 is rejected, never wrapped); AlphabetMapper preserves symbols whenever the target contains the "
              "source; sequence laws for construction/str, index (incl. negative, IndexError), slice, item and slice assignment "
              "(incl. AlphabetError/ValueError rejection), +, reverse, ==; mixed-radix fuse/split bijection for every base and k, "
              "exact rejection by split; rolling create_kmers and spaced create_kmers (for every spacing the constructor accepts) = "
              "guarded fuse mapped over the windows, error cases included; CodonTable(dict) array lookup = dict lookup and complete "
              "translation = codon-by-codon dict lookup; ORF exactness of translate(complete=False) incl. met_start and order; "
              "complement involution + IUPAC pairing, protein 1<->3 letter dicts, PRINTABLES and all shipped codon tables by decide "
              "on tables regenerated from the source; invalid nucleotide codes are refused by translation (repaired code), + for alphabets extending each other, one-symbol broadcast in slice assignment, symbols setter, as_type, derived codon tables are independent values. PARTIAL: KmerAlphabet.fuse's own range test is defective in the .pyx (three "
              "known findings; its rejection theorem is _partial with a _defect witness and an _after_fix statement); slices are "
              "numpy views in the real code (aliasing) - the value-semantic model asserts nothing about mutation after slicing.")
LEVEL_NOTE = ("model tied to the code by a differential harness on seeded op scripts and by regenerated tables; numpy "
              "casts/broadcasting and int64 overflow of k-mer codes are modelled, not verified")
TECHNIQUE = "Lean 4 proof (structural induction over symbol/code/window/codon lists, sortedness + permutation argument for the ORF order, decide on regenerated tables) + correspondence"


# ---------------------------------------------------------------- translator (Gen)
def _b(s):
    return "[" + ", ".join(str(c) for c in s.encode("ascii")) + "]"


def _class_body(tree, name):
    for node in tree.body:
        if isinstance(node, ast.ClassDef) and node.name == name:
            return node
    raise ValueError(f"class {name} not found")


def _assign_value(cls, name):
    for node in cls.body:
        if isinstance(node, ast.Assign) and len(node.targets) == 1 and isinstance(node.targets[0], ast.Name) \
                and node.targets[0].id == name:
            return node.value
    raise ValueError(f"assignment {name} not found in class {cls.name}")


def _letter_alphabet_literal(value, what):
    """`LetterAlphabet([...literal letters...])` -> str"""
    if not (isinstance(value, ast.Call) and getattr(value.func, "id", None) == "LetterAlphabet" and len(value.args) == 1):
        raise ValueError(f"{what}: expected LetterAlphabet(<literal>)")
    syms = ast.literal_eval(value.args[0])
    if not all(isinstance(s, str) and len(s) == 1 for s in syms):
        raise ValueError(f"{what}: symbols are not single letters")
    return "".join(syms)


def parse_codon_tables(text, fields):
    """Independent re-implementation of the row extraction of CodonTable.load for *every* table.
    fields: {prefix: offset} taken from codon.py."""
    tables = []
    cur = None
    for line in text.split("\n"):
        if not line:
            cur = None
            continue
        if line.startswith("#"):
            continue
        if line.startswith("name"):
            cur = {"names": [n.strip() for n in line[4:].split(";")]}
            tables.append(cur)
        elif cur is not None and line.startswith("id"):
            cur["id"] = int(line[2:])
        elif cur is not None:
            for prefix, off in fields.items():
                if line.startswith(prefix):
                    cur[prefix] = line[off:].strip()
    return tables


def gen_lean():
    from common import paths
    base = os.path.join(paths.SRC, "biotite/sequence")
    seqtypes = ast.parse(open(os.path.join(base, "seqtypes.py")).read())
    nuc = _class_body(seqtypes, "NucleotideSequence")
    unamb = _letter_alphabet_literal(_assign_value(nuc, "alphabet_unamb"), "alphabet_unamb")
    amb = _letter_alphabet_literal(_assign_value(nuc, "alphabet_amb"), "alphabet_amb")
    compl = ast.literal_eval(_assign_value(nuc, "compl_symbol_dict"))
    if not all(isinstance(k, str) and isinstance(v, str) and len(k) == 1 and len(v) == 1 for k, v in compl.items()):
        raise ValueError("compl_symbol_dict is not a letter->letter dict")
    prot = _class_body(seqtypes, "ProteinSequence")
    palph = _letter_alphabet_literal(_assign_value(prot, "alphabet"), "ProteinSequence.alphabet")
    # the 1->3 letter dict and the extra 3->1 entries are found by their shape, not by their (private) names
    d13 = None
    extra31 = []
    for node in prot.body:
        if isinstance(node, ast.Assign) and isinstance(node.value, ast.Dict) and node.value.keys:
            try:
                d = ast.literal_eval(node.value)
            except Exception:  # noqa: BLE001
                continue
            if all(isinstance(k, str) and isinstance(v, str) and len(k) == 1 and len(v) == 3 for k, v in d.items()):
                if d13 is not None:
                    raise ValueError("two 1->3 letter dicts in ProteinSequence")
                d13 = d
        if isinstance(node, ast.Assign) and isinstance(node.targets[0], ast.Subscript) and isinstance(node.targets[0].value, ast.Name) \
                and isinstance(node.targets[0].slice, ast.Constant) and isinstance(node.value, ast.Constant) \
                and isinstance(node.value.value, str) and len(node.value.value) == 1:
            extra31.append((node.targets[0].slice.value, node.value.value))
    if d13 is None:
        raise ValueError("1->3 letter dict of ProteinSequence not found")
    # LetterAlphabet.PRINTABLES
    alph_src = open(os.path.join(base, "alphabet.py")).read()
    la = _class_body(ast.parse(alph_src), "LetterAlphabet")
    pv = _assign_value(la, "PRINTABLES")
    import string
    try:
        expr = pv.func.value if isinstance(pv, ast.Call) else pv      # (<expr>).encode("ASCII")
        printables = eval(compile(ast.Expression(expr), "<PRINTABLES>", "eval"), {"__builtins__": {}}, {"string": string})
        if isinstance(printables, bytes):
            printables = printables.decode("ascii")
    except Exception as e:  # noqa: BLE001
        raise ValueError(f"cannot evaluate LetterAlphabet.PRINTABLES: {e}")
    # codon.py: column offsets of load(), default table
    codon_src = open(os.path.join(base, "codon.py")).read()
    codon_tree = ast.parse(codon_src)
    load_fn = _sf_find(codon_tree, "CodonTable", "load")
    fields = {}
    for node in ast.walk(load_fn):      # `if X.startswith("AA"): y = X[5:].strip()` — whatever X and y are called
        if isinstance(node, ast.If) and isinstance(node.test, ast.Call) and isinstance(node.test.func, ast.Attribute) \
                and node.test.func.attr == "startswith" and node.test.args and isinstance(node.test.args[0], ast.Constant):
            for st in node.body:
                if isinstance(st, ast.Assign) and isinstance(st.value, ast.Call) and isinstance(st.value.func, ast.Attribute) \
                        and st.value.func.attr == "strip" and isinstance(st.value.func.value, ast.Subscript) \
                        and isinstance(st.value.func.value.slice, ast.Slice) and isinstance(st.value.func.value.slice.lower, ast.Constant):
                    fields[node.test.args[0].value] = st.value.func.value.slice.lower.value
    fields = {k: v for k, v in fields.items() if k in ("AA", "Init", "Base1", "Base2", "Base3")}   # only the table rows
    if sorted(fields) != ["AA", "Base1", "Base2", "Base3", "Init"]:
        raise ValueError(f"CodonTable.load column extraction not found: {fields}")
    default_name = default_starts = None
    for node in codon_tree.body:        # `<name> = CodonTable.load("…").with_start_codons([…])` at module level
        if isinstance(node, ast.Assign) and isinstance(node.value, ast.Call) and isinstance(node.value.func, ast.Attribute) \
                and node.value.func.attr == "with_start_codons" and isinstance(node.value.func.value, ast.Call) \
                and ast.unparse(node.value.func.value.func) == "CodonTable.load":
            default_name = ast.literal_eval(node.value.func.value.args[0])
            default_starts = ast.literal_eval(node.value.args[0])
    if default_name is None:
        raise ValueError("default table definition not found")
    marks = [c.comparators[0].value for c in ast.walk(load_fn) if isinstance(c, ast.Compare) and isinstance(c.left, ast.Subscript)
             and len(c.ops) == 1 and isinstance(c.ops[0], ast.Eq) and isinstance(c.comparators[0], ast.Constant)
             and isinstance(c.comparators[0].value, str) and len(c.comparators[0].value) == 1]
    if len(marks) != 1:
        raise ValueError("start marker test not found in CodonTable.load")
    start_marker = marks[0]
    tables = parse_codon_tables(open(os.path.join(base, "codon_tables.txt")).read(), fields)
    if not tables:
        raise ValueError("no tables in codon_tables.txt")
    for t in tables:
        for f in ("id", "AA", "Init", "Base1", "Base2", "Base3"):
            if f not in t:
                raise ValueError(f"table {t.get('names')} lacks {f}")
    # kmeralphabet.pyx: the range guard of fuse()
    kmer_src = open(os.path.join(base, "align/kmeralphabet.pyx")).read()
    m = re.search(r"def fuse\(self, codes\):.*?if np\.any\(codes\s*(>=|>)\s*len\(self\._base_alph\)\)(.*?):\s*\n\s*raise AlphabetError",
                  kmer_src, re.S)
    if not m:
        raise ValueError("range guard of KmerAlphabet.fuse not found")
    fuse_op = m.group(1)
    fuse_lower = "codes < 0" in m.group(2)

    L = ["/- REGENERATED on every run by harness/props/c03.py from sequence/seqtypes.py, alphabet.py, codon.py,",
         "   codon_tables.txt and align/kmeralphabet.pyx.  Do not edit. -/",
         "namespace BiotiteModel.Gen.C03",
         "/-- `NucleotideSequence.alphabet_unamb` / `alphabet_amb` (byte values). -/",
         f"def nucUnamb : List Nat := {_b(unamb)}",
         f"def nucAmb : List Nat := {_b(amb)}",
         "/-- `NucleotideSequence.compl_symbol_dict` in source order. -/",
         "def complDict : List (Nat × Nat) := [" + ", ".join(f"({ord(k)}, {ord(v)})" for k, v in compl.items()) + "]",
         "/-- `ProteinSequence.alphabet`. -/",
         f"def protAlph : List Nat := {_b(palph)}",
         "/-- `ProteinSequence._dict_1to3` and the extra `_dict_3to1` entries. -/",
         "def dict1to3 : List (Nat × String) := [" + ", ".join(f'({ord(k)}, "{v}")' for k, v in d13.items()) + "]",
         "def dict3to1Extra : List (String × Nat) := [" + ", ".join(f'("{k}", {ord(v)})' for k, v in extra31) + "]",
         "/-- `LetterAlphabet.PRINTABLES`. -/",
         f"def printables : List Nat := {_b(printables)}",
         "/-- The comparison in the range guard of `KmerAlphabet.fuse` and whether it also tests `codes < 0`. -/",
         f'def fuseGuardOp : String := "{fuse_op}"',
         f"def fuseGuardHasLowerBound : Bool := {'true' if fuse_lower else 'false'}",
         "/-- One table of `codon_tables.txt`, rows cut at the offsets `CodonTable.load` uses. -/",
         "structure TableRows where",
         "  id : Nat",
         "  names : List String",
         "  aa : List Nat",
         "  init : List Nat",
         "  base1 : List Nat",
         "  base2 : List Nat",
         "  base3 : List Nat",
         f"def startMarker : Nat := {ord(start_marker)}",
         "def codonTables : List TableRows := ["]
    rows = []
    for t in tables:
        names = ", ".join('"' + n.replace('"', '\\"') + '"' for n in t["names"])
        rows.append(f"  ⟨{t['id']}, [{names}], {_b(t['AA'])}, {_b(t['Init'])}, {_b(t['Base1'])}, {_b(t['Base2'])}, {_b(t['Base3'])}⟩")
    L.append(",\n".join(rows) + "]")
    # ---- structural facts of the anchored functions (pass 7 / 8)
    groups, ladders = source_facts()

    def lstr(x):
        return '"' + x.replace("\\", "\\\\").replace('"', '\\"') + '"'
    for gname in ("alphabet", "sequence", "translate", "codon", "kmer", "defaults"):
        L.append(f"/-- alpha-normalised facts of the source, group `{gname}` (function, facts). -/")
        L.append(f"def facts{gname.capitalize()} : List (String × String) := [")
        L.append(",\n".join(f"  ({lstr(k)}, {lstr(v)})" for k, v in groups[gname]) + "]")
    bits = {"np.uint8": 8, "np.uint16": 16, "np.uint32": 32}
    for cname, lname in (("Sequence", "seqDtypeLadder"), ("AlphabetMapper", "mapperDtypeLadder")):
        L.append(f"/-- `{cname}`'s dtype ladder: (comparison, bound, bits of the unsigned dtype returned), thresholds evaluated. -/")
        L.append(f"def {lname} : List (String × Nat × Nat) := [" + ", ".join(f'("{op}", {b}, {r})' for op, b, r in ladders[cname]) + "]")
    tr = _sf_find(seqtypes, "NucleotideSequence", "translate")
    enc_consts = [n.args[0].value for n in ast.walk(tr) if isinstance(n, ast.Call) and isinstance(n.func, ast.Attribute) and n.func.attr == "encode"
                  and n.args and isinstance(n.args[0], ast.Constant) and isinstance(n.args[0].value, str)]
    enc_consts = sorted(set(enc_consts), key=enc_consts.index)
    frames = [n.iter.args[0].value for n in ast.walk(tr) if isinstance(n, ast.For) and isinstance(n.iter, ast.Call)
              and getattr(n.iter.func, "id", None) == "range" and len(n.iter.args) == 1 and isinstance(n.iter.args[0], ast.Constant)]
    if len(enc_consts) != 2 or len(frames) != 1:
        raise ValueError(f"translate: stop/met symbols or frame loop not found ({enc_consts}, {frames})")
    exps = None
    for node in codon_tree.body:       # the radix multiplier: `[… ** n for n in (2, 1, 0)]` at module level
        if isinstance(node, ast.Assign):
            for c in ast.walk(node.value):
                if isinstance(c, ast.ListComp) and isinstance(c.elt, ast.BinOp) and isinstance(c.elt.op, ast.Pow) \
                        and isinstance(c.generators[0].iter, ast.Tuple):
                    exps = [e.value for e in c.generators[0].iter.elts]
    if exps is None:
        raise ValueError("radix multiplier exponents not found in codon.py")
    L += ["/-- `translate`: the symbols looked up for the stop / methionine code (in this order) and the number of frames. -/",
          f"def stopSymbol : Nat := {ord(enc_consts[0])}", f"def metSymbol : Nat := {ord(enc_consts[1])}", f"def frameCount : Nat := {frames[0]}",
          "/-- exponents of the radix multiplier of `CodonTable._to_number`. -/",
          "def radixExponents : List Nat := [" + ", ".join(str(e) for e in exps) + "]"]
    L += ["/-- `_default_table = CodonTable.load(name).with_start_codons(starts)`. -/",
          f'def defaultTableName : String := "{default_name}"',
          "def defaultStarts : List (List Nat) := [" + ", ".join(_b(s) for s in default_starts) + "]",
          "end BiotiteModel.Gen.C03", ""]
    return {"BiotiteModel/Gen/C03.lean": "\n".join(L)}



# ---------------------------------------------------------------- structural source facts (tie pass 7 / 8)
# Functions are alpha-normalised (parameters positional, locals anonymous, private globals / attributes numbered by first
# use, docstrings / annotations / messages / assertions dropped) and reduced to ordered lists of FACTS: the atomic tests of
# if/while conditions, every comparison, the exception classes raised, numeric constants in arithmetic and slices,
# constant arguments of calls, returned names.  Renames, rewording and most restructuring leave them unchanged; a changed
# operator, constant, order of checks, default or exception class changes them.
def _sf_strip(fn):
    """drop docstring, annotations"""
    fn = ast.parse(ast.unparse(fn)).body[0]
    if fn.body and isinstance(fn.body[0], ast.Expr) and isinstance(getattr(fn.body[0], "value", None), ast.Constant) and isinstance(fn.body[0].value.value, str):
        fn.body = fn.body[1:] or [ast.Pass()]
    fn.returns = None
    for a in fn.args.args + fn.args.kwonlyargs + fn.args.posonlyargs:
        a.annotation = None
    return fn

def _sf_params(fn):
    return [a.arg for a in fn.args.posonlyargs + fn.args.args + fn.args.kwonlyargs]

def _sf_locals(fn):
    out = []
    for n in ast.walk(fn):
        if isinstance(n, ast.Name) and isinstance(n.ctx, ast.Store) and n.id not in out:
            out.append(n.id)
        if isinstance(n, ast.ExceptHandler) and n.name and n.name not in out:
            out.append(n.name)
    return out

class _SfNorm(ast.NodeTransformer):
    def __init__(self, fn):
        self.p = {p: f"p{i}" for i, p in enumerate(_sf_params(fn))}
        self.loc = set(_sf_locals(fn))
        self.lmap, self.gmap, self.amap = {}, {}, {}
    def visit_Name(self, n):
        i = n.id
        if i in self.p: n.id = self.p[i]
        elif i in self.loc: n.id = "v"          # locals are not told apart: their number and order is not behaviour
        elif i.startswith("_"): n.id = self.gmap.setdefault(i, f"_g{len(self.gmap)}")
        return n
    def visit_Attribute(self, n):
        self.generic_visit(n)
        if n.attr.startswith("_") and not n.attr.startswith("__"):
            n.attr = self.amap.setdefault(n.attr, f"_a{len(self.amap)}")
        return n
    def visit_Raise(self, n):
        self.generic_visit(n)
        if isinstance(n.exc, ast.Call): n.exc = n.exc.func
        n.cause = None
        return n
    def visit_Assert(self, n):
        return None       # assertions carry no behaviour of valid runs
    def visit_AnnAssign(self, n):
        self.generic_visit(n)
        return ast.Assign(targets=[n.target], value=n.value, lineno=0) if n.value else None

class _SfSubst(ast.NodeTransformer):
    def __init__(self, m):
        self.m = m

    def visit_Name(self, n):
        return ast.parse(ast.unparse(self.m[n.id]), mode="eval").body if n.id in self.m else n


def _sf_inline(fn, helpers, depth=2):
    """replace statement-level calls of PRIVATE helpers (module functions `_x(...)`, methods `self._x(...)` / `Cls._x(...)`)
    by the helper's body with its parameters substituted — extracting or merging a private helper is not behaviour.
    Anything that does not fit the simple pattern is left as it is (never raises)."""
    if depth == 0:
        return fn

    def helper_call(call):
        if not isinstance(call, ast.Call) or call.keywords:
            return None
        f = call.func
        name = f.id if isinstance(f, ast.Name) else f.attr if isinstance(f, ast.Attribute) and isinstance(f.value, ast.Name) else None
        if not name or not name.startswith("_") or name.startswith("__") or name not in helpers:
            return None
        h = helpers[name]
        ps = [a.arg for a in h.args.args]
        if isinstance(f, ast.Attribute) and ps and ps[0] in ("self", "cls"):
            args = [f.value] + list(call.args)
        else:
            args = list(call.args)
        if len(args) != len(ps) or h.args.vararg or h.args.kwarg or h.args.kwonlyargs:
            return None
        return h, dict(zip(ps, args))

    class Inl(ast.NodeTransformer):
        def visit_Expr(self, n):
            hc = helper_call(n.value)
            if hc is None:
                return n
            h, m = hc
            body = [ast.parse(ast.unparse(st)).body[0] for st in _sf_strip(h).body]
            body = [st for st in body if not isinstance(st, ast.Return)]
            return [_SfSubst(m).visit(st) for st in body] or [ast.Pass()]

        def visit_Assign(self, n):
            hc = helper_call(n.value)
            if hc is None:
                return n
            h, m = hc
            body = [ast.parse(ast.unparse(st)).body[0] for st in _sf_strip(h).body]
            if not body or not isinstance(body[-1], ast.Return) or body[-1].value is None or any(isinstance(x, ast.Return) for st in body[:-1] for x in ast.walk(st)):
                return n
            out = [_SfSubst(m).visit(st) for st in body[:-1]]
            out.append(ast.Assign(targets=n.targets, value=_SfSubst(m).visit(body[-1]).value, lineno=0))
            return out
    try:
        new = Inl().visit(ast.parse(ast.unparse(fn)).body[0])
        ast.fix_missing_locations(new)
        new = ast.parse(ast.unparse(new)).body[0]
        return _sf_inline(new, helpers, depth - 1) if ast.unparse(new) != ast.unparse(fn) else new
    except Exception:  # noqa: BLE001
        return fn


def _sf_norm(fn):
    fn = _sf_strip(fn)
    fn = _SfNorm(fn).visit(fn)
    ast.fix_missing_locations(fn)
    return fn

def _sf_atoms(e, out):
    if isinstance(e, ast.BoolOp):
        for v in e.values: _sf_atoms(v, out)
    elif isinstance(e, ast.UnaryOp) and isinstance(e.op, ast.Not):
        _sf_atoms(e.operand, out)
    elif isinstance(e, ast.BinOp) and isinstance(e.op, (ast.BitOr, ast.BitAnd)):
        _sf_atoms(e.left, out); _sf_atoms(e.right, out)
    else:
        out.append(ast.unparse(e))

class _SfFacts(ast.NodeVisitor):
    def __init__(self):
        self.tests, self.raises, self.consts, self.strs, self.returns, self.cmps, self.ext = [], [], [], [], [], [], []

    def visit_Compare(self, n):
        self.cmps.append(ast.unparse(n)); self.generic_visit(n)

    def visit_Subscript(self, n):
        sl = n.slice
        if isinstance(sl, ast.Slice):
            for tag, b in (("lo", sl.lower), ("hi", sl.upper)):
                if isinstance(b, ast.Constant) and isinstance(b.value, int):
                    self.consts.append(f"Slice{tag}{b.value}")
        self.generic_visit(n)
    def visit_If(self, n):
        _sf_atoms(n.test, self.tests); self.generic_visit(n)
    def visit_While(self, n):
        _sf_atoms(n.test, self.tests); self.generic_visit(n)
    def visit_IfExp(self, n):
        _sf_atoms(n.test, self.tests); self.generic_visit(n)
    def visit_Raise(self, n):
        self.raises.append(ast.unparse(n.exc) if n.exc else "reraise")
    def visit_BinOp(self, n):
        for side, other in ((n.left, n.right), (n.right, n.left)):
            if isinstance(side, ast.Constant) and isinstance(side.value, (int, float)) and not isinstance(side.value, bool):
                self.consts.append(type(n.op).__name__ + ("L" if side is n.left else "R") + str(side.value))
        self.generic_visit(n)
    def visit_Call(self, n):
        if isinstance(n.func, ast.Attribute) and n.func.attr == "extends":
            self.ext.append(ast.unparse(n))          # which alphabet is asked to extend which — wherever the call stands
        for a in n.args:
            if isinstance(a, ast.Constant) and isinstance(a.value, (str, int)) and not isinstance(a.value, bool):
                self.strs.append(ast.unparse(n.func).split(".")[-1] + "(" + repr(a.value) + ")")
        self.generic_visit(n)
    def visit_Return(self, n):
        if n.value is not None and isinstance(n.value, (ast.Constant, ast.Attribute, ast.Name)):
            self.returns.append(ast.unparse(n.value))
        self.generic_visit(n)

def _sf_facts(fn, want="trcs"):
    f = _SfFacts(); f.visit(_sf_norm(fn))
    for name in ("tests", "consts", "strs", "returns", "cmps", "ext"):      # repeated evaluation of the same thing is not a fact
        setattr(f, name, list(dict.fromkeys(getattr(f, name))))
    f.raises = sorted(set(f.raises))                                  # which classes can be raised, not how often
    parts = []
    if "t" in want: parts.append("tests=" + " ; ".join(f.tests))
    if "r" in want: parts.append("raises=" + ",".join(f.raises))
    if "c" in want: parts.append("consts=" + ",".join(f.consts))
    if "s" in want: parts.append("calls=" + ",".join(f.strs))
    if "R" in want: parts.append("returns=" + ",".join(f.returns))
    if "k" in want: parts.append("compares=" + " ; ".join(f.cmps))
    if "x" in want: parts.append("extends=" + " ; ".join(f.ext))
    return " | ".join(parts)

def _sf_find(tree, cls, name, deco=None):
    for c in tree.body:
        if isinstance(c, ast.ClassDef) and c.name == cls:
            for f in c.body:
                if isinstance(f, ast.FunctionDef) and f.name == name:
                    if deco is None and not any("setter" in ast.unparse(d) for d in f.decorator_list): return f
                    if deco and any(deco in ast.unparse(d) for d in f.decorator_list): return f
    raise ValueError(f"{cls}.{name} not found")



def _sf_defaults(fn):
    """`param=default` of every parameter that has a default (annotations dropped)"""
    a = fn.args
    pos = a.posonlyargs + a.args
    out = []
    for arg, d in zip(pos[len(pos) - len(a.defaults):], a.defaults):
        out.append(f"{arg.arg}={ast.unparse(d)}")
    for arg, d in zip(a.kwonlyargs, a.kw_defaults):
        if d is not None:
            out.append(f"{arg.arg}={ast.unparse(d)}")
    return ",".join(out)


def _pyx_function(src, name):
    m = re.search(r"^(\s*)def " + re.escape(name) + r"\(", src, re.M)
    if not m:
        raise ValueError(f"function {name} not found in .pyx")
    ind = m.group(1)
    rest = src[m.end():]
    m2 = re.search(r"^" + ind + r"(?:def |@|class )", rest, re.M)
    body = rest[:m2.start()] if m2 else rest
    body = re.sub(r'"""(?:.|\n)*?"""', "", body)
    return re.sub(r"#[^\n]*", "", body)


def _pyx_guards(src, name):
    """(comparison operators of the condition, exception class) of every `if …: raise X(` in a .pyx function, in order"""
    body = _pyx_function(src, name)
    out = []
    for m in re.finditer(r"if ([^\n]*?):[ \t]*\n(?:[ \t]+(?!raise\b|if\b|elif\b|else\b|for\b|while\b)[^\n]*\n|[ \t]*\n){0,5}?[ \t]*raise (\w+)", body):
        cond = re.sub(r"<\s*(?:unsigned\s+)?\w+\s*>", "", m.group(1))      # C casts
        out.append("".join(re.findall(r">=|<=|==|!=|>|<|\bnot in\b|\bin\b", cond)) + "->" + m.group(2))
    return ",".join(out)


def source_facts():
    from common import paths
    base = os.path.join(paths.SRC, "biotite/sequence")
    T = {f: ast.parse(open(os.path.join(base, f)).read()) for f in ("alphabet.py", "sequence.py", "seqtypes.py", "codon.py")}
    groups = {"alphabet": [], "sequence": [], "translate": [], "codon": [], "kmer": [], "defaults": []}

    def add(group, f, cls, name, want, deco=None, keep=None):
        helpers = {x.name: x for x in T[f].body if isinstance(x, ast.FunctionDef)}
        for c in T[f].body:
            if isinstance(c, ast.ClassDef) and c.name == cls:
                helpers.update({x.name: x for x in c.body if isinstance(x, ast.FunctionDef) and x.name != name})
        txt = _sf_facts(_sf_inline(_sf_find(T[f], cls, name, deco), helpers), want)
        if keep:       # pin only the facts that carry the named constants (the rest of the function may be computed differently)
            parts = []
            for part in txt.split(" | "):
                head, _, body = part.partition("=")
                if head not in ("compares", "tests"):
                    parts.append(part)
                else:
                    parts.append(head + "=" + " ; ".join(x for x in body.split(" ; ") if re.search(keep, x)))
            txt = " | ".join(parts)
        groups[group].append((f"{cls}.{name}" + (".setter" if deco else ""), txt))

    add("alphabet", "alphabet.py", "Alphabet", "__init__", "tr")
    add("alphabet", "alphabet.py", "Alphabet", "decode", "kr")
    add("alphabet", "alphabet.py", "Alphabet", "encode", "r")
    add("alphabet", "alphabet.py", "Alphabet", "extends", "k")
    add("alphabet", "alphabet.py", "LetterAlphabet", "__init__", "kr")
    add("alphabet", "alphabet.py", "LetterAlphabet", "encode", "kr")
    add("alphabet", "alphabet.py", "LetterAlphabet", "decode", "kr")
    add("alphabet", "alphabet.py", "LetterAlphabet", "decode_multiple", "kr")
    add("alphabet", "alphabet.py", "LetterAlphabet", "encode_multiple", "kr")
    add("alphabet", "alphabet.py", "AlphabetMapper", "__init__", "x")
    add("sequence", "sequence.py", "Sequence", "code", "kr", deco="setter")
    add("sequence", "sequence.py", "Sequence", "__setitem__", "tkr")
    add("sequence", "sequence.py", "Sequence", "__eq__", "t")
    add("sequence", "sequence.py", "Sequence", "is_valid", "k")
    add("sequence", "sequence.py", "Sequence", "__add__", "tr")
    add("sequence", "sequence.py", "Sequence", "__getitem__", "t")
    add("sequence", "seqtypes.py", "GeneralSequence", "as_type", "tr")
    add("sequence", "seqtypes.py", "NucleotideSequence", "__init__", "t")
    add("sequence", "seqtypes.py", "ProteinSequence", "__init__", "kr")
    add("translate", "seqtypes.py", "NucleotideSequence", "translate", "krcs", keep=r"% 3|alphabet_unamb|is None|^v == v$")      # how "is there a stop" is asked is not pinned
    add("codon", "codon.py", "CodonTable", "_to_number", "kr")
    add("codon", "codon.py", "CodonTable", "__init__", "kr", keep=r"!= 3|== -1")
    add("codon", "codon.py", "CodonTable", "map_codon_codes", "kr")
    add("codon", "codon.py", "CodonTable", "load", "tkrc")
    # .pyx: guards by regex inside the function text
    kmer = open(os.path.join(base, "align/kmeralphabet.pyx")).read()
    for fn in ("__init__", "fuse", "split", "_create_continuous_kmers", "_create_spaced_kmers"):
        groups["kmer"].append(("KmerAlphabet." + fn, _pyx_guards(kmer, fn)))
    m = re.search(r"kmer = \((.*?)\n\s*kmers\[i\] = kmer", _pyx_function(kmer, "_create_continuous_kmers"), re.S)
    if not m:
        raise ValueError("rolling update of _create_continuous_kmers not found")
    formula = re.sub(r"\s+", "", m.group(1))
    ids = []
    for x in re.findall(r"[A-Za-z_]\w*", formula):
        if x not in ids:
            ids.append(x)
    for i, x in enumerate(ids):
        formula = re.sub(r"\b" + x + r"\b", f"x{i}", formula)
    groups["kmer"].append(("KmerAlphabet.rolling_update", formula))
    codec = open(os.path.join(base, "codec.pyx")).read()
    enc_body = _pyx_function(codec, "encode_chars")
    sizes = re.findall(r"\[(\d+)\]", enc_body) + re.findall(r"\]\s*\*\s*(\d+)", enc_body)
    groups["kmer"].append(("codec.encode_chars", _pyx_guards(codec, "encode_chars") + " table=" + ",".join(sizes)))
    groups["kmer"].append(("codec.decode_to_chars", _pyx_guards(codec, "decode_to_chars")))
    # defaults of the public entry points the adapter / model rely on
    for f, cls, name in [("alphabet.py", "Alphabet", "encode_multiple"), ("alphabet.py", "LetterAlphabet", "encode_multiple"), ("alphabet.py", "LetterAlphabet", "decode_multiple"),
                         ("alphabet.py", "LetterAlphabet", "decode"), ("sequence.py", "Sequence", "__init__"), ("sequence.py", "Sequence", "copy"), ("sequence.py", "Sequence", "reverse"),
                         ("seqtypes.py", "GeneralSequence", "__init__"), ("seqtypes.py", "NucleotideSequence", "__init__"), ("seqtypes.py", "NucleotideSequence", "translate"),
                         ("seqtypes.py", "ProteinSequence", "__init__"), ("codon.py", "CodonTable", "codon_dict"), ("codon.py", "CodonTable", "start_codons")]:
        groups["defaults"].append((f"{cls}.{name}", _sf_defaults(_sf_find(T[f], cls, name))))
    m = re.search(r"def __init__\(self, base_alphabet, k, spacing=(\w+)\)", kmer)
    groups["defaults"].append(("KmerAlphabet.__init__", "spacing=" + (m.group(1) if m else "?")))
    # the dtype ladder of Sequence.dtype / AlphabetMapper._dtype: the function is found by what it mentions (a staticmethod of
    # one parameter naming np.uint8 … np.uint64) and then EVALUATED on probe sizes, so an elif chain, early returns or a loop
    # over the dtypes give the same ladder; a changed bound or operator gives another one.  Never raises: an unreadable
    # ladder is emitted as [] and breaks the named obligation C03_gen_dtype_ladder.
    import numpy as np

    def ladder_of(tree, cls):
        try:
            c = [x for x in tree.body if isinstance(x, ast.ClassDef) and x.name == cls][0]
            cands = [fn for fn in c.body if isinstance(fn, ast.FunctionDef) and any("staticmethod" in ast.unparse(d) for d in fn.decorator_list)
                     and len(fn.args.args) == 1 and "uint8" in ast.unparse(fn) and "uint64" in ast.unparse(fn)]
            if len(cands) != 1:
                return []
            fn = ast.parse(ast.unparse(cands[0])).body[0]
            fn.decorator_list = []
            env = {"np": np}
            for st in tree.body:
                if isinstance(st, ast.Assign) and len(st.targets) == 1 and isinstance(st.targets[0], ast.Name):
                    try:
                        env[st.targets[0].id] = eval(compile(ast.Expression(st.value), "<const>", "eval"), {"__builtins__": {}}, env)
                    except Exception:  # noqa: BLE001
                        pass
            mod = ast.Module(body=[fn], type_ignores=[])
            ast.fix_missing_locations(mod)
            exec(compile(mod, "<ladder>", "exec"), env)
            f = env[fn.name]

            def bits(n):
                return np.dtype(f(n)).itemsize * 8
            lad = []
            for b in (2 ** 8, 2 ** 16, 2 ** 32):
                lo, at, hi = bits(b - 1), bits(b), bits(b + 1)
                if lo == at and at < hi:
                    lad.append(("LtE", b, at))
                elif lo < at and at == hi:
                    lad.append(("Lt", b, lo))
                else:
                    return []

            def ref(n):
                for op, b, w in lad:
                    if (n <= b) if op == "LtE" else (n < b):
                        return w
                return 64
            for n in (1, 2, 94, 200, 300, 1000, 70000, 2 ** 31, 2 ** 33, 2 ** 40, 2 ** 63):
                if bits(n) != ref(n):
                    return []
            return lad
        except Exception:  # noqa: BLE001
            return []

    ladders = {"Sequence": ladder_of(T["sequence.py"], "Sequence"), "AlphabetMapper": ladder_of(T["alphabet.py"], "AlphabetMapper")}
    return groups, ladders


# ---------------------------------------------------------------- helpers shared by adapter / generator / oracle
NPDT = {"u8": "uint8", "u16": "uint16", "u32": "uint32", "u64": "uint64", "i8": "int8", "i16": "int16", "i32": "int32", "i64": "int64"}
DT_RANGE = {"u8": (0, 2**8 - 1), "u16": (0, 2**16 - 1), "u32": (0, 2**32 - 1), "u64": (0, 2**64 - 1),
            "i8": (-2**7, 2**7 - 1), "i16": (-2**15, 2**15 - 1), "i32": (-2**31, 2**31 - 1), "i64": (-2**63, 2**63 - 1)}
PRINTABLE = list(range(33, 127))


def _ints(xs):
    xs = list(xs)
    return ",".join(str(int(x)) for x in xs) if xs else "_"


def _toks(xs):
    xs = list(xs)
    return ",".join(xs) if xs else "_"


def _ptoks(s):
    return [] if s in ("_", "") else s.split(",")


def _spec_toks(spec):
    """symbol tokens of an alphabet spec `L:..` / `G:..` / `R:count:mod:a:b` (integers (a*j+b) % mod, j < count)"""
    if spec.startswith("R:"):
        count, mod, a, b = (int(x) for x in spec[2:].split(":"))
        return ["i" + str((a * j + b) % mod) for j in range(count)]
    return _ptoks(spec[2:])


def _letters(tok):
    """letter-symbol token -> bytes or str: `65` one byte; `71.84` the two-letter bytes b"GT"; `71.84s` the str "GT";
    `.` / `.s` the empty bytes / str (multi-letter and empty tokens are only legal arguments of single-symbol encode)"""
    as_str = tok.endswith("s")
    body = tok[:-1] if as_str else tok
    b = bytes(int(x) for x in body.split(".") if x != "")
    return b.decode("latin-1") if as_str else b


def _index(tok):
    """`<int>` -> Python int, `<int>:<dtype>` -> numpy integer scalar of that dtype"""
    if ":" in tok:
        import numpy as np
        v, dt = tok.split(":")
        return {"ip": np.intp, **{k: getattr(np, NPDT[k]) for k in NPDT}}[dt](int(v))
    return int(tok)


def _pints(s):
    return [int(x) for x in _ptoks(s)]


def tok_to_sym(t):
    """Injective token -> hashable Python symbol (no bool/float, so == never conflates two tokens)."""
    if t == "N":
        return None
    if t[0] == "i":
        return int(t[1:])
    if t[0] == "s":
        return t[1:]
    if t[0] == "b":
        return t[1:].encode("ascii")
    if t[0] == "t":
        return tuple(int(x) for x in t[1:].split("."))
    raise ValueError("bad token " + t)


def sym_to_tok(s):
    if s is None:
        return "N"
    if isinstance(s, bool):
        raise ValueError("bool symbol")
    if isinstance(s, int):
        return "i" + str(s)
    if isinstance(s, str):
        return "s" + s
    if isinstance(s, bytes):
        return "b" + s.decode("ascii")
    if isinstance(s, tuple):
        return "t" + ".".join(str(x) for x in s)
    import numpy as np
    if isinstance(s, np.integer):
        return "i" + str(int(s))
    raise ValueError(f"unprintable symbol {s!r}")


class _A:
    """Alphabet spec -> real alphabet object + converters between tokens and Python symbols."""

    def __init__(self, spec):
        import biotite.sequence as seq
        self.letter = spec.startswith("L:")
        self.toks = _spec_toks(spec)
        if self.letter:
            self.alph = seq.LetterAlphabet([bytes([int(t)]) for t in self.toks])
        else:
            self.alph = seq.Alphabet([tok_to_sym(t) for t in self.toks])

    def syms(self, toks):
        """tokens -> argument for encode_multiple / Sequence constructors"""
        if self.letter:
            return bytes(int(t) for t in toks)
        return [tok_to_sym(t) for t in toks]

    def sym(self, tok):
        if self.letter:
            return _letters(tok)
        return tok_to_sym(tok)

    def show(self, symbols):
        if self.letter:
            out = []
            for s in symbols:
                out.append(str(s[0] if isinstance(s, bytes) else ord(s)))
            return _toks(out)
        return _toks(sym_to_tok(s) for s in symbols)

    def show1(self, s):
        return self.show([s])


def _seq_tokens(entry):
    """Symbols of a register's sequence as tokens via str() for letter alphabets, .symbols otherwise."""
    s, a = entry
    if a.letter:
        return _toks(str(b) for b in str(s).encode("latin-1"))
    return a.show(s.symbols)


def _err(e):
    return "ERR:" + type(e).__name__


def _seq_tokens_safe(entry):
    try:
        return _seq_tokens(entry)
    except Exception as e:  # noqa: BLE001
        return "!" + type(e).__name__


class _NucA:
    """Converter for NucleotideSequence / ProteinSequence registers."""
    letter = True

    def __init__(self, alph):
        self.alph = alph

    def syms(self, toks):
        return bytes(int(t) for t in toks).decode("latin-1")

    def sym(self, tok):
        r = _letters(tok)
        return r.decode("latin-1") if ("." not in tok) else r      # single letters as str; multi-letter as bytes or str

    show = _A.show
    show1 = _A.show1


RADIX_CODONS = [a + b + c for a in "ACGT" for b in "ACGT" for c in "ACGT"]


def _show_table(t):
    import biotite.sequence as seq
    nuc = seq.NucleotideSequence.alphabet_unamb
    aa = "".join(t[c] for c in RADIX_CODONS)
    starts = [16 * nuc.encode(c[0]) + 4 * nuc.encode(c[1]) + nuc.encode(c[2]) for c in t.start_codons()]
    return aa + " " + _ints(starts)


# ---------------------------------------------------------------- implementation adapter
def _run_local(case):
    import numpy as np
    import biotite.sequence as seq
    from biotite.sequence.align import KmerAlphabet

    out = []
    regs = []          # [(Sequence, converter)]
    table = [None]
    table2 = [None]
    # the default table is a module-level singleton: rebuild it for every case, so that a table that was
    # altered through a shared array (a defect in the code under test) cannot leak into later cases
    import biotite.sequence.codon as _codon
    try:
        gname = [n for n in seq.CodonTable.default_table.__code__.co_names if n in vars(_codon)][0]      # whatever the private global is called
        setattr(_codon, gname, seq.CodonTable.load("Standard").with_start_codons(["ATG"]))
    except Exception:  # noqa: BLE001
        pass

    def arr(dt, vals):
        """`list` / `tuple` / `<dtype>[@c|s|r|b|t]`: C-contiguous, strided view, read-only, byte-swapped, tuple"""
        if dt == "list":
            return list(vals)
        if dt == "tuple":
            return tuple(vals)
        base, _, form = dt.partition("@")
        a = np.array(vals, dtype=NPDT[base]) if vals else np.array([], dtype=NPDT[base])
        if form == "s":
            big = np.zeros(2 * len(a) + 1, dtype=a.dtype)
            big[1::2] = a
            a = big[1::2]
        elif form == "r":
            a.setflags(write=False)
        elif form == "b":
            a = a.astype(a.dtype.newbyteorder())
        elif form == "t":
            return tuple(vals)
        return a

    # objects are REUSED inside one case (the model is stateless, so it plays the fresh object): any state an
    # alphabet / mapper / k-mer alphabet keeps across calls becomes a disagreement
    cache = {}

    def A(spec, fresh=False):
        if fresh or spec not in cache:
            cache[spec] = _A(spec)
        return cache[spec]

    def KA(base_key, base, k, sp=None):
        key = ("ka", base_key, k, repr(sp))
        if key not in cache:
            cache[key] = KmerAlphabet(base, k, sp)
        return cache[key]

    def RA(n):
        if ("range", n) not in cache:
            cache[("range", n)] = seq.Alphabet(range(n))
        return cache[("range", n)]

    def snapshot(s):
        c = s.code
        return (c.dtype.str, c.tobytes(), tuple(s.get_alphabet().get_symbols()) if len(s.get_alphabet()) < 400 else len(s.get_alphabet()))

    def guarded(s, fn, others=()):
        """run a mutating call; if it raises, the receiver (and the other sequences involved) must equal their snapshots"""
        before = [snapshot(x) for x in (s,) + tuple(others)]
        try:
            return fn()
        except Exception as e:  # noqa: BLE001
            after = [snapshot(x) for x in (s,) + tuple(others)]
            if after != before:
                return _err(e) + "+MUTATED"
            raise

    def symform(a, toks, form):
        """the same symbols in another spelling"""
        if a.letter and form.endswith("m"):
            # items may be strings of several letters (`65.67`) or empty (`.`): containers of bytes / str items
            items = [_letters(t) for t in toks]
            strs = [x.decode("latin-1") for x in items]
            kind = form[:-1]
            if kind == "aS":
                return np.array(items) if items else np.array([], dtype="S1")
            if kind == "aU":
                return np.array(strs) if strs else np.array([], dtype="U1")
            if kind == "aO":
                o = np.empty(len(strs), dtype=object)
                for i, x in enumerate(strs):
                    o[i] = x
                return o
            if kind == "t":
                return tuple(strs)
            if kind == "lb":
                return items
            return strs
        if a.letter:
            b = bytes(int(t) for t in toks)
            if form in ("", "b"):
                return b
            chars = [chr(x) for x in b]
            return {"s": "".join(chars), "l": chars, "t": tuple(chars), "aU": np.array(chars, dtype="U1") if chars else np.array([], dtype="U1"),
                    "aS": np.array([bytes([x]) for x in b], dtype="S1") if chars else np.array([], dtype="S1"),
                    "aO": np.array(chars + [None], dtype=object)[:-1], "n": np.str_("".join(chars)), "lb": [bytes([x]) for x in b]}[form]
        syms = [tok_to_sym(t) for t in toks]
        if form in ("", "l"):
            return syms
        if form == "t":
            return tuple(syms)
        if form == "aO":
            o = np.empty(len(syms), dtype=object)
            for i, x in enumerate(syms):
                o[i] = x
            return o
        if form == "g":
            return (x for x in syms)
        return syms

    def push(s, a, fmt=None):
        regs.append((s, a))
        txt = _seq_tokens_safe((s, a))
        return "ok " + (fmt(s, txt) if fmt else txt)

    def do(w):
        op = w[0]
        if op == "x_selftest_crash":          # never generated: lets the crash-is-a-verdict path be exercised by hand
            import signal
            os.kill(os.getpid(), signal.SIGSEGV)
        if op == "enc":
            a = A(w[1])
            return "ok " + _ints(a.alph.encode_multiple(symform(a, _ptoks(w[2]), w[3] if len(w) > 3 else "")))
        if op == "enc1":
            a = A(w[1])
            return "ok " + str(int(a.alph.encode(a.sym(w[2]))))
        if op == "dec":
            a = A(w[1])
            return "ok " + a.show(a.alph.decode_multiple(arr(w[2], _pints(w[3]))))
        if op == "dec1":
            a = A(w[1])
            return "ok " + a.show1(a.alph.decode(_index(w[2])))
        if op == "newalph":
            return "ok " + str(len(_A(w[1]).alph))
        if op == "map":
            a, b = A(w[1]), A(w[2])
            if ("map", w[1], w[2]) not in cache:
                cache[("map", w[1], w[2])] = seq.AlphabetMapper(a.alph, b.alph)
            m = cache[("map", w[1], w[2])]
            dt = w[4] if len(w) > 4 else "u64"
            if dt == "scalar":          # one code after the other, as Python ints / numpy scalars
                vals = _pints(w[3])
                return "ok " + _ints(int(m[v if i % 2 else np.int64(v)]) for i, v in enumerate(vals))
            return "ok " + _ints(m[arr(dt, _pints(w[3]))])
        if op == "extends":
            a, b = A(w[1]), A(w[2])
            return "ok " + ("true" if a.alph.extends(b.alph) else "false")
        if op == "s_new":
            a = A(w[1], fresh=len(regs) % 2 == 1)       # alternately the cached object and an equal, not identical one
            if len(w) > 3:
                return push(seq.GeneralSequence(a.alph, symform(a, _ptoks(w[2]), w[3])), a)
            return push(seq.GeneralSequence(a.alph, a.syms(_ptoks(w[2]))), a)
        if op == "s_nuc":
            s = seq.NucleotideSequence(bytes(int(t) for t in _ptoks(w[1])).decode("latin-1"))
            return push(s, _NucA(s.get_alphabet()), lambda s, txt: f"{len(s.get_alphabet())} {txt}")
        if op == "s_nuc2":
            txt = bytes(int(t) for t in _ptoks(w[2])).decode("latin-1")
            s = seq.NucleotideSequence(txt if len(regs) % 2 == 0 else list(txt), ambiguous=(w[1] == "T"))
            return push(s, _NucA(s.get_alphabet()), lambda s, txt: f"{len(s.get_alphabet())} {txt}")
        if op == "s_prot3":
            items = [("" if t == "." else bytes(int(x) for x in t.split(".")).decode("latin-1")) for t in _ptoks(w[1])]
            s = seq.ProteinSequence(items if len(regs) % 2 == 0 else tuple(items))
            return push(s, _NucA(s.get_alphabet()))
        if op == "common":
            r = seq.common_alphabet([A(x).alph for x in w[1:]])
            if r is None:
                return "ok none"
            for x in w[1:]:
                if A(x).alph is r:
                    return "ok " + _toks(A(x).toks)
            return "ok not-one-of-the-inputs"
        if op == "ainfo":
            a = A(w[1])
            al = a.alph
            sym = a.sym(w[2]) if not a.letter else chr(int(w[2]))
            its = a.show(list(al))
            if its != a.show(al.get_symbols()):
                return "ok iter-differs-from-get_symbols"
            return f"ok {len(al)} {'true' if sym in al else 'false'} {'true' if al.is_letter_alphabet() else 'false'} {its}"
        if op == "s_prot":
            s = seq.ProteinSequence(bytes(int(t) for t in _ptoks(w[1])).decode("latin-1"))
            return push(s, _NucA(s.get_alphabet()))
        if op in ("s_str", "s_code", "s_valid", "s_get", "s_set", "s_slice", "s_setslice", "s_rev", "s_copy", "s_compl", "s_setcode", "s_setarr", "s_pickle", "s_deepcopy",
                  "s_setsymbols", "s_info", "s_revv", "s_rmstops", "s_pos", "s_fancy", "s_mask", "s_slicestep"):
            i = int(w[1])
            if i >= len(regs):
                return "ERR:noreg"
            s, a = regs[i]
            if op == "s_str":
                return "ok " + _seq_tokens((s, a))
            if op == "s_code":
                return "ok " + _ints(s.code)
            if op == "s_valid":
                return "ok " + ("true" if s.is_valid() else "false")
            if op == "s_get":
                return "ok " + a.show1(s[_index(w[2])])
            if op == "s_set":
                def f():
                    s[_index(w[2])] = a.sym(w[3])
                guarded(s, f)
                return "ok " + _seq_tokens_safe((s, a))
            if op == "s_slice":
                lo = None if w[2] == "-" else int(w[2])
                hi = None if w[3] == "-" else int(w[3])
                return push(s[lo:hi], a)
            if op == "s_setslice":
                lo = None if w[2] == "-" else int(w[2])
                hi = None if w[3] == "-" else int(w[3])
                def f():
                    s[lo:hi] = a.syms(_ptoks(w[4]))
                guarded(s, f)
                return "ok " + _seq_tokens_safe((s, a))
            if op == "s_fancy":
                idx = _pints(w[2])
                return "ok " + _seq_tokens((s[np.array(idx, dtype=np.int64)] if w[3] == "a" else s[list(idx)], a))
            if op == "s_mask":
                return "ok " + _seq_tokens((s[np.array([c == "1" for c in (w[2] if w[2] != "_" else "")], dtype=bool)], a))
            if op == "s_slicestep":
                lo, hi, st = (None if x == "-" else int(x) for x in w[2:5])
                return "ok " + _seq_tokens((s[lo:hi:st], a))
            if op == "s_rev":
                return push(s.reverse(), a)
            if op == "s_pickle":
                import pickle
                return push(pickle.loads(pickle.dumps(s)), a)
            if op == "s_deepcopy":
                import copy
                return push(copy.deepcopy(s), a)
            if op == "s_copy":
                return push(s.copy(), a)
            if op == "s_compl":
                return push(s.complement(), a)
            if op == "s_setarr":
                lo = None if w[2] == "-" else int(w[2])
                hi = None if w[3] == "-" else int(w[3])
                def f():
                    s[lo:hi] = arr(w[4], _pints(w[5]))
                guarded(s, f)
                return "ok " + _seq_tokens_safe((s, a))
            if op == "s_setcode":
                def f():
                    s.code = arr(w[2], _pints(w[3]))
                guarded(s, f)
                return "ok " + _seq_tokens_safe((s, a))
            if op == "s_setsymbols":
                def f():
                    s.symbols = a.syms(_ptoks(w[2]))
                guarded(s, f)
                return "ok " + _seq_tokens_safe((s, a))
            if op == "s_info":
                n = len(s)
                it = list(s)
                fr = s.get_symbol_frequency()
                if list(fr.keys()) != list(s.get_alphabet().get_symbols()) or s.alphabet is not s.get_alphabet():
                    return "ok frequency-keys-differ"
                return f"ok {n} {a.show(it)} {_ints(fr.values())}"
            if op == "s_revv":
                return push(s.reverse(copy=False), a)
            if op == "s_rmstops":
                return push(s.remove_stops(), a)
            if op == "s_pos":
                ps = seq.PositionalSequence(s)
                rec = ps.reconstruct()
                if list(ps.code) != list(range(len(s))) or len(ps.get_alphabet()) != len(s):
                    return "ok positional-code-wrong"
                return f"ok {len(ps)} {a.show(rec.symbols)}"
        if op in ("s_setseq", "s_setseqm"):
            i, j = int(w[1]), int(w[-1])
            if i >= len(regs) or j >= len(regs):
                return "ERR:noreg"
            (s1, a1), (s2, a2) = regs[i], regs[j]
            if op == "s_setseq":
                lo = None if w[2] == "-" else int(w[2])
                hi = None if w[3] == "-" else int(w[3])
                index = slice(lo, hi)
            else:
                index = np.array([c == "1" for c in (w[2] if w[2] != "_" else "")], dtype=bool)

            def f():
                s1[index] = s2
            guarded(s1, f, others=() if s1 is s2 else (s2,))
            return "ok " + _seq_tokens_safe((s1, a1))
        if op in ("s_add", "s_eq", "s_astype"):
            i, j = int(w[1]), int(w[2])
            if i >= len(regs) or j >= len(regs):
                return "ERR:noreg"
            (s1, a1), (s2, a2) = regs[i], regs[j]
            if op == "s_astype":
                guarded(s2, lambda: s1.as_type(s2), others=(s1,))
                return "ok " + _seq_tokens_safe((s2, a2))
            if op == "s_eq":
                return "ok " + ("true" if s1 == s2 else "false")
            r = s1 + s2
            ar = a1 if len(a1.alph) >= len(a2.alph) else a2
            kind = 1 if isinstance(r, seq.NucleotideSequence) else 2 if isinstance(r, seq.ProteinSequence) else 0
            return push(r, ar, lambda s, txt: f"{kind} {len(s.get_alphabet())} {txt}")
        if op == "k_fuse":
            ka = KA(int(w[1]), RA(int(w[1])), int(w[2]))
            return "ok " + str(int(ka.fuse(arr(w[3], _pints(w[4])))))
        if op == "k_fuse2":
            ka = KA(int(w[1]), RA(int(w[1])), int(w[2]))
            rows = [[int(x) for x in r.split(".")] for r in w[4].split(";")]
            return "ok " + _ints(ka.fuse(np.array(rows, dtype=NPDT[w[3].partition("@")[0]])))
        if op == "k_split":
            ka = KA(int(w[1]), RA(int(w[1])), int(w[2]))
            return "ok " + _ints(ka.split(_index(w[3])))
        if op == "k_splitv":
            ka = KA(int(w[1]), RA(int(w[1])), int(w[2]))
            r = ka.split(np.array(_pints(w[3]), dtype=np.int64))
            return "ok " + ";".join(".".join(str(int(x)) for x in row) for row in r)
        if op == "k_info":
            sp = None if w[3] == "-" else w[3][1:] if w[3][0] == "m" else _pints(w[3])
            ka = KA(int(w[1]), RA(int(w[1])), int(w[2]), sp)
            spc = ka.spacing
            if ka.base_alphabet is not RA(int(w[1])):
                return "ok base-alphabet-differs"
            return f"ok {len(ka)} {ka.k} {'-' if spc is None else _ints(spc)} {int(ka.kmer_array_length(int(w[4])))}"
        if op == "k_kmers":
            sp = None if w[3] == "-" else w[3][1:] if w[3][0] == "m" else _pints(w[3])
            ka = KA(int(w[1]), RA(int(w[1])), int(w[2]), sp)
            return "ok " + _ints(ka.create_kmers(arr(w[4], _pints(w[5]))))
        if op == "k_enc":
            a = A(w[1])
            ka = KA(w[1], a.alph, int(w[2]))
            return "ok " + str(int(ka.encode(a.syms(_ptoks(w[3])))))
        if op == "k_dec":
            a = A(w[1])
            ka = KA(w[1], a.alph, int(w[2]))
            return "ok " + a.show(ka.decode(int(w[3])))
        if op == "c_tbl":
            aa = "" if w[1] == "_" else w[1]
            d = {RADIX_CODONS[i]: aa[i] for i in range(len(aa))}
            starts = [] if w[2] == "_" else w[2].split(",")
            table[0] = None
            t = seq.CodonTable(d, starts)
            table[0] = t
            return "ok " + _show_table(t)
        if op == "c_load":
            table[0] = None
            t = seq.CodonTable.load(int(w[1]))
            table[0] = t
            return "ok " + _show_table(t)
        if op == "c_loadname":
            table[0] = None
            t = seq.CodonTable.load(w[1].replace("~", " "))
            table[0] = t
            return "ok " + _show_table(t)
        if op == "c_default":
            table[0] = seq.CodonTable.default_table()
            return "ok " + _show_table(table[0])
        if op in ("c_show", "c_show2"):
            t = table[0] if op == "c_show" else table2[0]
            return "ERR:notable" if t is None else "ok " + _show_table(t)
        if op in ("c_derive_map", "c_derive_starts"):
            if table[0] is None:
                return "ERR:notable"
            table2[0] = None
            if op == "c_derive_map":
                t = table[0].with_codon_mappings(dict(it.split("=") for it in _ptoks(w[1])))
            else:
                t = table[0].with_start_codons(_ptoks(w[1]))
            table2[0] = t
            return "ok " + _show_table(t)
        if op in ("c_tr", "c_tr2"):
            tab = table if op == "c_tr" else table2
            if tab[0] is None:
                return "ERR:notable"
            dna = "" if w[3] == "_" else w[3]
            s = seq.NucleotideSequence(dna)
            if w[1] == "1":
                p = s.translate(complete=True, codon_table=tab[0])
                return "ok " + (str(p) or "_")
            prots, pos = s.translate(complete=False, codon_table=tab[0], met_start=(w[2] == "1"))
            return "ok " + (";".join(f"{p}@{int(a)}-{int(b)}" for p, (a, b) in zip(prots, pos)) or "_")
        if op == "c_codes":
            if table[0] is None:
                return "ERR:notable"
            rows = [[int(x) for x in r.split(".")] for r in w[2].split(";")]
            t = table[0]
            if w[1] == "tuple":
                return "ok " + _ints(int(t[tuple(r)]) for r in rows)
            if w[1] == "list":
                return "ok " + _ints(int(t[list(r)]) for r in rows)
            dt = {"map": np.int64, "map32": np.int32, "map8": np.int8, "start": np.int64}[w[1]]
            if w[1] == "start":
                return "ok " + _ints(int(x) for x in t.is_start_codon(np.array(rows, dtype=dt)))
            return "ok " + _ints(t.map_codon_codes(np.array(rows, dtype=dt)))
        if op == "c_orfmut":      # the proteins returned for several ORFs are independent objects
            if table[0] is None:
                return "ERR:notable"
            dna = seq.NucleotideSequence(w[1])
            prots, pos = dna.translate(codon_table=table[0], met_start=(w[2] == "1"))
            k, at = int(w[3]), int(w[4])
            before = [str(p) for p in prots]
            if k < len(prots) and at < len(prots[k]):
                prots[k][at] = w[5]
            return "ok " + (";".join(before) or "_") + " -> " + (";".join(str(p) for p in prots) or "_")
        if op == "c_trreg":
            if table[0] is None:
                return "ERR:notable"
            i = int(w[1])
            if i >= len(regs):
                return "ERR:noreg"
            s, _a = regs[i]
            if w[2] == "1":
                return "ok " + (str(s.translate(complete=True, codon_table=table[0])) or "_")
            prots, pos = s.translate(complete=False, codon_table=table[0], met_start=(w[3] == "1"))
            return "ok " + (";".join(f"{p}@{int(a)}-{int(b)}" for p, (a, b) in zip(prots, pos)) or "_")
        if op == "rt":          # round trip decode(encode(symbols)) — also for alphabets with duplicate symbols
            a = A(w[1])
            return "ok " + a.show(a.alph.decode_multiple(a.alph.encode_multiple(symform(a, _ptoks(w[2]), ""))))
        if op == "c_tr0":
            dna = "" if w[3] == "_" else w[3]
            s = seq.NucleotideSequence(dna)
            if w[1] == "1":
                return "ok " + (str(s.translate(complete=True)) or "_")
            prots, pos = s.translate(met_start=(w[2] == "1"))
            return "ok " + (";".join(f"{p}@{int(a)}-{int(b)}" for p, (a, b) in zip(prots, pos)) or "_")
        if op == "c_names":
            return "ok " + ";".join(n.replace(" ", "~") for n in seq.CodonTable.table_names())
        if op in ("c_dict", "c_eq2", "c_codons"):
            if table[0] is None or (op == "c_eq2" and table2[0] is None):
                return "ERR:notable"
            t = table[0]
            if op == "c_eq2":
                eq = t == table2[0]
                if (t != table2[0]) == eq:
                    return "ok eq-and-ne-agree"
                return "ok " + ("true" if eq else "false")
            if op == "c_codons":
                codons = t[w[1]]
                code = seq.ProteinSequence.alphabet.encode(w[1])
                nuc = seq.NucleotideSequence.alphabet_unamb
                by_code = ["".join(nuc.decode_multiple(np.array(c))) for c in t[code]]
                if list(codons) != by_code:
                    return "ok lookup-by-symbol-and-by-code-differ"
                return "ok " + _toks(codons)
            d = t.codon_dict()
            dc = t.codon_dict(code=True)
            nuc = seq.NucleotideSequence.alphabet_unamb
            prot = seq.ProteinSequence.alphabet
            for codon, aa in d.items():
                cc = tuple(int(x) for x in nuc.encode_multiple(codon))
                if prot.decode(dc[cc]) != aa or int(t[cc]) != dc[cc] or \
                        bool(t.is_start_codon(np.array(cc))) != (codon in t.start_codons()) or \
                        int(t.map_codon_codes(np.array([cc]))[0]) != dc[cc]:
                    return "ok codon_dict-views-differ"
            aa = "".join(d[c] for c in RADIX_CODONS)
            starts = [16 * nuc.encode(c[0]) + 4 * nuc.encode(c[1]) + nuc.encode(c[2]) for c in t.start_codons()]
            return "ok " + aa + " " + _ints(starts)
        if op == "c_get":
            if table[0] is None:
                return "ERR:notable"
            return "ok " + table[0][w[1]]
        return "bad-op"

    for line in case["ops"]:
        w = line.split()
        try:
            out.append(do(w))
        except Exception as e:  # noqa: BLE001
            out.append(_err(e))
    return out


# ---------------------------------------------------------------- generator
GEN_TOKENS = ["i0", "i1", "i-3", "i7", "sA", "sa", "sAB", "s0", "b0", "bA", "t1.2", "t2.1", "t0", "N", "sN", "i255", "i256", "sx"]


def _letter_alph(rng, small=False):
    n = rng.choice([1, 2, 3, 4, 4, 5, 8, 15, 24]) if small or rng.random() < 0.7 else rng.choice([33, 64, 93, 94])
    return rng.sample(PRINTABLE, n)


def _alph_spec(rng, small=False):
    if rng.random() < 0.65:
        return "L:" + _ints(_letter_alph(rng, small))
    n = rng.randint(1, 8)
    return "G:" + _toks(rng.sample(GEN_TOKENS, n))


def _spec_syms(spec):
    return _ptoks(spec[2:])


def _rand_syms(rng, spec, n, p_bad=0.0):
    al = _spec_syms(spec)
    out = []
    for _ in range(n):
        if rng.random() < p_bad:
            if spec.startswith("L:"):
                out.append(str(rng.choice([0, 10, 32, 127, 128, 200, 255] + PRINTABLE)))
            else:
                out.append(rng.choice(GEN_TOKENS))
        else:
            out.append(rng.choice(al))
    return out


def _rand_codes(rng, n_alph, n, dt, p_bad=0.0):
    lo, hi = (-2**63, 2**63 - 1) if dt == "list" else DT_RANGE[dt]
    bad_pool = [n_alph, n_alph + 1, 255, 256, 256 + rng.randrange(n_alph), 257, 511, 512, 65535, 65536, 2**32,
                2**32 + rng.randrange(n_alph), -1, -256, -256 + rng.randrange(n_alph), -n_alph, 127, 128, hi, lo]
    bad_pool = [b for b in bad_pool if lo <= b <= hi and not (0 <= b < n_alph)]
    out = []
    for _ in range(n):
        if bad_pool and rng.random() < p_bad:
            out.append(rng.choice(bad_pool))
        else:
            out.append(rng.randrange(n_alph))
    return out


def _multi_letter(rng, al):
    """a str/bytes that is NOT a single letter: two or more letters whose first (or every) letter is in the alphabet, or empty"""
    r = rng.random()
    if r < 0.12:
        body = "."
    else:
        n = rng.choice([2, 2, 3, 3, 5])
        first = rng.choice(al)
        rest = [rng.choice(al) if rng.random() < 0.7 else str(rng.choice(PRINTABLE)) for _ in range(n - 1)]
        if r > 0.9:
            first = str(rng.choice(PRINTABLE))
        body = ".".join([first] + rest)
    return body + ("s" if rng.random() < 0.5 and all(int(x) < 128 for x in body.split(".") if x) else "")


def _case_alphabet(rng):
    spec = _alph_spec(rng)
    al = _spec_syms(spec)
    ops = []
    for _ in range(rng.randint(3, 7)):
        r = rng.random()
        n = rng.choice([0, 1, 2, 3, 5, 9])
        if r < 0.3:
            ops.append(f"enc {spec} {_toks(_rand_syms(rng, spec, n, rng.choice([0, 0, 0.25])))}")
        elif r < 0.4:
            if spec.startswith("L:") and rng.random() < 0.35:
                ops.append(f"enc1 {spec} {_multi_letter(rng, al)}")
            else:
                ops.append(f"enc1 {spec} {_rand_syms(rng, spec, 1, 0.3)[0]}")
        elif r < 0.8:
            dt = rng.choice(["u8", "u8", "i64", "i64", "u16", "i16", "i32", "u32", "u64", "i8", "list"])
            if spec.startswith("G:") and rng.random() < 0.5:
                dt = "list"
            ops.append(f"dec {spec} {_spell(rng, dt)} {_ints(_rand_codes(rng, len(al), n, dt, rng.choice([0, 0, 0.3])))}")
        else:
            ops.append(f"dec1 {spec} {_rand_codes(rng, len(al), 1, 'i64', 0.4)[0]}")
    return {"kind": "alphabet", "ops": ops}


def _case_bytes(rng):
    """every byte value against one small letter alphabet (exhaustive over symbols / uint8 codes)"""
    al = _letter_alph(rng, small=True)
    spec = "L:" + _ints(al)
    lo = rng.randrange(0, 256, 32)
    return {"kind": "bytes", "ops": [f"enc1 {spec} {b}" for b in range(lo, lo + 32)] +
            [f"dec {spec} u8 {c}" for c in range(lo, lo + 32)] +
            [f"dec {spec} u16 {c + 256 * rng.randint(1, 3)}" for c in range(lo, lo + 32, 5)]}


def _case_newalph(rng):
    ops = []
    for _ in range(4):
        r = rng.random()
        if r < 0.4:
            ops.append("newalph L:" + _ints(_letter_alph(rng)))
        elif r < 0.7:
            al = _letter_alph(rng, small=True)
            al[rng.randrange(len(al))] = rng.choice([0, 9, 10, 32, 127, 128, 255])
            ops.append("newalph L:" + _ints(al))
        elif r < 0.8:
            ops.append("newalph " + rng.choice(["L:_", "G:_"]))
        else:
            ops.append("newalph G:" + _toks(rng.sample(GEN_TOKENS, rng.randint(1, 6))))
    return {"kind": "newalph", "ops": ops}


def _case_mapper(rng):
    letter = rng.random() < 0.6
    if letter:
        tgt = _letter_alph(rng, small=True)
        tgt = tgt + rng.sample([p for p in PRINTABLE if p not in tgt], rng.randint(0, 4))
        mk = lambda xs: "L:" + _ints(xs)   # noqa: E731
    else:
        tgt = rng.sample(GEN_TOKENS, rng.randint(1, 9))
        mk = lambda xs: "G:" + _toks(xs)   # noqa: E731
    r = rng.random()
    if r < 0.3:
        src = tgt[:rng.randint(1, len(tgt))]                      # prefix: no mapping necessary
    elif r < 0.85:
        src = rng.sample(tgt, rng.randint(1, len(tgt)))            # subset in another order
    else:
        pool = PRINTABLE if letter else GEN_TOKENS
        src = rng.sample(pool, rng.randint(1, min(6, len(pool))))  # may contain symbols the target lacks
    ops = [f"extends {mk(tgt)} {mk(src)}"]
    for _ in range(rng.randint(1, 3)):
        codes = [rng.randrange(len(src)) for _ in range(rng.choice([0, 1, 3, 7]))]
        if rng.random() < 0.12:
            codes.append(len(src) + rng.randint(0, 3))
        ops.append(f"map {mk(src)} {mk(tgt)} {_ints(codes)}")
    return {"kind": "mapper", "ops": ops}


def _case_sequence(rng):
    """stateful script on sequence registers"""
    ops = []
    regs = []   # (spec, length)  -- generator-side bookkeeping only (lengths approximate)
    mode = rng.choice(["gen", "gen", "nuc", "prot"])
    spec = _alph_spec(rng, small=True)

    frozen = set()      # registers that share their code array with another one (slices are numpy views)

    def new():
        n = rng.choice([0, 1, 2, 4, 6, 9])
        if mode == "nuc":
            pool = rng.choice(["ACGT", "ACGT", "acgt", "ACGTRYWSMKHBVDN", "ACGTNnryk", "ACGU"])
            txt = [rng.choice(pool) for _ in range(n)]
            ops.append("s_nuc " + _ints(ord(c) for c in txt))
            if all(c.upper() in "ACGTRYWSMKHBVDN" for c in txt):
                regs.append((None, n))
        elif mode == "prot":
            pool = rng.choice(["ACDEFGHIKLMNPQRSTVWYBZX*", "acdefghik", "ACDEFJO"])
            txt = [rng.choice(pool) for _ in range(n)]
            ops.append("s_prot " + _ints(ord(c) for c in txt))
            if all(c.upper() in AA for c in txt):
                regs.append((None, n))
        else:
            sp = spec
            if rng.random() < 0.25 and regs:      # an extension of the alphabet, for `+`
                al = _spec_syms(spec)
                extra = [t for t in ([str(p) for p in PRINTABLE] if spec.startswith("L:") else GEN_TOKENS) if t not in al]
                sp = spec[:2] + _toks(al + rng.sample(extra, rng.randint(1, 3)))
            syms = _rand_syms(rng, sp, n, rng.choice([0, 0, 0, 0.15]))
            ops.append(f"s_new {sp} {_toks(syms)}")
            if all(t in _spec_syms(sp) for t in syms):
                regs.append((sp, n))

    def typed(v):
        """index as a Python int or as a numpy integer scalar of some dtype that can hold it"""
        if rng.random() < 0.45:
            return str(v)
        dts = [d for d in ("i64", "i32", "i8", "ip", "u8", "u64", "i16", "u32") if d == "ip" or DT_RANGE[d][0] <= v <= DT_RANGE[d][1]]
        return f"{v}:{rng.choice(dts)}"

    new()
    for _ in range(rng.randint(4, 10)):
        if not regs:
            new()
            continue
        i = rng.randrange(len(regs))
        sp, n = regs[i]
        if mode == "nuc":
            symtoks = [str(ord(c)) for c in "ACGTN"]
        elif mode == "prot":
            symtoks = [str(ord(c)) for c in "ACDW*X"]
        else:
            symtoks = _spec_syms(sp)
        bad = (["33", "97"] if (mode != "gen" or sp.startswith("L:")) else ["sZZ"])
        bad1 = list(bad)      # for single-symbol assignment only: also strings that are not a single letter
        if mode != "gen" or sp.startswith("L:"):
            bad1 += [_multi_letter(rng, symtoks), _multi_letter(rng, symtoks), _multi_letter(rng, symtoks)]
            if mode == "prot":
                bad1.append(rng.choice(["65.76.65s", "71.76.89s", "77.69.84"]))      # 3-letter names are not symbols here
        pick = lambda p_bad=0.1: rng.choice(bad) if rng.random() < p_bad else rng.choice(symtoks)   # noqa: E731
        pick1 = lambda p_bad=0.2: rng.choice(bad1) if rng.random() < p_bad else rng.choice(symtoks)   # noqa: E731
        r = rng.random()
        if r < 0.10:
            new()
        elif r < 0.20:
            ops.append(f"s_str {i}")
        elif r < 0.30:
            ops.append(f"s_get {i} {typed(rng.randint(-n - 2, n + 1))}")
        elif r < 0.42:
            if i in frozen:
                continue
            ops.append(f"s_set {i} {typed(rng.randint(-n - 1, n))} {pick1()}")
        elif r < 0.52:
            a = rng.choice(["-", str(rng.randint(-n - 2, n + 2))])
            b = rng.choice(["-", str(rng.randint(-n - 2, n + 2))])
            ops.append(f"s_slice {i} {a} {b}")
            regs.append((sp, n))
            frozen.update([i, len(regs) - 1])
        elif r < 0.62:
            if i in frozen:
                continue
            a = rng.randint(0, n)
            b = rng.randint(a, n)
            m = rng.choice([b - a, b - a, b - a, 1, b - a + 1, 0])
            ops.append(f"s_setslice {i} {a} {b} {_toks(pick(0.05) for _ in range(m))}")
        elif r < 0.72:
            j = rng.randrange(len(regs))
            ops.append(f"s_add {i} {j}")
            regs.append((sp if len(_spec_syms(sp or '')) >= len(_spec_syms(regs[j][0] or '')) else regs[j][0], n + regs[j][1]))
        elif r < 0.78:
            ops.append(f"s_rev {i}")
            regs.append((sp, n))
        elif r < 0.84:
            ops.append(f"s_eq {i} {rng.randrange(len(regs))}")
        elif r < 0.90:
            ops.append(f"s_copy {i}")
            regs.append((sp, n))
            if i not in frozen:
                ops.append(f"s_set {i} 0 {pick(0)}")          # mutate the original, then look at the copy
                ops.append(f"s_str {len(regs) - 1}")
        elif r < 0.95 and mode == "nuc":
            ops.append(f"s_compl {i}")
            regs.append((sp, n))
        else:
            n_alph = 4 if mode == "nuc" else 24 if mode == "prot" else len(symtoks)
            dt = rng.choice(["u8", "i64", "i64", "u16", "i32", "u64", "i8", "i16"])
            m = rng.choice([0, 1, 3, 5])
            if rng.random() < 0.4 and i not in frozen:
                a = rng.randint(0, n)
                b = rng.randint(a, n)
                ops.append(f"s_setarr {i} {a} {b} {dt} {_ints(_rand_codes(rng, n_alph, rng.choice([b - a, b - a, 1]), dt, rng.choice([0, 0.3])))}")
                ops.append(f"s_str {i}")
                continue
            ops.append(f"s_setcode {i} {dt} {_ints(_rand_codes(rng, n_alph, m, dt, rng.choice([0, 0.3])))}")
            ops.append(f"s_str {i}")
            ops.append(f"s_valid {i}")
            regs[i] = (sp, m)
    # the failed ops do not create registers on either side; later indices may then be out of range -> ERR:noreg on both sides
    return {"kind": "sequence-" + mode, "ops": ops}


def _case_add(rng):
    """`+` between sequences whose alphabets extend each other (both orders) or are incompatible"""
    small = _alph_spec(rng, small=True)
    al = _spec_syms(small)
    pool = [str(p) for p in PRINTABLE] if small.startswith("L:") else GEN_TOKENS
    extra = rng.sample([t for t in pool if t not in al], rng.randint(1, 3))
    big = small[:2] + _toks(al + extra)
    other = small[:2] + _toks(extra + al)
    ops = [f"s_new {small} {_toks(_rand_syms(rng, small, rng.randint(0, 5)))}",
           f"s_new {big} {_toks(_rand_syms(rng, big, rng.randint(1, 5)))}",
           f"s_new {other} {_toks(_rand_syms(rng, other, rng.randint(0, 3)))}"]
    pairs = [(0, 1), (1, 0), (0, 0), (1, 1), (0, 2), (2, 1)]
    rng.shuffle(pairs)
    k = 3
    for i, j in pairs[:4]:
        ops.append(f"s_add {i} {j}")
        if (i, j) in ((0, 1), (1, 0), (0, 0), (1, 1)):
            ops += [f"s_str {k}", f"s_eq {k} {i}"]
            k += 1
    return {"kind": "sequence-add", "ops": ops}


def _coprime(rng, n):
    import math
    while True:
        a = rng.randrange(1, max(n, 2))
        if math.gcd(a, n) == 1:
            return a


def _case_mapper_big(rng):
    """AlphabetMapper across the dtype size classes of the lookup table (target codes > 255, > 65535)"""
    n = rng.choice([257, 258, 300, 300, 1000, 4096, 65537, 70000])
    m_max = 300 if n <= 4096 else 40
    tgt = f"R:{n}:{n}:{_coprime(rng, n)}:{rng.randrange(n)}"
    ops = []
    for _ in range(rng.randint(1, 2)):
        m = rng.choice([1, 2, 5, 17, 100, 255, 256, 257, 300])
        m = min(m, m_max)
        r = rng.random()
        if r < 0.7:        # a subset of the target in another order: mapping necessary, codes up to n-1
            src = f"R:{m}:{n}:{_coprime(rng, n)}:{rng.randrange(n)}"
        elif r < 0.85:     # a prefix of the target: no mapping necessary
            _, _, a, b = tgt[2:].split(":")
            src = f"R:{m}:{n}:{a}:{b}"
        else:              # the rejecting direction: a big source into a small target that lacks symbols
            src = f"R:{rng.choice([257, 300])}:300:1:0"
            t = rng.randint(3, 200)
            ops.append(f"map {src} R:{t}:{t}:{_coprime(rng, t)}:0 0,1,2")
            continue
        cnt = int(src.split(":")[1])
        codes = [rng.randrange(cnt) for _ in range(rng.choice([1, 4, 9]))] + [cnt - 1, 0]
        ops.append(f"map {src} {tgt} {_ints(codes)}")
        if rng.random() < 0.3:
            ops.append(f"extends {tgt} {src}")
    return {"kind": "mapper-big", "ops": ops}


def _case_kmer_illegal(rng):
    """create_kmers with exactly one illegal code (== len, len+1, huge) at every position"""
    n = rng.choice([1, 2, 4, 4, 5, 24, 200])
    k = rng.randint(2, 4)
    dt = rng.choice([d for d in ("u8", "u16", "u32", "u64") if n + 1 <= DT_RANGE[d][1]])
    if rng.random() < 0.6:
        sp, span = "-", k
    else:
        span = k + rng.randint(1, 3)
        pos = sorted(rng.sample(range(span), k))
        pos[-1] = span - 1
        pos = sorted(set(pos))
        while len(pos) < k:
            pos = sorted(set(pos + [rng.randrange(span)]))
        sp = _ints(pos)
    L = span + rng.randint(1, 4)
    base = [rng.randrange(n) for _ in range(L)]
    ops = [f"k_kmers {n} {k} {sp} {dt} {_ints(base)}"]
    for p in range(L):
        for bad in (n, rng.choice([n + 1, DT_RANGE[dt][1] if dt != "u64" else 2 ** 40])):
            codes = list(base)
            codes[p] = bad
            ops.append(f"k_kmers {n} {k} {sp} {dt} {_ints(codes)}")
    return {"kind": "kmer-illegal", "ops": ops}


def _case_pickle(rng):
    """a sequence that went through pickle / deepcopy (equal but not identical alphabet object), then the usual ops"""
    mode = rng.choice(["nuc-amb", "nuc-amb", "nuc", "prot", "gen", "gen"])
    n = rng.choice([1, 2, 4, 7])
    if mode.startswith("nuc"):
        pool = "ACGTRYWSMKHBVDN" if mode == "nuc-amb" else "ACGT"
        txt = [rng.choice(pool) for _ in range(n)] + (["N"] if mode == "nuc-amb" else [])
        ops = ["s_nuc " + _ints(ord(c) for c in txt)]
        sym = str(ord(rng.choice(pool)))
    elif mode == "prot":
        ops = ["s_prot " + _ints(ord(rng.choice(AA)) for _ in range(n))]
        sym = str(ord(rng.choice(AA)))
    else:
        spec = _alph_spec(rng, small=True)
        ops = [f"s_new {spec} {_toks(_rand_syms(rng, spec, n))}"]
        sym = rng.choice(_spec_syms(spec))
    ops.append(rng.choice(["s_pickle 0", "s_deepcopy 0"]))          # register 1
    ops += ["s_str 1", "s_eq 1 0", "s_eq 0 1"]
    k = 2
    follow = ["s_copy 1", "s_slice 1 - -", "s_rev 1", "s_add 1 0", "s_add 0 1", "s_add 1 1", "s_slice 1 1 -"]
    if mode.startswith("nuc"):
        follow += ["s_compl 1", "s_compl 1"]
    rng.shuffle(follow)
    for f in follow[:5]:
        ops += [f, f"s_str {k}", f"s_code {k}", f"s_valid {k}"]
        if f == "s_copy 1":
            ops += [f"s_eq {k} 0", f"s_eq 0 {k}", f"s_set {k} 0 {sym}", "s_str 1"]
        if f == "s_rev 1":
            ops += [f"s_rev {k}", f"s_eq {k + 1} 0"]
            k += 1
        k += 1
    if rng.random() < 0.5:
        ops += [rng.choice([f"s_pickle {k - 1}", f"s_deepcopy {k - 1}"]), f"s_str {k}", f"s_copy {k}", f"s_str {k + 1}"]
    return {"kind": "sequence-pickle", "ops": ops}


def _case_setcode_full(rng):
    """code setter / ndarray assignment on alphabets that fill (or nearly fill) the code dtype, with arrays of every
    integer dtype incl. signed ones of the same or a smaller width holding negative values"""
    n = rng.choice([256, 256, 256, 255, 257, 65536, 65536, 65535, 94, 128])
    spec = f"R:{n}:{n}:{_coprime(rng, n)}:{rng.randrange(n)}"
    al = _spec_toks(spec)
    ops = [f"s_new {spec} {_toks(rng.choice(al) for _ in range(4))}"]
    bits = 8 if n <= 256 else 16
    for _ in range(rng.randint(3, 6)):
        dt = rng.choice(["i8", "i8", "i16", "i16", "u8", "u16", "i32", "i64", "u32", "u64"])
        lo, hi = DT_RANGE[dt]
        pool = [-1, -2, -128, -129, -256, -32768, -n, n - 1, n, n + 1, 127, 128, 255, 256, 32767, 32768, 65535, 65536, 2 ** 32, lo, hi, 0]
        pool = [v for v in pool if lo <= v <= hi]
        m = rng.choice([1, 2, 4])
        vals = [rng.choice(pool) if rng.random() < 0.5 else rng.randrange(min(n, hi + 1)) for _ in range(m)]
        if rng.random() < 0.65:
            ops += [f"s_setcode 0 {_spell(rng, dt, 'sb')} {_ints(vals)}", "s_str 0", "s_code 0", "s_valid 0"]
        else:
            ops += [f"s_setarr 0 0 {m} {_spell(rng, dt)} {_ints(vals)}", "s_str 0"]
            ops += ["s_setcode 0 u64 0,1,2,3"]          # back to a known valid state of length 4
    return {"kind": "sequence-setcode-full", "ops": ops}


def _spell(rng, dt, forms="srb"):
    """the same array in another spelling: strided view / read-only / byte-swapped.
    NOTE: `s_setcode` never gets a read-only array: the setter adopts an array that already has the code dtype
    (`astype(copy=False)`), so the sequence itself would become read-only and refuse later assignments with ValueError
    (numpy semantics; a refusal, not a wrong value) — neither the model nor the property speaks about that."""
    if dt in ("list", "tuple") or rng.random() < 0.5:
        return dt
    return dt + "@" + rng.choice(forms)


def _case_spellings(rng):
    """the same symbols / codes in other spellings (str, bytes, list, tuple, ndarray of U1/S1/object, numpy scalars, strided /
    read-only / byte-swapped arrays, list / tuple), on ONE alphabet / mapper object that is reused for all ops"""
    spec = _alph_spec(rng)
    al = _spec_syms(spec)
    letter = spec.startswith("L:")
    ops = []
    for _ in range(rng.randint(4, 8)):
        r = rng.random()
        n = rng.choice([0, 1, 2, 4, 7])
        if r < 0.35:
            syms = _rand_syms(rng, spec, n, rng.choice([0, 0, 0.2]))
            if letter and any(int(t) >= 128 for t in syms):
                form = "b"
            else:
                form = rng.choice(["b", "s", "l", "t", "aU", "aS", "aO", "n", "lb"]) if letter else rng.choice(["l", "t", "aO", "g"])
            ops.append(f"enc {spec} {_toks(syms)} {form}")
        elif r < 0.7:
            dt = rng.choice(["u8", "i64", "u16", "i16", "i32", "u32", "u64", "i8", "list", "tuple"])
            ops.append(f"dec {spec} {_spell(rng, dt)} {_ints(_rand_codes(rng, len(al), n, dt if dt not in ('tuple',) else 'list', rng.choice([0, 0, 0.3])))}")
        elif r < 0.85:
            c = _rand_codes(rng, len(al), 1, "i64", 0.3)[0]
            dts = [d for d in ("i64", "i32", "i8", "ip", "u8", "u64", "i16", "u16") if d == "ip" or DT_RANGE[d][0] <= c <= DT_RANGE[d][1]]
            ops.append(f"dec1 {spec} {c}:{rng.choice(dts)}")
        else:
            ops.append(f"ainfo {spec} {rng.choice(al) if rng.random() < 0.6 else _rand_syms(rng, spec, 1, 1.0)[0]}")
    # a mapper object reused with code arrays of every unsigned width and spelling, and with scalars
    tgt = al + ([t for t in ([str(p) for p in PRINTABLE] if letter else GEN_TOKENS) if t not in al][:2])
    src = rng.sample(tgt, rng.randint(1, len(tgt)))
    mk = (lambda xs: "L:" + _toks(xs)) if letter else (lambda xs: "G:" + _toks(xs))
    for _ in range(rng.randint(1, 3)):
        codes = [rng.randrange(len(src)) for _ in range(rng.choice([0, 1, 3, 6]))]
        dt = rng.choice(["u8", "u16", "u32", "u64", "i64", "i32", "list", "tuple", "scalar"])
        ops.append(f"map {mk(src)} {mk(tgt)} {_ints(codes)} {_spell(rng, dt, 's') if dt != 'scalar' else dt}")
    if rng.random() < 0.5:
        others = [mk(al[:rng.randint(1, len(al))]), mk(tgt), mk(al)]
        if rng.random() < 0.3:
            others.append(mk(list(reversed(tgt))))
        rng.shuffle(others)
        ops.append("common " + " ".join(others[:rng.randint(1, len(others))]))
    return {"kind": "spellings", "ops": ops}


def _case_seq_api(rng):
    """less-used Sequence entry points on reused objects; every refused call is followed by a read of the object"""
    mode = rng.choice(["nuc", "prot", "gen", "gen"])
    ops = []
    if mode == "nuc":
        txt = [rng.choice("ACGTacgtNRY" if rng.random() < 0.5 else "ACGT") for _ in range(rng.choice([0, 1, 3, 6]))]
        ops.append(f"s_nuc2 {rng.choice('TF')} {_ints(ord(c) for c in txt)}")
        ops.append(f"s_nuc2 T {_ints(ord(rng.choice('ACGTN')) for _ in range(4))}")
        symtoks, bad = [str(ord(c)) for c in "ACGT"], "33"
    elif mode == "prot":
        items = []
        for _ in range(rng.choice([1, 3, 5])):
            r = rng.random()
            if r < 0.45:
                name = rng.choice(sorted(THREE_TO_ONE))
                name = rng.choice([name, name.lower(), name.capitalize()])
            elif r < 0.85:
                name = rng.choice(AA + "acd")
            else:
                name = rng.choice(["XYZ", "AL", "ALAA", "", "J"])
            items.append(".".join(str(ord(c)) for c in name) or ".")
        ops.append("s_prot3 " + _toks(items))
        ops.append(f"s_prot {_ints(ord(rng.choice('ACD*W*')) for _ in range(5))}")
        symtoks, bad = [str(ord(c)) for c in "ACDW*"], "74"
    else:
        spec = _alph_spec(rng, small=True)
        al = _spec_syms(spec)
        ops.append(f"s_new {spec} {_toks(_rand_syms(rng, spec, rng.choice([0, 2, 5])))}")
        ext = spec[:2] + _toks(al + [t for t in ([str(p) for p in PRINTABLE] if spec.startswith('L:') else GEN_TOKENS) if t not in al][:2])
        ops.append(f"s_new {ext} {_toks(_rand_syms(rng, ext, 3))}")
        symtoks, bad = al, ("33" if spec.startswith("L:") and "33" not in al else "sZZ" if not spec.startswith("L:") else "126")
    # the first op may have been refused: registers exist only if it succeeded -> ERR:noreg on both sides otherwise
    shared = set()
    for _ in range(rng.randint(4, 8)):
        i = rng.choice([0, 0, 1])
        r = rng.random()
        if r < 0.2:
            ops.append(f"s_info {i}")
        elif r < 0.4:
            syms = [rng.choice(symtoks) for _ in range(rng.choice([0, 1, 4]))]
            if rng.random() < 0.3:
                syms.append(bad)
            ops += [f"s_setsymbols {i} {_toks(syms)}", f"s_str {i}", f"s_code {i}"]
        elif r < 0.5:
            if i in shared:      # as_type made the two sequences share ONE code array (numpy view semantics): no in-place mutation
                continue
            ops += [f"s_set {i} {rng.randint(-3, 3)} {bad if rng.random() < 0.5 else rng.choice(symtoks)}", f"s_str {i}", f"s_code {i}"]
        elif r < 0.6:
            dt = rng.choice(["i64", "i8", "u16", "u8"])
            ops += [f"s_setcode {i} {_spell(rng, dt, 'sb')} {_ints(_rand_codes(rng, len(symtoks), rng.choice([1, 3]), dt, 0.4))}", f"s_str {i}", f"s_valid {i}"]
        elif r < 0.7:
            ops.append(f"s_pos {i}")
        elif r < 0.8 and mode == "gen":
            a, b = rng.choice([(0, 1), (1, 0), (0, 0)])
            ops += [f"s_astype {a} {b}", f"s_str {b}", f"s_str {a}", f"s_eq {a} {b}"]
            shared.update([a, b])
        elif r < 0.9 and mode == "prot":
            ops += [f"s_rmstops {i}", f"s_str {i}"]
        else:
            ops += [f"s_copy {i}", f"s_info {i}"]
    return {"kind": "sequence-api", "ops": ops}


def _case_index_extra(rng):
    """fancy / boolean / stepped indexing — compared with plain Python list semantics only (not modelled)"""
    n = rng.choice([0, 1, 3, 6, 9])
    txt = [rng.choice("ACGTN") for _ in range(n)]
    ops = ["s_nuc " + _ints(ord(c) for c in txt)]
    for _ in range(6):
        r = rng.random()
        if r < 0.4:
            a, b = (rng.choice(["-", str(rng.randint(-n - 2, n + 2))]) for _ in range(2))
            ops.append(f"s_slicestep 0 {a} {b} {rng.choice([-1, -1, -2, 2, 3, -3, 1, 0])}")
        elif r < 0.7:
            ks = [rng.randint(-n, n - 1) if n else 0 for _ in range(rng.choice([0, 1, 3, 5]))]
            if rng.random() < 0.15:
                ks.append(n + rng.randint(0, 2))
            ops.append(f"s_fancy 0 {_ints(ks)} {rng.choice('al')}")
        else:
            m = n if rng.random() < 0.85 else n + 1
            ops.append("s_mask 0 " + ("".join(rng.choice("01") for _ in range(m)) or "_"))
    return {"kind": "sequence-index-extra", "check_ops": ops}


def _case_kmer_api(rng):
    """one KmerAlphabet object reused for info / 2-D fuse / array split / create_kmers of several sizes"""
    n = rng.choice([2, 3, 4, 5, 24])
    k = rng.randint(2, 4)
    ops = []
    for _ in range(rng.randint(4, 7)):
        r = rng.random()
        if r < 0.2:
            sp = "-" if rng.random() < 0.5 else _ints(rng.sample(range(k + 3), k))
            ops.append(f"k_info {n} {k} {sp} {rng.choice([0, 1, k, k + 5, 40])}")
        elif r < 0.45:
            rows = [[rng.randrange(n) for _ in range(k)] for _ in range(rng.randint(1, 4))]
            if rng.random() < 0.15:
                rows[-1][rng.randrange(k)] = n + 2
            ops.append(f"k_fuse2 {n} {k} {rng.choice(['i64', 'u8', 'i32'])} " + ";".join(".".join(str(c) for c in r) for r in rows))
        elif r < 0.65:
            cs = [rng.randrange(n ** k) for _ in range(rng.randint(1, 4))]
            if rng.random() < 0.2:
                cs.append(rng.choice([n ** k, -1]))
            ops.append(f"k_splitv {n} {k} {_ints(cs)}")
        elif r < 0.8:
            c = rng.randrange(n ** k)
            ops.append(f"k_split {n} {k} {c}:{rng.choice(['i64', 'i32', 'u64', 'ip'])}")
        else:
            L = rng.choice([k, k + 1, k + 6, 2 * k + 9])
            dt = rng.choice(["u8", "u16", "u32", "u64"])
            ops.append(f"k_kmers {n} {k} - {_spell(rng, dt, 's')} {_ints(rng.randrange(n) for _ in range(L))}")      # Cython memoryviews refuse read-only / byte-swapped buffers
            ops.append(f"k_fuse {n} {k} {_spell(rng, rng.choice(['i64', 'u8', 'i32']))} {_ints(rng.randrange(n) for _ in range(k))}")
    return {"kind": "kmer-api", "ops": ops}


def _case_codon_api(rng):
    """less-used CodonTable entry points and the implicit default table, interleaved with derived tables"""
    ops = [rng.choice(["c_default", f"c_load {rng.choice(TABLE_IDS)}", f"c_load {rng.choice(TABLE_IDS)}"]), "c_dict"]
    for _ in range(rng.randint(3, 6)):
        r = rng.random()
        if r < 0.25:
            ops.append(f"c_codons {rng.choice(AA + 'Ja')}")
        elif r < 0.45:
            dna = _rand_dna(rng, rng.choice([0, 6, 12, 21]), ["ATG"])
            ops.append(f"c_tr0 {rng.choice([0, 1])} {rng.choice([0, 1])} {dna or '_'}")
        elif r < 0.7:
            if rng.random() < 0.5:
                ops.append("c_derive_map " + _toks(f"{rng.choice(RADIX_CODONS)}={rng.choice(AA)}" for _ in range(rng.randint(1, 3))))
            else:
                ops.append("c_derive_starts " + _toks(rng.choice(RADIX_CODONS) for _ in range(rng.randint(1, 3))))
            ops += ["c_eq2", "c_dict"]
        elif r < 0.8:
            ops.append("c_names")
        else:
            ops += ["c_dict", f"c_tr 0 {rng.choice([0, 1])} {_rand_dna(rng, 15, ['ATG', 'TTG'])}"]
    return {"kind": "codon-api", "ops": ops}


def _case_translate_invalid(rng):
    """a nucleotide sequence holding a code outside 0..3 (the code setter accepts every value of the dtype) is never
    translated into something: AlphabetError demanded; valid registers translate like their strings"""
    n = rng.choice([3, 6, 6, 9, 10, 2])
    base = [rng.randrange(4) for _ in range(n)]
    ops = ["s_nuc " + _ints(ord("ACGT"[c]) for c in base), rng.choice(["c_default", f"c_load {rng.choice(TABLE_IDS)}"]),
           f"c_trreg 0 {rng.choice([0, 1])} {rng.choice([0, 1])}"]
    for _ in range(rng.randint(2, 4)):
        codes = list(base)
        if rng.random() < 0.8:
            codes[rng.randrange(n)] = rng.choice([4, 4, 5, 14, 15, 16, 63, 64, 200, 255])
        else:
            codes = [rng.randrange(4) for _ in range(n)]
        ops += [f"s_setcode 0 u8 {_ints(codes)}", f"c_trreg 0 1 0", f"c_trreg 0 0 {rng.choice([0, 1])}", "s_valid 0"]
    ops += ["s_nuc 65,67,71,78", "c_trreg 1 1 0", "c_trreg 1 0 0"]      # ambiguous alphabet: refused
    return {"kind": "translate-invalid", "ops": ops}


def _case_kmer_overflow(rng):
    """k-mer codes that do not fit int64 (len(base) ** k >= 2**63): exact value or a refusal — oracle only, the
    unbounded model is not compared"""
    n, k = rng.choice([(2000, 6), (3000, 6), (24, 14), (1000, 7), (65536, 4), (4, 32), (94, 10)])
    ops = []
    for _ in range(3):
        if rng.random() < 0.5:
            ops.append(f"k_fuse {n} {k} i64 {_ints(rng.choice([n - 1, rng.randrange(n)]) for _ in range(k))}")
        else:
            dt = [d for d in ("u8", "u16", "u32") if n - 1 <= DT_RANGE[d][1]][0]
            ops.append(f"k_kmers {n} {k} - {dt} {_ints(rng.choice([n - 1, rng.randrange(n)]) for _ in range(k + 2))}")
    return {"kind": "kmer-overflow", "check_ops": ops}


def _case_dup(rng):
    """alphabets with DUPLICATE symbols (the constructors accept them): decode(encode(x)) must still be x — oracle only
    (symbol level; which of the equal symbols' codes is used is not asserted)"""
    letter = rng.random() < 0.6
    if letter:
        base = [str(p) for p in _letter_alph(rng, small=True)]
    else:
        base = rng.sample(GEN_TOKENS, rng.randint(1, 6))
    al = list(base) + [rng.choice(base) for _ in range(rng.randint(1, 4))]
    rng.shuffle(al)
    if letter and rng.random() < 0.15:
        al = (al * 60)[:rng.choice([200, 255])]          # many duplicates, still below the uint8 sentinel
    spec = ("L:" if letter else "G:") + _toks(al)
    ops = []
    for _ in range(3):
        syms = [rng.choice(al) for _ in range(rng.choice([0, 1, 4, 8]))]
        if rng.random() < 0.2:
            syms.append("33" if letter and "33" not in al else "sZZ" if not letter else "126")
        ops.append(f"rt {spec} {_toks(syms)}")
    ops += [f"s_new {spec} {_toks(rng.choice(al) for _ in range(5))}", "s_str 0", "s_rev 0", "s_str 1", "s_add 0 1", "s_str 2",
            f"s_set 0 2 {rng.choice(al)}", "s_str 0", "s_copy 0", "s_eq 0 3", "s_get 0 -1", "s_slice 0 1 4", "s_str 4"]
    return {"kind": "alphabet-duplicates", "check_ops": ops}


def _case_alias(rng):
    """mutation after slicing / reverse(copy=False) / as_type: the real objects share their code array (numpy views).
    The source must follow its own string; the derived object is either the old or the new content, never anything else."""
    n = rng.randint(3, 8)
    txt = [rng.choice("ACGT") for _ in range(n)]
    lo = rng.randint(0, n - 2)
    hi = rng.randint(lo + 1, n)
    k = rng.randint(0, n - 1)
    sym = rng.choice("ACGT")
    return {"kind": "sequence-alias", "alias": {"txt": "".join(txt), "lo": lo, "hi": hi, "k": k, "sym": sym,
                                                "how": rng.choice(["slice", "revv", "slice"])}}


def _case_setseq(rng):
    """slice (and mask) assignment whose VALUE is a Sequence over the same alphabet, an alphabet the target's extends, an
    alphabet that extends the target's, or a foreign alphabet — with symbols inside and outside the target alphabet"""
    mode = rng.choice(["nuc", "nuc", "gen", "gen", "prot-nuc"])
    ops = []
    n = rng.randint(2, 7)
    if mode == "nuc":
        ops.append("s_nuc " + _ints(ord(rng.choice("ACGT")) for _ in range(n)))                                   # 0 unambiguous target
        ops.append("s_nuc " + _ints(ord(rng.choice("ACGTN")) for _ in range(n)) + ",78")                          # 1 ambiguous
        ops.append("s_nuc2 T " + _ints(ord(rng.choice("ACGT")) for _ in range(rng.randint(1, 3))))                # 2 ambiguous alphabet, symbols inside the target's
        ops.append("s_nuc " + _ints(ord(rng.choice("ACGT")) for _ in range(rng.randint(1, 3))))                    # 3 same alphabet
        ops.append("s_nuc2 T " + _ints(ord(rng.choice("NRYK")) for _ in range(rng.randint(1, 3))))                # 4 symbols outside
        nreg = 5
    elif mode == "prot-nuc":
        ops.append("s_nuc " + _ints(ord(rng.choice("ACGT")) for _ in range(n)))
        ops.append("s_prot " + _ints(ord(rng.choice("ACGT")) for _ in range(rng.randint(1, 3))))                   # foreign alphabet, symbols inside
        ops.append("s_prot " + _ints(ord(rng.choice("WYKL")) for _ in range(rng.randint(1, 3))))                   # foreign alphabet, symbols outside
        ops.append("s_new L:84,71,67,65 " + _ints(ord(rng.choice("ACGT")) for _ in range(rng.randint(1, 3))))      # permuted alphabet
        nreg = 4
    else:
        spec = _alph_spec(rng, small=True)
        al = _spec_syms(spec)
        pool = [t for t in ([str(p) for p in PRINTABLE] if spec.startswith("L:") else GEN_TOKENS) if t not in al]
        extra = rng.sample(pool, min(2, len(pool)))
        big = spec[:2] + _toks(al + extra)
        perm = list(al + extra)
        rng.shuffle(perm)
        foreign = spec[:2] + _toks(perm)
        ops.append(f"s_new {spec} {_toks(rng.choice(al) for _ in range(n))}")                                      # 0 target
        ops.append(f"s_new {big} {_toks(rng.choice(al) for _ in range(rng.randint(1, 3)))}")                       # 1 extends the target's, symbols inside
        ops.append(f"s_new {big} {_toks(rng.choice(al + extra) for _ in range(rng.randint(1, 3)))}")               # 2 maybe outside
        ops.append(f"s_new {foreign} {_toks(rng.choice(al) for _ in range(rng.randint(1, 3)))}")                   # 3 foreign order, symbols inside
        ops.append(f"s_new {spec[:2] + _toks(al[:max(1, len(al) - 1)])} {_toks(al[0] for _ in range(rng.randint(1, 2)))}")   # 4 the target's extends it
        ops.append(f"s_new {big} {_toks(rng.choice(al + extra) for _ in range(n + 2))}")                           # 5 bigger target
        nreg = 6
    for _ in range(rng.randint(4, 8)):
        i = rng.choice([0, 0, 0, rng.randrange(nreg)])
        j = rng.randrange(nreg)
        if rng.random() < 0.8:
            a = rng.randint(0, n)
            w = rng.choice([1, 1, 2, 3, 0])
            ops += [f"s_setseq {i} {a} {min(n + 2, a + w)} {j}", f"s_str {i}", f"s_valid {i}", f"s_str {j}"]
        else:
            ops += [f"s_setseq {i} - - {j}", f"s_str {i}"]
    return {"kind": "sequence-setseq", "ops": ops}


def _case_setseq_mask(rng):
    """the same with a boolean mask as index — oracle only"""
    n = rng.randint(2, 6)
    ops = ["s_nuc " + _ints(ord(rng.choice("ACGT")) for _ in range(n)), "s_nuc2 T " + _ints(ord(rng.choice("ACGT")) for _ in range(2)),
           "s_nuc2 T 78,82", "s_prot 65,67"]
    for _ in range(4):
        bits = [rng.choice("01") for _ in range(n)]
        ops += [f"s_setseqm 0 {''.join(bits)} {rng.randrange(1, 4)}", "s_str 0"]
    return {"kind": "sequence-setseq-mask", "check_ops": ops}


def _case_codon_codes(rng):
    """codons given as code tuples / arrays (signed dtypes), with negative and too large codes at every position"""
    ops = [rng.choice(["c_default", f"c_load {rng.choice(TABLE_IDS)}"])]
    for _ in range(rng.randint(3, 6)):
        form = rng.choice(["tuple", "list", "map", "map32", "map8", "start"])
        rows = [[rng.randrange(4) for _ in range(3)] for _ in range(1 if form in ("tuple", "list") and rng.random() < 0.6 else rng.randint(1, 4))]
        r = rng.random()
        if r < 0.45:
            rows[rng.randrange(len(rows))][rng.randrange(3)] = rng.choice([-1, -1, -2, -3, -4, -5, -16, -64, -128])
        elif r < 0.6:
            rows[rng.randrange(len(rows))][rng.randrange(3)] = rng.choice([4, 5, 16, 64, 127])
        elif r < 0.7:       # a negative and a compensating positive code: the radix sum lands on a valid number
            rows[0] = rng.choice([[0, 1, -1], [1, -1, 2], [1, 0, -4], [0, 4, -16 + 3], [-1, 4, 0]])
        ops.append(f"c_codes {form} " + ";".join(".".join(str(c) for c in row) for row in rows))
    return {"kind": "codon-codes", "ops": ops}


def _case_enc_multi(rng):
    """encode_multiple / Sequence construction from containers whose items are NOT single letters (bytes / str arrays of
    every item width, object arrays, lists, tuples), first letters inside the alphabet"""
    al = [str(p) for p in _letter_alph(rng, small=True)]
    spec = "L:" + _toks(al)
    ops = []
    for _ in range(rng.randint(3, 6)):
        n = rng.choice([1, 2, 3, 5])
        items = [rng.choice(al) for _ in range(n)]
        width = rng.choice([2, 2, 3, 4, 4, 5, 8, 1])
        if width > 1:
            k = rng.randrange(n)
            items[k] = ".".join([items[k]] + [rng.choice(al) for _ in range(width - 1)])
        elif rng.random() < 0.3:
            items[rng.randrange(n)] = "."
        form = rng.choice(["aSm", "aSm", "aSm", "aUm", "aOm", "lm", "tm", "lbm"])
        ops.append(f"{rng.choice(['enc', 'enc', 's_new'])} {spec} {_toks(items)} {form}")
    return {"kind": "encode-multi-letter", "ops": ops}


def _case_orfmut(rng):
    """several ORFs in ONE reading frame (a start codon inside another ORF); assigning into one returned protein must not
    change the others — oracle only"""
    ops = [rng.choice(["c_default", "c_default", f"c_load {rng.choice([1, 11, 4])}"])]
    for _ in range(3):
        body = ["ATG"] + [rng.choice(["AAA", "TTT", "GGC", "ATG", "ATG", "CCA"]) for _ in range(rng.randint(2, 5))] + [rng.choice(["TAA", "TAG", "GGG"])]
        dna = rng.choice(["", "C", "GG"]) + "".join(body) + rng.choice(["", "A", "ATGC"])
        ops.append(f"c_orfmut {dna} {rng.choice([0, 0, 1])} {rng.randint(0, 2)} {rng.randint(0, 4)} {rng.choice('XWA')}")
    return {"kind": "orf-independence", "check_ops": ops}


def _case_eq(rng):
    """`==` between sequences whose code arrays coincide although alphabet / class / symbols differ"""
    ops = []
    r = rng.random()
    if r < 0.55:
        letter = rng.random() < 0.6
        al = [str(p) for p in _letter_alph(rng, small=True)] if letter else rng.sample(GEN_TOKENS, rng.randint(2, 8))
        pre = "L:" if letter else "G:"
        codes = [rng.randrange(len(al)) for _ in range(rng.choice([0, 1, 3, 5, 8]))]
        perm = list(al)
        rng.shuffle(perm)                                            # same symbols, another order
        pool = [str(p) for p in PRINTABLE] if letter else GEN_TOKENS
        extra = rng.sample([t for t in pool if t not in al], min(2, len([t for t in pool if t not in al])))
        longer = al + extra                                          # an extension: same codes, same symbols
        shifted = (extra + al)[:max(len(al), 1)] if extra else perm  # other symbols under the same codes
        variants = [al, perm, longer, shifted, al]
        for v in variants:
            ops.append(f"s_new {pre}{_toks(v)} {_toks(v[c] for c in codes if c < len(v))}")
        n = len(variants)
        pairs = [(i, j) for i in range(n) for j in range(n)]
        rng.shuffle(pairs)
        for i, j in pairs[:8]:
            ops.append(f"s_eq {i} {j}")
        ops += ["s_code 0", "s_code 1", "s_str 1", "s_code 3", "s_str 3"]
    else:
        # same letters, different classes / nucleotide alphabets
        txt = [rng.choice("ACGT") for _ in range(rng.choice([1, 2, 4, 6]))]
        b = _ints(ord(c) for c in txt)
        ops += [f"s_nuc {b}",                                      # 0: NucleotideSequence, unambiguous
                f"s_new L:65,67,71,84 {b}",                        # 1: GeneralSequence, same alphabet, same codes
                f"s_nuc {b},78", f"s_slice 2 0 {len(txt)}",        # 2,3: ambiguous alphabet, same codes after slicing
                f"s_new L:84,71,67,65 {_ints(ord('TGCA'['ACGT'.index(c)]) for c in txt)}",   # 4: other order, same codes
                f"s_prot {_ints(ord('ACDE'['ACGT'.index(c)]) for c in txt)}",               # 5: ProteinSequence, same codes
                f"s_nuc {b}"]                                      # 6: equal to 0
        pairs = [(0, 1), (1, 0), (0, 3), (3, 0), (1, 4), (4, 1), (0, 5), (5, 0), (0, 6), (1, 1), (3, 3), (1, 5)]
        rng.shuffle(pairs)
        for i, j in pairs[:9]:
            ops.append(f"s_eq {i} {j}")
        ops += ["s_code 0", "s_code 3", "s_code 4", "s_code 5"]
    return {"kind": "sequence-eq", "ops": ops}


def _case_derive(rng):
    """derive a table with with_codon_mappings / with_start_codons; the table it is derived from must not change"""
    ops = []
    r = rng.random()
    if r < 0.4:
        ops.append("c_default")
    elif r < 0.75:
        ops.append(f"c_load {rng.choice(TABLE_IDS)}")
    else:
        aa = [rng.choice(AA) for _ in range(64)]
        aa[rng.randrange(64)] = "*"
        ops.append(f"c_tbl {''.join(aa)} {_toks(rng.choice(RADIX_CODONS) for _ in range(rng.randint(1, 3)))}")
    probe = "".join(rng.choice(RADIX_CODONS) for _ in range(4))
    ops += ["c_show", f"c_tr 0 0 ATG{probe}TGAAGATAA"]
    for _ in range(rng.randint(1, 3)):
        if rng.random() < 0.7:
            ks = rng.sample(RADIX_CODONS, rng.randint(1, 5))
            if rng.random() < 0.6:
                ks[0] = rng.choice(["TGA", "AGA", "TAA", "ATG", probe[:3]])
            items = [f"{k}={rng.choice(AA)}" for k in ks]
            rr = rng.random()
            if rr < 0.07:
                items[-1] = items[-1][:4] + rng.choice("aJ1")
            elif rr < 0.12:
                items[-1] = "AXG" + items[-1][3:]
            ops.append("c_derive_map " + _toks(items))
        else:
            st = [rng.choice(RADIX_CODONS) for _ in range(rng.randint(1, 4))]
            if rng.random() < 0.08:
                st[0] = rng.choice(["AXG", "AT", "ATGA"])
            ops.append("c_derive_starts " + _toks(st))
        dna = _rand_dna(rng, rng.choice([9, 12, 21, 30]), ["ATG", "TTG"])
        ops += ["c_show2", f"c_tr2 {rng.choice([0, 1])} {rng.choice([0, 1])} {dna if rng.random() < 0.5 else dna[:len(dna) // 3 * 3]}",
                "c_show", f"c_tr 0 {rng.choice([0, 1])} ATG{probe}TGAAGATAA", f"c_tr 1 0 ATG{probe}TGAAGATAA", f"c_get {rng.choice(['TGA', 'AGA', probe[:3]])}"]
    if rng.random() < 0.5:
        ops += ["c_default", "c_show", "c_tr 1 0 ATGTGAAGATAA"]      # the implicit default table, after deriving from it
    return {"kind": "codon-derive", "ops": ops}


def _case_kmer(rng):
    ops = []
    n = rng.choice([1, 2, 3, 4, 4, 5, 15, 24, 94, 255, 256, 1000])
    kmax = 6
    while n ** kmax >= 2 ** 62:
        kmax -= 1
    k = rng.randint(2, kmax) if rng.random() < 0.95 else rng.choice([0, 1])
    for _ in range(rng.randint(2, 5)):
        r = rng.random()
        if r < 0.3:
            dt = rng.choice(["i64", "i64", "u8", "u64", "i32"]) if n <= 255 else rng.choice(["i64", "u64", "i32"])
            if dt == "u64" and n ** max(k, 0) >= 2 ** 52:
                dt = "i64"
            m = k if rng.random() < 0.9 else max(0, k + rng.choice([-1, 1]))
            codes = [rng.randrange(n) for _ in range(m)]
            rr = rng.random()
            if codes and rr < 0.12 and n <= DT_RANGE[dt][1]:
                codes[rng.randrange(m)] = n                     # the boundary: code == len(alphabet)
            elif codes and rr < 0.2 and n + 1 <= DT_RANGE[dt][1]:
                codes[rng.randrange(m)] = n + rng.randint(1, 3)
            elif codes and rr < 0.26 and dt[0] == "i":
                codes[rng.randrange(m)] = -rng.randint(1, 3)
            ops.append(f"k_fuse {n} {k} {dt} {_ints(codes)}")
        elif r < 0.5:
            top = n ** max(k, 0)
            c = rng.choice([0, top - 1, top, top + 1, -1, rng.randrange(top), rng.randrange(top), rng.randrange(top)])
            ops.append(f"k_split {n} {k} {c}")
        else:
            dts = [d for d in ("u8", "u16", "u32", "u64") if n - 1 <= DT_RANGE[d][1]]
            dt = rng.choice(dts)
            if rng.random() < 0.5:
                sp = "-"
                span = k
            else:
                span = max(k, 1) + rng.randint(0, 4)
                pos = sorted(rng.sample(range(span), min(max(k, 0), span)))
                if rng.random() < 0.1 and pos:
                    pos[0] = rng.choice([-1, pos[-1]])            # negative / duplicate offsets
                if rng.random() < 0.1:
                    pos = pos[:-1]
                if rng.random() < 0.5 and all(p >= 0 for p in pos) and len(set(pos)) == len(pos) and pos:
                    sp = "m" + "".join("1" if j in pos else "0" for j in range(max(pos) + 1))
                else:
                    rng.shuffle(pos)
                    sp = _ints(pos) if pos else "-"
            L = rng.choice([0, 1, span - 1, span, span + 1, span + 3, span + 9])
            codes = [rng.randrange(n) for _ in range(max(L, 0))]
            bad = n + rng.choice([0, 0, 1])
            if codes and rng.random() < 0.15 and bad <= DT_RANGE[dt][1]:
                codes[rng.randrange(len(codes))] = bad
            ops.append(f"k_kmers {n} {k} {sp} {dt} {_ints(codes)}")
    if rng.random() < 0.5:
        spec = "L:" + _ints(_letter_alph(rng, small=True)) if rng.random() < 0.7 else "G:" + _toks(rng.sample(GEN_TOKENS, rng.randint(1, 6)))
        kk = rng.randint(2, 4)
        nn = len(_spec_syms(spec))
        ops.append(f"k_enc {spec} {kk} {_toks(_rand_syms(rng, spec, rng.choice([kk, kk, kk, kk - 1, kk + 1]), rng.choice([0, 0, 0.2])))}")
        ops.append(f"k_dec {spec} {kk} {rng.choice([0, nn ** kk - 1, nn ** kk, -1, rng.randrange(nn ** kk)])}")
    return {"kind": "kmer", "ops": ops}


AA = "ACDEFGHIKLMNPQRSTVWYBZX*"
TABLE_IDS = [1, 2, 3, 4, 5, 6, 9, 10, 11, 12, 13, 14, 16, 21, 22, 23, 24, 25, 26, 27, 28, 29, 30, 31]


def _rand_dna(rng, n, starts, stops_bias=True):
    out = []
    while len(out) < n:
        r = rng.random()
        if r < 0.25 and starts:
            out += list(rng.choice(starts))
        elif r < 0.4:
            out += list(rng.choice(["TAA", "TAG", "TGA"]))
        else:
            out.append(rng.choice("ACGT"))
    return "".join(out[:n])


def _case_codon(rng, table_id=None):
    ops = []
    r = rng.random()
    starts = ["ATG"]
    if table_id is not None or r < 0.4:
        ops.append(f"c_load {table_id if table_id is not None else rng.choice(TABLE_IDS + [7, 0])}")
        starts = ["ATG", "TTG", "CTG", "ATA", "GTG"]
    elif r < 0.55:
        ops.append("c_default")
    else:
        aa = [rng.choice(AA) for _ in range(64)]
        for _ in range(rng.randint(1, 5)):
            aa[rng.randrange(64)] = "*"
        rr = rng.random()
        if rr < 0.06:
            aa = aa[:rng.randint(0, 63)]
        elif rr < 0.12:
            aa[rng.randrange(64)] = rng.choice("aJO1")
        starts = [rng.choice(RADIX_CODONS) for _ in range(rng.choice([1, 1, 2, 3, 6]))]
        st = list(starts)
        rr = rng.random()
        if rr < 0.05:
            st = []
        elif rr < 0.1:
            st[0] = rng.choice(["AT", "ATGA", "AXG", "atg", "NNN"])
        ops.append(f"c_tbl {''.join(aa) or '_'} {_toks(st)}")
    for _ in range(rng.randint(2, 5)):
        n = rng.choice([0, 1, 2, 3, 4, 5, 6, 9, 12, 17, 25, 33, 40])
        dna = _rand_dna(rng, n, starts)
        rr = rng.random()
        if dna and rr < 0.06:
            k = rng.randrange(len(dna))
            dna = dna[:k] + rng.choice("NRYU-") + dna[k + 1:]
        elif rr < 0.15:
            dna = dna.lower()
        complete = rng.random() < 0.4
        if complete and rng.random() < 0.8:
            dna = dna[:len(dna) - len(dna) % 3]
        ops.append(f"c_tr {1 if complete else 0} {rng.choice([0, 1])} {dna or '_'}")
    if rng.random() < 0.5:
        ops.append(f"c_get {rng.choice(RADIX_CODONS)}")
    return {"kind": "codon", "ops": ops}


def cases(rng, tier):
    scale = 1 if tier == "quick" else 12
    plan = [(_case_alphabet, 110), (_case_bytes, 16), (_case_newalph, 12), (_case_mapper, 50), (_case_mapper_big, 12),
            (_case_sequence, 130), (_case_add, 30), (_case_eq, 40), (_case_pickle, 40), (_case_setcode_full, 30), (_case_spellings, 50), (_case_seq_api, 50), (_case_index_extra, 15), (_case_kmer_api, 30), (_case_codon_api, 30), (_case_translate_invalid, 30), (_case_kmer_overflow, 8), (_case_dup, 25), (_case_alias, 15), (_case_setseq, 50), (_case_setseq_mask, 10), (_case_codon_codes, 30), (_case_enc_multi, 30), (_case_orfmut, 20), (_case_kmer, 110), (_case_kmer_illegal, 20), (_case_codon, 110), (_case_derive, 50)]
    for fn, cnt in plan:
        for _ in range(cnt * scale):
            yield fn(rng)
    # every shipped table by id and by EVERY official name (names from an independent scan of codon_tables.txt)
    by_id = {}
    for name, tid in _file_table_names().items():
        by_id.setdefault(tid, []).append(name)
    for tid, names in sorted(by_id.items()):
        ops = [f"c_load {tid}", "c_show"]
        for name in names:
            ops += ["c_loadname " + name.replace(" ", "~"), f"c_get {rng.choice(RADIX_CODONS)}", f"c_tr 0 0 {_rand_dna(rng, 18, ['ATG', 'TTG', 'CTG'])}"]
        ops.append("c_loadname " + rng.choice(["Mitochondrial", "standard", "Flatworm", names[0][:-1], names[0] + "~x"]).replace(" ", "~"))   # not an official name
        yield {"kind": "codon-names", "ops": ops}
    if tier == "thorough":
        # exhaustive: every byte value x every alphabet of size <= 4 over a fixed 4-letter pool (permutations)
        import itertools
        pool = [65, 67, 71, 84]
        for size in range(1, 5):
            for al in itertools.permutations(pool, size):
                spec = "L:" + _ints(al)
                yield {"kind": "bytes-exhaustive", "ops": [f"enc {spec} {_ints(range(0, 256))}"] +
                       [f"enc1 {spec} {b}" for b in list(al) + [0, 255]] +
                       [f"dec {spec} u8 {c}" for c in list(range(0, 8)) + [254, 255]] +
                       [f"dec {spec} u16 {c}" for c in (256, 257, 260, 511, 512)]}
        # all 64 codons x every shipped table
        for tid in TABLE_IDS:
            yield {"kind": "codon-exhaustive", "ops": [f"c_load {tid}"] + [f"c_get {c}" for c in RADIX_CODONS] +
                   [f"c_tr 1 0 {''.join(RADIX_CODONS)}", f"c_tr 0 0 {''.join(RADIX_CODONS)}", f"c_tr 0 1 A{''.join(RADIX_CODONS)}"]}


def corpus():
    return [
        {"kind": "alphabet", "ops": ["dec L:65,67,71,84 i64 256,1", "dec L:65,67,71,84 list 256,1", "dec L:65,67,71,84 i64 -256,1",
                                     "dec L:65,67,71,84 u64 4294967296", "dec L:65,67,71,84 u8 0,3", "dec L:65,67,71,84 u8 4"]},
        {"kind": "sequence-nuc", "ops": ["s_nuc 65,67,71,84", "s_setcode 0 i64 256,257", "s_str 0", "s_setcode 0 i64 3,4", "s_str 0", "s_valid 0"]},
        {"kind": "sequence-nuc", "ops": ["s_nuc 65,67,71,84", "s_setarr 0 0 2 i64 258,259", "s_str 0", "s_setarr 0 0 2 u8 3,2", "s_str 0"]},
        {"kind": "kmer", "ops": ["k_fuse 4 3 i64 3,3,3", "k_split 4 3 63", "k_kmers 4 3 - u8 0,1,2,3,3", "k_kmers 4 3 m1011 u8 0,1,2,3,3",
                                 "k_kmers 4 3 3,0,2 u8 0,1,2,3,3"]},
        {"kind": "codon", "ops": ["c_default", "c_tr 0 0 ATGAAATAGATGC", "c_tr 0 1 TTGAAATAGATGC", "c_tr 1 0 ATGAAATAG", "c_tr 1 0 ATGA", "c_load 11",
                                  "c_tr 0 1 TTGAAATAGATGC", "c_tr 0 0 ATGATGTAA", "c_tr 0 0 _", "c_tr 0 0 AT"]},
        {"kind": "codon-derive", "ops": ["c_default", "c_show", "c_derive_map TGA=W,AGA=*", "c_show2", "c_show", "c_tr 1 0 ATGTGAAGATAA",
                                         "c_tr2 1 0 ATGTGAAGATAA", "c_derive_starts TTG,CTG", "c_show2", "c_show", "c_tr 0 0 TTGATGTGA", "c_tr2 0 0 TTGATGTGA"]},
        {"kind": "sequence-nuc", "ops": ["s_nuc 65,67,71,84", "s_set 0 1:i64 84", "s_set 0 -1:ip 65", "s_set 0 2:u8 71", "s_get 0 1:i64", "s_get 0 -4:i8",
                                         "s_get 0 4:u64", "s_set 0 4:i32 65", "s_str 0"]},
        {"kind": "mapper-big", "ops": ["map R:3:300:7:290 R:300:300:1:0 0,1,2", "map R:2:70000:1:69998 R:70000:70000:1:0 1,0", "map R:300:300:1:0 R:10:10:1:0 0"]},
        {"kind": "kmer-illegal", "ops": ["k_kmers 4 3 - u8 0,1,2,4,3", "k_kmers 4 3 - u8 0,1,2,3,4", "k_kmers 4 3 - u8 4,1,2,3,3", "k_kmers 4 3 - u8 0,1,2,5,3",
                                         "k_kmers 4 3 0,2,3 u8 0,1,2,3,4"]},
        {"kind": "alphabet", "ops": ["enc1 L:65,67,71,84 71.84s", "enc1 L:65,67,71,84 71.84", "enc1 L:65,67,71,84 .s", "enc1 L:65,67,71,84 .", "enc1 L:65,67,71,84 71",
                                     "enc1 L:65,67,71,84 71.71.71s"]},
        {"kind": "sequence-nuc", "ops": ["s_nuc 65,67,71,84", "s_set 0 1 71.84s", "s_str 0", "s_set 0 -1:i64 71.84", "s_set 0 0 .s", "s_str 0",
                                         "s_prot 65,67,68", "s_set 1 0 65.76.65s", "s_str 1", "s_new L:65,67 65,67", "s_set 2 0 67.65", "s_str 2"]},
        {"kind": "sequence-setcode-full", "ops": ["s_new R:256:256:1:0 i0,i1,i255", "s_setcode 0 i8 -1,0", "s_str 0", "s_setcode 0 i8 -128", "s_str 0", "s_setcode 0 u8 255,0", "s_str 0",
                                                  "s_setarr 0 0 1 i8 -1", "s_str 0", "s_new R:65536:65536:1:0 i0,i65535", "s_setcode 1 i16 -1,5", "s_str 1",
                                                  "s_setcode 1 i8 -1", "s_str 1", "s_setcode 1 u8 255", "s_str 1", "s_setcode 1 u16 65535", "s_str 1"]},
        {"kind": "codon-codes", "ops": ["c_default", "c_codes tuple 0.0.3", "c_codes tuple 0.1.-1", "c_codes map 0.0.-1;0.3.2", "c_codes start 1.-1.2", "c_codes start 0.3.2;0.0.0",
                                        "c_codes tuple 0.0.4", "c_codes map8 3.3.3;-1.0.0"]},
        {"kind": "encode-multi-letter", "ops": ["enc L:65,67,71,84 65.67,71 aSm", "enc L:65,67,71,84 71.84,84.65,67.67 aSm", "s_new L:65,67,71,84 71.84,84.65,67.67 aSm",
                                                "enc L:65,67,71,84 65.67.71.84,71 aSm", "enc L:65,67,71,84 65.67,71 aUm", "enc L:65,67,71,84 65.67,71 lm", "enc L:65,67,71,84 65,71 aSm"]},
        {"kind": "orf-independence", "check_ops": ["c_default", "c_orfmut ATGAAAATGTTTTAA 0 0 3 X", "c_orfmut ATGAAAATGTTTTAA 0 1 1 X", "c_orfmut ATGAAAATGTTTTAA 1 0 3 X"]},
        {"kind": "sequence-setseq", "ops": ["s_nuc 65,67,71,84", "s_nuc 78,78", "s_setseq 0 1 3 1", "s_str 0", "s_valid 0", "s_nuc2 T 71,71", "s_setseq 0 1 3 2", "s_str 0",
                                            "s_prot 87,89", "s_setseq 0 0 2 3", "s_str 0", "s_prot 67,68", "s_setseq 0 0 2 4", "s_str 0", "s_prot 67,67", "s_setseq 0 0 2 5", "s_str 0"]},
        {"kind": "sequence-pickle", "ops": ["s_nuc 65,67,78,82", "s_pickle 0", "s_copy 1", "s_str 2", "s_eq 2 0", "s_rev 1", "s_str 3", "s_compl 1", "s_str 4",
                                            "s_slice 1 1 -", "s_str 5", "s_add 1 0", "s_str 6", "s_deepcopy 0", "s_copy 7", "s_str 8", "s_valid 8"]},
        {"kind": "codon-names", "ops": ["c_loadname Flatworm~Mitochondrial", "c_load 9", "c_loadname Echinoderm~Mitochondrial", "c_loadname Alternative~Flatworm~Mitochondrial",
                                        "c_load 14", "c_loadname Standard", "c_loadname Spiroplasma", "c_loadname Flatworm"]},
        {"kind": "sequence-eq", "ops": ["s_new L:65,67,71,84 65,65,67,71,84", "s_new L:84,71,67,65 84,84,71,67,65", "s_code 0", "s_code 1",
                                        "s_eq 0 1", "s_eq 1 0", "s_eq 0 0", "s_nuc 65,65,67,71,84", "s_eq 0 2", "s_eq 2 0"]},
    ]



# ---------------------------------------------------------------- crash isolation: the real code runs in a forked worker
class _Worker:
    """One long-lived forked child executes the cases; if it dies (segfault in a compiled extension) or hangs, the case
    it was working on gets `CRASH` lines — an oracle failure with that case as the failing input — and a new child is
    forked for the next case."""

    def __init__(self):
        self.pid = None

    def _start(self):
        import pickle  # noqa: F401
        self.to_r, self.to_w = os.pipe()
        self.from_r, self.from_w = os.pipe()
        pid = os.fork()
        if pid == 0:
            os.close(self.to_w)
            os.close(self.from_r)
            try:
                self._serve()
            finally:
                os._exit(0)
        os.close(self.to_r)
        os.close(self.from_w)
        self.pid = pid

    def _serve(self):
        import pickle
        import struct
        inp = os.fdopen(self.to_r, "rb")
        outp = os.fdopen(self.from_w, "wb")
        while True:
            head = inp.read(4)
            if len(head) < 4:
                return
            case = pickle.loads(inp.read(struct.unpack("<I", head)[0]))
            try:
                res = _run_local(case)
            except BaseException as e:  # noqa: BLE001
                res = [f"UNCAUGHT:{type(e).__name__}"] * len(case.get("ops") or [])
            data = pickle.dumps(res)
            outp.write(struct.pack("<I", len(data)) + data)
            outp.flush()

    def _kill(self):
        import signal
        try:
            os.kill(self.pid, signal.SIGKILL)
        except OSError:
            pass
        try:
            os.waitpid(self.pid, 0)
        except OSError:
            pass
        for fd in (self.to_w, self.from_r):
            try:
                os.close(fd)
            except OSError:
                pass
        self.pid = None

    def run(self, case, timeout=120):
        import pickle
        import select
        import struct
        if self.pid is None:
            self._start()
        data = pickle.dumps({"ops": list(case.get("ops") or [])})
        try:
            os.write(self.to_w, struct.pack("<I", len(data)) + data)
            buf = b""
            need = 4
            size = None
            while True:
                r, _, _ = select.select([self.from_r], [], [], timeout)
                if not r:
                    raise TimeoutError
                chunk = os.read(self.from_r, 1 << 16)
                if not chunk:
                    raise EOFError
                buf += chunk
                if size is None and len(buf) >= 4:
                    size = struct.unpack("<I", buf[:4])[0]
                    need = 4 + size
                if size is not None and len(buf) >= need:
                    return pickle.loads(buf[4:need])
        except (EOFError, TimeoutError, OSError) as e:
            self._kill()
            tag = "CRASH:timeout" if isinstance(e, TimeoutError) else "CRASH"
            return [tag] * len(case.get("ops") or [])


_WORKER = _Worker()


def run_impl(case):
    """The real code, op by op — executed in the worker process (see `_Worker`)."""
    if os.environ.get("VERIF_C03_INPROCESS") == "1":
        return _run_local(case)
    return _WORKER.run(case)


# ---------------------------------------------------------------- property oracle (independent of the Lean model)
# A reference interpreter written with plain Python list / str / dict semantics, straight from the property
# statement.  For every op it returns what the property demands of the real code's canonical output line:
#   ("eq", text)   the line must be exactly this          ("err", {names})  must be ERR:<one of names>
#   ("anyerr",)    any error, but never an `ok`           None              the property says nothing
IUPAC = {"A": "A", "C": "C", "G": "G", "T": "T", "R": "AG", "Y": "CT", "W": "AT", "S": "CG", "M": "AC", "K": "GT",
         "H": "ACT", "B": "CGT", "V": "ACG", "D": "AGT", "N": "ACGT"}
BASE_COMPL = {"A": "T", "C": "G", "G": "C", "T": "A"}
NUC_UNAMB = "ACGT"
NUC_AMB = "ACGTRYWSMKHBVDN"


def iupac_complement(sym):
    want = frozenset(BASE_COMPL[b] for b in IUPAC[sym])
    hits = [s for s, bases in IUPAC.items() if frozenset(bases) == want]
    assert len(hits) == 1
    return hits[0]


THREE_TO_ONE = {"ALA": "A", "CYS": "C", "ASP": "D", "GLU": "E", "PHE": "F", "GLY": "G", "HIS": "H", "ILE": "I", "LYS": "K", "LEU": "L",
                "MET": "M", "ASN": "N", "PRO": "P", "GLN": "Q", "ARG": "R", "SER": "S", "THR": "T", "VAL": "V", "TRP": "W", "TYR": "Y",
                "ASX": "B", "GLX": "Z", "UNK": "X", " * ": "*", "SEC": "C", "MSE": "M"}
_TABLE_CACHE = {}


def _file_tables():
    """codon_tables.txt parsed with nothing but str.split (independent of CodonTable.load and of gen_lean)."""
    from common import paths
    path = os.path.join(paths.SRC, "biotite/sequence/codon_tables.txt")
    key = (path, os.path.getmtime(path))
    if key not in _TABLE_CACHE:
        tabs = {}
        for block in open(path).read().split("\n\n"):
            rows = {}
            for line in block.split("\n"):
                parts = line.split()
                if len(parts) >= 2 and parts[0] in ("id", "AA", "Init", "Base1", "Base2", "Base3"):
                    rows[parts[0]] = parts[1]
            if "id" in rows and all(k in rows for k in ("AA", "Init", "Base1", "Base2", "Base3")):
                d = {}
                starts = []
                for i, a in enumerate(rows["AA"]):
                    codon = rows["Base1"][i] + rows["Base2"][i] + rows["Base3"][i]
                    d[codon] = a
                    if rows["Init"][i] != "-":
                        starts.append(codon)
                tabs[int(rows["id"])] = (d, starts)
        _TABLE_CACHE[key] = tabs
    return _TABLE_CACHE[key]


def _file_table_names():
    """{official name: table id} of codon_tables.txt, by plain string processing"""
    from common import paths
    out = {}
    for block in open(os.path.join(paths.SRC, "biotite/sequence/codon_tables.txt")).read().split("\n\n"):
        names, tid = [], None
        for line in block.split("\n"):
            if line[:5] == "name ":
                names = [n.strip() for n in line[5:].split(";")]
            elif line[:3] == "id " and line[3:].strip().isdigit():
                tid = int(line[3:])
        for n in names:
            if tid is not None:
                out.setdefault(n, tid)
    return out


def _num(codon):
    return 16 * "ACGT".index(codon[0]) + 4 * "ACGT".index(codon[1]) + "ACGT".index(codon[2])


def _ref_table_line(d, starts):
    return "ok " + "".join(d[c] for c in RADIX_CODONS) + " " + _ints(_num(c) for c in starts)


def _ref_orfs(dna, d, starts, met):
    out = []
    for s in range(0, len(dna) - 2):
        if dna[s:s + 3] in starts:
            prot = ""
            e = s
            while e + 3 <= len(dna):
                aa = d[dna[e:e + 3]]
                prot += aa
                e += 3
                if aa == "*":
                    break
            if met:
                prot = "M" + prot[1:]
            out.append(f"{prot}@{s}-{e}")
    return "ok " + (";".join(out) or "_")


def _py_index(n, i):
    if -n <= i < n:
        return i % n if n else None
    return None


def reference(ops):
    """-> list of expectations, one per op (see above)."""
    exp = []
    regs = []     # dict(kind, alph(list of tokens), syms(list of tokens) | None if poisoned)
    table = [None]    # (dict, starts) | "unknown"
    table2 = [None]   # the derived table

    def alph_of(spec):
        return spec.startswith("L:"), _spec_toks(spec)

    for line in ops:
        w = line.split()
        op = w[0]
        e = None
        if op in ("enc", "enc1", "dec", "dec1"):
            letter, al = alph_of(w[1])
            distinct = len(set(al)) == len(al) and al
            if not distinct:
                e = None
            elif op == "enc":
                syms = _ptoks(w[2])
                e = ("eq", "ok " + _ints(al.index(s) for s in syms)) if all(s in al for s in syms) else ("err", {"AlphabetError"})
            elif op == "enc1":
                e = ("eq", "ok " + str(al.index(w[2]))) if w[2] in al else ("err", {"AlphabetError"})
            elif op == "dec":
                codes = _pints(w[3])
                e = ("eq", "ok " + _toks(al[c] for c in codes)) if all(0 <= c < len(al) for c in codes) else ("err", {"AlphabetError"})
            else:
                c = int(w[2].split(":")[0])
                e = ("eq", "ok " + al[c]) if 0 <= c < len(al) else ("err", {"AlphabetError"})
        elif op == "newalph":
            letter, al = alph_of(w[1])
            if not al:
                e = ("err", {"ValueError"})         # "Symbol list is empty"
            elif not letter or all(33 <= int(t) <= 126 for t in al):
                e = ("eq", "ok " + str(len(al)))
            else:
                e = ("err", {"ValueError"})         # not printable
        elif op == "common":
            cur = None
            bad = False
            for spec in w[1:]:
                al = alph_of(spec)[1]
                if cur is None:
                    cur = al
                elif cur[:len(al)] != al:
                    if al[:len(cur)] == cur:
                        cur = al
                    else:
                        bad = True
                        break
            e = ("eq", "ok none" if bad or cur is None else "ok " + _toks(cur))
        elif op == "ainfo":
            letter, al = alph_of(w[1])
            isl = letter or all(len(t) == 2 and t[0] in "sb" for t in al)
            e = ("eq", f"ok {len(al)} {'true' if w[2] in al else 'false'} {'true' if isl else 'false'} {_toks(al)}")
        elif op in ("s_nuc2", "s_prot3"):
            if op == "s_nuc2":
                txt = "".join(chr(int(t)) for t in _ptoks(w[2])).upper()
                al = NUC_AMB if w[1] == "T" else NUC_UNAMB
                okk = all(c in al for c in txt)
                kind = 1
            else:
                al = AA
                kind = 2
                txt = []
                okk = True
                for t in _ptoks(w[1]):
                    item = "" if t == "." else "".join(chr(int(x)) for x in t.split("."))
                    if len(item) == 3:
                        one = THREE_TO_ONE.get(item.upper())
                        okk = okk and one is not None
                        txt.append(one or "?")
                    else:
                        okk = okk and len(item) == 1 and item.upper() in AA
                        txt.append(item.upper())
                txt = "".join(txt) if okk else ""
            if okk:
                toks = [str(ord(c)) for c in txt]
                regs.append({"kind": kind, "alph": [str(ord(c)) for c in al], "syms": toks})
                e = ("eq", "ok " + (f"{len(al)} " if op == "s_nuc2" else "") + _toks(toks))
            else:
                e = ("err", {"AlphabetError"})
        elif op == "extends":
            _, a = alph_of(w[1])
            _, b = alph_of(w[2])
            e = ("eq", "ok " + ("true" if a[:len(b)] == b else "false"))
        elif op == "map":
            _, src = alph_of(w[1])
            _, tgt = alph_of(w[2])
            codes = _pints(w[3])
            tpos = {t: i for i, t in enumerate(tgt)}
            if not all(s in tpos for s in src):
                e = ("err", {"AlphabetError"}) if tgt[:len(src)] != src else None
            elif all(0 <= c < len(src) for c in codes):
                e = ("eq", "ok " + _ints(tpos[src[c]] for c in codes))      # the symbols are preserved
            elif tgt[:len(src)] == src:
                # no mapping necessary: the mapper hands the codes back unchecked; an invalid code stays what it is
                # (it must never turn into a *different* code), or the call is refused
                e = ("oneof", {"ok " + _ints(codes), "ERR:IndexError", "ERR:AlphabetError"})
            else:
                e = ("err", {"IndexError", "AlphabetError"})
        elif op == "s_new":
            letter, al = alph_of(w[1])
            syms = _ptoks(w[2])
            if all(s in al for s in syms):
                regs.append({"kind": 0, "alph": al, "syms": list(syms)})
                e = ("eq", "ok " + _toks(syms))
            else:
                e = ("err", {"AlphabetError"})
        elif op in ("s_nuc", "s_prot"):
            txt = "".join(chr(int(t)) for t in _ptoks(w[1])).upper()
            if op == "s_nuc":
                al = NUC_UNAMB if all(c in NUC_UNAMB for c in txt) else NUC_AMB if all(c in NUC_AMB for c in txt) else None
            else:
                al = AA if all(c in AA for c in txt) else None
            if al is None:
                e = ("err", {"AlphabetError"})
            else:
                toks = [str(ord(c)) for c in txt]
                regs.append({"kind": 1 if op == "s_nuc" else 2, "alph": [str(ord(c)) for c in al], "syms": toks})
                e = ("eq", "ok " + (f"{len(al)} " if op == "s_nuc" else "") + _toks(toks))
        elif op.startswith("s_"):
            idx = [int(w[1])] + ([int(w[2])] if op in ("s_add", "s_eq") else [])
            if any(i >= len(regs) for i in idx):
                exp.append(("eq", "ERR:noreg"))
                continue
            r = regs[idx[0]]
            if op in ("s_setseq", "s_setseqm"):
                j = int(w[-1])
                if j >= len(regs):
                    exp.append(("eq", "ERR:noreg"))
                    continue
                o = regs[j]
                if r["syms"] is None or o["syms"] is None:
                    r["syms"] = None
                    r["maybe_unchanged"] = True
                    r.pop("codes", None)
                    exp.append(None)
                    continue
                item = list(o["syms"])
                if op == "s_setseq":
                    lo = None if w[2] == "-" else int(w[2])
                    hi = None if w[3] == "-" else int(w[3])
                    positions = list(range(len(r["syms"])))[lo:hi]
                else:
                    bits = w[2] if w[2] != "_" else ""
                    if len(bits) != len(r["syms"]):
                        exp.append(("err", {"IndexError"} | ({"AlphabetError"} if not all(t in r["alph"] for t in item) else set())))
                        continue
                    positions = [p for p, c in enumerate(bits) if c == "1"]
                # assignment of a Sequence is assignment of its symbols
                if not all(t in r["alph"] for t in item):
                    exp.append(("err", {"AlphabetError"}))
                elif len(item) == len(positions):
                    for p, t in zip(positions, item):
                        r["syms"][p] = t
                    exp.append(("eq", "ok " + _toks(r["syms"])))
                elif len(item) == 1:
                    cand = list(r["syms"])
                    for p in positions:
                        cand[p] = item[0]
                    exp.append(("oneof", {"ok " + _toks(cand), "ERR:ValueError"}))
                    if positions:
                        r["syms"] = None
                        r["maybe_unchanged"] = True
                else:
                    exp.append(("err", {"ValueError"}))
                continue
            if op == "s_astype":
                j = int(w[2])
                if j >= len(regs):
                    exp.append(("eq", "ERR:noreg"))
                    continue
                o = regs[j]
                if o["alph"][:len(r["alph"])] == r["alph"]:
                    o["syms"] = None if r["syms"] is None else list(r["syms"])
                    o["maybe_unchanged"] = r["syms"] is None
                    exp.append(None if r["syms"] is None else ("eq", "ok " + _toks(o["syms"])))
                else:
                    exp.append(("err", {"AlphabetError"}))
                continue
            poisoned = r["syms"] is None or (len(idx) > 1 and regs[idx[1]]["syms"] is None)
            if op in ("s_info", "s_pos", "s_fancy", "s_mask", "s_slicestep", "s_setsymbols", "s_rmstops", "s_revv") and poisoned:
                if op in ("s_rmstops", "s_revv"):
                    regs.append({"kind": r["kind"], "alph": r["alph"], "syms": None, "maybe_unchanged": True})
                if op == "s_setsymbols" and all(t in r["alph"] for t in _ptoks(w[2])):
                    r["syms"] = list(_ptoks(w[2]))
                    r["maybe_unchanged"] = False
                    exp.append(("eq", "ok " + _toks(r["syms"])))
                else:
                    exp.append(None)
                continue
            if op == "s_info":
                counts = [r["syms"].count(t) for t in r["alph"]]
                e = ("eq", f"ok {len(r['syms'])} {_toks(r['syms'])} {_ints(counts)}")
            elif op == "s_pos":
                e = ("eq", f"ok {len(r['syms'])} {_toks(r['syms'])}") if r["syms"] else None
            elif op == "s_setsymbols":
                syms = _ptoks(w[2])
                if all(t in r["alph"] for t in syms):
                    r["syms"] = list(syms)
                    e = ("eq", "ok " + _toks(syms))
                else:
                    e = ("err", {"AlphabetError"})
            elif op == "s_rmstops":
                new_syms = [t for t in r["syms"] if t != "42"]
                regs.append({"kind": r["kind"], "alph": r["alph"], "syms": new_syms})
                e = ("eq", "ok " + _toks(new_syms))
            elif op == "s_revv":
                new_syms = r["syms"][::-1]
                regs.append({"kind": r["kind"], "alph": r["alph"], "syms": new_syms})
                e = ("eq", "ok " + _toks(new_syms))
            elif op == "s_fancy":
                ks = _pints(w[2])
                n = len(r["syms"])
                e = ("eq", "ok " + _toks(r["syms"][k] for k in ks)) if all(-n <= k < n for k in ks) else ("err", {"IndexError"})
            elif op == "s_mask":
                bits = w[2] if w[2] != "_" else ""
                e = ("eq", "ok " + _toks(t for t, b in zip(r["syms"], bits) if b == "1")) if len(bits) == len(r["syms"]) else ("err", {"IndexError"})
            elif op == "s_slicestep":
                lo, hi, st = (None if x == "-" else int(x) for x in w[2:5])
                e = ("err", {"ValueError"}) if st == 0 else ("eq", "ok " + _toks(r["syms"][lo:hi:st]))
            elif op == "s_setcode":
                codes = _pints(w[3])
                if all(0 <= c < len(r["alph"]) for c in codes):
                    r["syms"] = [r["alph"][c] for c in codes]
                    e = ("eq", "ok " + _toks(r["syms"]))
                else:
                    # rejected now, or kept as an invalid code that must raise when symbols are requested
                    e = ("oneof", {"ERR:AlphabetError", "ok !AlphabetError"})
                    r["syms"] = None
                    r["maybe_unchanged"] = True
                    if w[2].split("@")[0] == "u8" and len(r["alph"]) <= 256:
                        # same dtype as the code array: the setter stores the codes as they are (no cast, nothing to wrap)
                        e = ("eq", "ok !AlphabetError")
                        r["codes"] = list(codes)
                        r["maybe_unchanged"] = False
            elif op == "s_setarr" and not poisoned:
                lo = None if w[2] == "-" else int(w[2])
                hi = None if w[3] == "-" else int(w[3])
                codes = _pints(w[5])
                width = len(r["syms"][lo:hi])
                if all(0 <= c < len(r["alph"]) for c in codes) and len(codes) == width:
                    r["syms"][lo:hi] = [r["alph"][c] for c in codes]
                    e = ("eq", "ok " + _toks(r["syms"]))
                elif all(0 <= c < len(r["alph"]) for c in codes):
                    e = None
                    r["syms"] = None
                    r["maybe_unchanged"] = True
                else:
                    # never an `ok <symbols>`: the invalid code must not turn into a symbol
                    allowed = {"ERR:AlphabetError", "ERR:ValueError", "ok !AlphabetError"}
                    if width == 0:
                        allowed.add("ok " + _toks(r["syms"]))      # nothing is written into an empty slice
                    e = ("oneof", allowed)
                    if width:
                        r["syms"] = None
                        r["maybe_unchanged"] = True
            elif poisoned:
                if op in ("s_set", "s_setslice", "s_setarr"):
                    # the invalid code may have been overwritten: nothing is known about the content any more
                    r["maybe_unchanged"] = True
                    r.pop("codes", None)
                if op == "s_str":
                    e = None if r.get("maybe_unchanged") else ("err", {"AlphabetError"})
                elif op in ("s_slice", "s_rev", "s_copy", "s_compl", "s_pickle", "s_deepcopy"):
                    regs.append({"kind": r["kind"], "alph": r["alph"], "syms": None, "maybe_unchanged": True})
                elif op == "s_add":
                    o = regs[idx[1]]
                    a, b = r["alph"], o["alph"]
                    if a[:len(b)] == b or b[:len(a)] == a:
                        big = r if a[:len(b)] == b else o
                        regs.append({"kind": big["kind"], "alph": big["alph"], "syms": None, "maybe_unchanged": True})
                e = e
            elif op == "s_str":
                e = ("eq", "ok " + _toks(r["syms"]))
            elif op == "s_code":
                e = ("eq", "ok " + _ints(r["alph"].index(s) for s in r["syms"]))
            elif op == "s_valid":
                e = ("eq", "ok true")
            elif op == "s_get":
                k = _py_index(len(r["syms"]), int(w[2].split(":")[0]))
                e = ("eq", "ok " + r["syms"][k]) if k is not None else ("err", {"IndexError"})
            elif op == "s_set":
                k = _py_index(len(r["syms"]), int(w[2].split(":")[0]))
                if w[3] not in r["alph"]:
                    e = ("err", {"AlphabetError"} | ({"IndexError"} if k is None else set()))
                elif k is None:
                    e = ("err", {"IndexError"})
                else:
                    r["syms"][k] = w[3]
                    e = ("eq", "ok " + _toks(r["syms"]))
            elif op == "s_slice":
                lo = None if w[2] == "-" else int(w[2])
                hi = None if w[3] == "-" else int(w[3])
                new = r["syms"][lo:hi]
                regs.append({"kind": r["kind"], "alph": r["alph"], "syms": list(new)})
                e = ("eq", "ok " + _toks(new))
            elif op == "s_setslice":
                lo = None if w[2] == "-" else int(w[2])
                hi = None if w[3] == "-" else int(w[3])
                syms = _ptoks(w[4])
                width = len(r["syms"][lo:hi])
                if not all(s in r["alph"] for s in syms):
                    e = ("err", {"AlphabetError"})
                elif len(syms) == width:
                    r["syms"][lo:hi] = syms
                    e = ("eq", "ok " + _toks(r["syms"]))
                elif len(syms) == 1 and width == 0:
                    e = ("oneof", {"ok " + _toks(r["syms"]), "ERR:ValueError"})      # nothing to write either way
                elif len(syms) == 1:
                    # numpy broadcast of one symbol, or a refusal; never anything else
                    cand = list(r["syms"])
                    cand[lo:hi] = syms * width
                    e = ("oneof", {"ok " + _toks(cand), "ERR:ValueError"})
                    r["syms"] = None
                    r["maybe_unchanged"] = True
                else:
                    e = ("err", {"ValueError"})
            elif op == "s_add":
                o = regs[idx[1]]
                a, b = r["alph"], o["alph"]
                if a[:len(b)] == b or b[:len(a)] == a:
                    big = r if a[:len(b)] == b else o
                    new = r["syms"] + o["syms"]
                    regs.append({"kind": big["kind"], "alph": big["alph"], "syms": new})
                    e = ("eq", f"ok {big['kind']} {len(big['alph'])} {_toks(new)}")
                else:
                    e = ("err", {"ValueError"})
            elif op == "s_rev":
                new = r["syms"][::-1]
                regs.append({"kind": r["kind"], "alph": r["alph"], "syms": new})
                e = ("eq", "ok " + _toks(new))
            elif op in ("s_copy", "s_pickle", "s_deepcopy"):
                regs.append({"kind": r["kind"], "alph": r["alph"], "syms": list(r["syms"])})
                e = ("eq", "ok " + _toks(r["syms"]))
            elif op == "s_eq":
                o = regs[idx[1]]
                e = ("eq", "ok " + ("true" if (r["kind"], r["alph"], r["syms"]) == (o["kind"], o["alph"], o["syms"]) else "false"))
            elif op == "s_compl":
                new = [str(ord(iupac_complement(chr(int(t))))) for t in r["syms"]]
                regs.append({"kind": r["kind"], "alph": r["alph"], "syms": new})
                e = ("eq", "ok " + _toks(new))
        elif op == "k_info":
            n, k, L = int(w[1]), int(w[2]), int(w[4])
            if w[3] == "-":
                offs = None
            elif w[3][0] == "m":
                offs = [j for j, ch in enumerate(w[3][1:]) if ch == "1"]
            else:
                offs = sorted(_pints(w[3]))
            if k < 2 or (offs is not None and (len(offs) != k or len(set(offs)) != k or any(o < 0 for o in offs))):
                e = ("err", {"ValueError"})
            else:
                e = ("eq", f"ok {n ** k} {k} {'-' if offs is None else _ints(offs)} {L - k + 1 if offs is None else L - offs[-1]}")
        elif op == "k_fuse2":
            n, k = int(w[1]), int(w[2])
            rows = [[int(x) for x in r.split(".")] for r in w[4].split(";")]
            if k < 2:
                e = ("err", {"ValueError"})
            elif all(len(r) == k and all(0 <= c < n for c in r) for r in rows):
                e = ("eq", "ok " + _ints(sum(c * n ** (k - 1 - j) for j, c in enumerate(r)) for r in rows))
            else:
                e = ("err", {"AlphabetError"})
        elif op == "k_splitv":
            n, k, cs = int(w[1]), int(w[2]), _pints(w[3])
            if k < 2:
                e = ("err", {"ValueError"})
            elif all(0 <= c < n ** k for c in cs):
                rows = []
                for c in cs:
                    ds = []
                    for _ in range(k):
                        c, d = divmod(c, n)
                        ds.append(str(d))
                    rows.append(".".join(reversed(ds)))
                e = ("eq", "ok " + ";".join(rows))
            else:
                e = ("err", {"AlphabetError"})
        elif op == "k_fuse":
            n, k, codes = int(w[1]), int(w[2]), _pints(w[4])
            if k < 2:
                e = ("err", {"ValueError"})
            elif len(codes) == k and all(0 <= c < n for c in codes):
                e = ("eq", "ok " + str(sum(c * n ** (k - 1 - j) for j, c in enumerate(codes))))
                if n ** k >= 2 ** 63:      # the k-mer codes do not fit int64: the exact value or a refusal, never a wrapped value
                    e = ("oneof", {e[1], "ERR:OverflowError", "ERR:ValueError"})
            else:
                e = ("err", {"AlphabetError"})
        elif op == "k_split":
            n, k, c = int(w[1]), int(w[2]), int(w[3].split(":")[0])
            if k < 2:
                e = ("err", {"ValueError"})
            elif 0 <= c < n ** k:
                ds = []
                for _ in range(k):
                    c, d = divmod(c, n)
                    ds.append(d)
                e = ("eq", "ok " + _ints(reversed(ds)))
            else:
                e = ("err", {"AlphabetError"})
        elif op == "k_kmers":
            n, k, codes = int(w[1]), int(w[2]), _pints(w[5])
            if w[3] == "-":
                offs = list(range(max(k, 0)))
            elif w[3][0] == "m":
                offs = [j for j, ch in enumerate(w[3][1:]) if ch == "1"]
            else:
                offs = sorted(_pints(w[3]))
            if k < 2 or len(offs) != k or len(set(offs)) != k or any(o < 0 for o in offs):
                e = ("err", {"ValueError"})
            elif len(codes) < offs[-1] + 1:
                e = ("err", {"ValueError"})
            else:
                n_k = len(codes) - offs[-1]
                read = {i + o for i in range(n_k) for o in offs}
                if all(codes[p] < n for p in read):
                    e = ("eq", "ok " + _ints(sum(codes[i + o] * n ** (k - 1 - j) for j, o in enumerate(offs)) for i in range(n_k)))
                    if n ** k >= 2 ** 63:
                        e = ("oneof", {e[1], "ERR:OverflowError", "ERR:ValueError"})
                else:
                    e = ("err", {"AlphabetError"})
        elif op == "k_enc":
            _, al = alph_of(w[1])
            k, syms = int(w[2]), _ptoks(w[3])
            if len(syms) == k and all(s in al for s in syms):
                e = ("eq", "ok " + str(sum(al.index(s) * len(al) ** (k - 1 - j) for j, s in enumerate(syms))))
            else:
                e = ("err", {"AlphabetError"})
        elif op == "k_dec":
            _, al = alph_of(w[1])
            k, c = int(w[2]), int(w[3])
            if 0 <= c < len(al) ** k:
                ds = []
                for _ in range(k):
                    c, d = divmod(c, len(al))
                    ds.append(al[d])
                e = ("eq", "ok " + _toks(reversed(ds)))
            else:
                e = ("err", {"AlphabetError"})
        elif op == "c_codes":
            if table[0] is None:
                e = ("eq", "ERR:notable")
            elif table[0] == "unknown":
                e = None
            else:
                d, starts = table[0]
                rows = [[int(x) for x in r.split(".")] for r in w[2].split(";")]
                if all(len(r) == 3 and all(0 <= c < 4 for c in r) for r in rows):
                    cod = ["".join("ACGT"[c] for c in r) for r in rows]
                    e = ("eq", "ok " + (_ints(int(c in starts) for c in cod) if w[1] == "start" else _ints(AA.index(d[c]) for c in cod)))
                elif all(len(r) == 3 for r in rows):
                    e = ("err", {"AlphabetError"})       # a code outside 0..3 (negative ones included) is never a nucleotide
                else:
                    e = None
        elif op == "c_orfmut":
            if table[0] is None:
                e = ("eq", "ERR:notable")
            elif table[0] == "unknown":
                e = None
            else:
                d, starts = table[0]
                line = _ref_orfs(w[1].upper(), d, starts, w[2] == "1")
                prots = [] if line == "ok _" else [x.split("@")[0] for x in line[3:].split(";")]
                k, at = int(w[3]), int(w[4])
                after = list(prots)
                if k < len(prots) and at < len(prots[k]):
                    after[k] = prots[k][:at] + w[5] + prots[k][at + 1:]      # only the protein that was assigned to changes
                e = ("eq", "ok " + (";".join(prots) or "_") + " -> " + (";".join(after) or "_"))
        elif op == "rt":
            letter, al = alph_of(w[1])
            syms = _ptoks(w[2])
            e = ("eq", "ok " + _toks(syms)) if all(t in al for t in syms) else ("err", {"AlphabetError"})
        elif op == "c_trreg":
            i = int(w[1])
            if table[0] is None:
                e = ("eq", "ERR:notable")
            elif i >= len(regs):
                e = ("eq", "ERR:noreg")
            elif table[0] == "unknown" or regs[i]["kind"] != 1:
                e = None
            else:
                r = regs[i]
                d, starts = table[0]
                if len(r["alph"]) != 4:
                    e = ("err", {"AlphabetError"})
                elif r["syms"] is not None:
                    dna = "".join(chr(int(t)) for t in r["syms"])
                    if w[2] == "1":
                        e = ("err", {"ValueError"}) if len(dna) % 3 else ("eq", "ok " + ("".join(d[dna[k:k + 3]] for k in range(0, len(dna), 3)) or "_"))
                    else:
                        e = ("eq", _ref_orfs(dna, d, starts, w[3] == "1"))
                elif r.get("codes") is not None and not r.get("maybe_unchanged"):
                    n = len(r["codes"])
                    if w[2] == "1":
                        # an invalid code is never translated: refusal (length first, then the code)
                        e = ("err", {"ValueError"}) if n % 3 else ("err", {"AlphabetError"})
                    else:
                        e = ("err", {"AlphabetError"}) if n >= 3 else ("eq", "ok _")
                else:
                    e = None
        elif op == "c_names":
            e = ("eq", "ok " + ";".join(n.replace(" ", "~") for n in _file_table_names()))
        elif op in ("c_dict", "c_codons", "c_eq2"):
            if table[0] is None or (op == "c_eq2" and table2[0] is None):
                e = ("eq", "ERR:notable")
            elif table[0] == "unknown" or (op == "c_eq2" and table2[0] == "unknown"):
                e = None
            elif op == "c_dict":
                e = ("eq", _ref_table_line(*table[0]))
            elif op == "c_eq2":
                same = table[0][0] == table2[0][0] and list(table[0][1]) == list(table2[0][1])
                e = ("eq", "ok " + ("true" if same else "false"))
            else:
                e = ("eq", "ok " + _toks(c for c in RADIX_CODONS if table[0][0][c] == w[1])) if w[1] in AA else ("err", {"AlphabetError"})
        elif op == "c_tr0":
            d, _ = _file_tables()[1]
            starts = ["ATG"]
            dna = ("" if w[3] == "_" else w[3]).upper()
            if not all(b in "ACGT" for b in dna):
                e = ("err", {"AlphabetError"})
            elif w[1] == "1":
                e = ("err", {"ValueError"}) if len(dna) % 3 else ("eq", "ok " + ("".join(d[dna[i:i + 3]] for i in range(0, len(dna), 3)) or "_"))
            else:
                e = ("eq", _ref_orfs(dna, d, starts, w[2] == "1"))
        elif op == "c_tbl":
            aa = "" if w[1] == "_" else w[1]
            starts = [] if w[2] == "_" else w[2].split(",")
            okk = len(aa) == 64 and all(a in AA for a in aa) and starts and all(len(s) == 3 and all(b in "ACGT" for b in s) for s in starts)
            if okk:
                d = {RADIX_CODONS[i]: aa[i] for i in range(64)}
                table[0] = (d, starts)
                e = ("eq", _ref_table_line(d, starts))
            else:
                table[0] = None
                # the documented constructor contract, in the order the checks are made: start codons of length 3
                # (ValueError), letters of the start codons (AlphabetError), at least one start codon (ValueError, refused
                # by numpy broadcasting), amino acid symbols (AlphabetError), all 64 codons present (ValueError)
                if any(len(x) != 3 for x in starts):
                    e = ("err", {"ValueError"})
                elif any(b not in "ACGT" for x in starts for b in x):
                    e = ("err", {"AlphabetError"})
                elif not starts:
                    e = ("err", {"ValueError"})
                elif not all(a in AA for a in aa):
                    e = ("err", {"AlphabetError"})
                else:
                    e = ("err", {"ValueError"})
        elif op == "c_load":
            t = _file_tables().get(int(w[1]))
            if t is None:
                table[0] = None
                e = ("err", {"ValueError"})
            else:
                table[0] = t
                e = ("eq", _ref_table_line(*t))
        elif op == "c_loadname":
            tid = _file_table_names().get(w[1].replace("~", " "))
            t = _file_tables().get(tid)
            if t is None:
                table[0] = None
                e = ("err", {"ValueError"})
            else:
                table[0] = t
                e = ("eq", _ref_table_line(*t))
        elif op == "c_default":
            d, _ = _file_tables()[1]
            table[0] = (d, ["ATG"])
            e = ("eq", _ref_table_line(d, ["ATG"]))
        elif op in ("c_show", "c_show2"):
            t = table[0] if op == "c_show" else table2[0]
            e = ("eq", "ERR:notable") if t is None else None if t == "unknown" else ("eq", _ref_table_line(*t))
        elif op in ("c_derive_map", "c_derive_starts"):
            # a derived table is a NEW table: `table[0]` (the one it is derived from) is not touched here
            table2[0] = None
            if table[0] is None:
                e = ("eq", "ERR:notable")
            elif table[0] == "unknown":
                e = None
                table2[0] = "unknown"
            elif op == "c_derive_map":
                items = [it.split("=") for it in _ptoks(w[1])]
                if all(len(k) == 3 and all(b in "ACGT" for b in k) and v in AA for k, v in items):
                    d = dict(table[0][0])
                    d.update({k: v for k, v in items})
                    table2[0] = (d, list(table[0][1]))
                    e = ("eq", _ref_table_line(*table2[0]))
                elif any(len(k) != 3 for k, v in items):
                    e = None        # keys that are not 3 letters long contradict the documented contract
                else:
                    e = ("err", {"AlphabetError"})
            else:
                st = _ptoks(w[1])
                if st and all(len(k) == 3 and all(b in "ACGT" for b in k) for k in st):
                    table2[0] = (table[0][0], st)
                    e = ("eq", _ref_table_line(*table2[0]))
                elif not st or any(len(k) != 3 for k in st):
                    e = ("err", {"ValueError"})
                else:
                    e = ("err", {"AlphabetError"})
        elif op in ("c_tr", "c_get", "c_tr2"):
            if op == "c_tr2":
                tab = table2[0]
            else:
                tab = table[0]
            if tab is None:
                e = ("eq", "ERR:notable")
            elif tab == "unknown":
                e = None
            elif op == "c_get":
                e = ("eq", "ok " + tab[0][w[1]])
            else:
                d, starts = tab
                dna = ("" if w[3] == "_" else w[3]).upper()
                if not all(b in "ACGT" for b in dna):
                    e = ("err", {"AlphabetError"})
                elif w[1] == "1":
                    if len(dna) % 3:
                        e = ("err", {"ValueError"})
                    else:
                        e = ("eq", "ok " + ("".join(d[dna[i:i + 3]] for i in range(0, len(dna), 3)) or "_"))
                else:
                    e = ("eq", _ref_orfs(dna, d, starts, w[2] == "1"))
        exp.append(e)
    return exp


def _classify(op, line, got):
    """Finding key: the specific failing input class."""
    w = op.split()
    if w[0] in ("k_fuse", "k_kmers") and int(w[1]) ** max(int(w[2]), 0) >= 2 ** 63 and got.startswith("ok"):
        return "C03/KmerAlphabet/alphabet-size-exceeds-int64"
    if w[0] == "rt" and w[1].startswith("L:") and len(_ptoks(w[1][2:])) > 255 and got.startswith("ok"):
        return "C03/LetterAlphabet/more-than-255-letters"
    if w[0] == "k_fuse" and got.startswith("ok"):
        n, k, codes = int(w[1]), int(w[2]), _pints(w[4])
        if len(codes) == k and any(c == n for c in codes) and not any(c > n or c < 0 for c in codes):
            return "C03/KmerAlphabet.fuse/code-equal-to-alphabet-length"
        if len(codes) == k and any(c < 0 for c in codes) and not any(c >= n for c in codes):
            return "C03/KmerAlphabet.fuse/negative-code"
        if w[3] == "u64" and all(0 <= c < n for c in codes):
            return "C03/KmerAlphabet.fuse/uint64-codes-computed-in-float64"
        return "C03/k_fuse/wrong-result"
    if w[0] == "dec" and got.startswith("ok"):
        _, al = w[1].startswith("L:"), _ptoks(w[1][2:])
        if any(c >= 256 or c < 0 for c in _pints(w[3])):
            return "C03/decode_multiple/code-outside-uint8-wraps"
    if w[0] == "s_setcode" and got.startswith("ok") and not got.startswith("ok !"):
        return "C03/Sequence.code/code-outside-dtype-wraps"
    if w[0] == "s_setarr" and got.startswith("ok") and not got.startswith("ok !"):
        return "C03/Sequence.__setitem__/code-outside-dtype-wraps"
    if got.startswith("CRASH"):
        return f"C03/{w[0]}/crash"
    if got.endswith("+MUTATED"):
        return f"C03/{w[0]}/refused-call-changed-the-object"
    wants_error = bool(line) and line[0] in ("err", "anyerr")
    return f"C03/{w[0]}/" + ("accepted-invalid-input" if got.startswith("ok") and wants_error
                             else "wrong-error" if got.startswith("ERR") and wants_error else "wrong-result")


def _oracle_alias(case):
    import biotite.sequence as seq
    a = case["alias"]
    s = seq.NucleotideSequence(a["txt"])
    old = a["txt"]
    if a["how"] == "slice":
        d = s[a["lo"]:a["hi"]]
        view = lambda t: t[a["lo"]:a["hi"]]      # noqa: E731
    else:
        d = s.reverse(copy=False)
        view = lambda t: t[::-1]                 # noqa: E731
    s[a["k"]] = a["sym"]
    new = old[:a["k"]] + a["sym"] + old[a["k"] + 1:]
    v = []
    if str(s) != new:
        v.append(("C03/alias/source-wrong", f"{a}: source is {str(s)!r}, expected {new!r}"))
    if str(d) not in (view(old), view(new)):
        v.append(("C03/alias/derived-neither-old-nor-new", f"{a}: derived object is {str(d)!r}, expected {view(old)!r} or {view(new)!r}"))
    return v


def oracle(case):
    if case.get("kind") == "sequence-alias" and "alias" in case:
        return _oracle_alias(case)
    ops = case.get("ops") or case.get("check_ops") or []
    if not ops:
        return []
    got = run_impl({"ops": ops})
    exp = reference(ops)
    v = []
    for op, g, e in zip(ops, got, exp):
        if e is None:
            continue
        ok = True
        if e[0] == "eq":
            ok = g == e[1]
        elif e[0] == "err":
            ok = g.startswith("ERR:") and g[4:] in e[1]
        elif e[0] == "anyerr":
            ok = g.startswith("ERR:")
        elif e[0] == "oneof":
            ok = g in e[1]
        if not ok:
            want = e[1] if len(e) > 1 else "an error"
            v.append((_classify(op, e, g), f"op `{op[:160]}`: real code gives `{g[:120]}`, property demands {str(want)[:160]}"))
    return v


def nontrivial(case, impl_out):
    if not impl_out:
        return False
    return any((o.startswith("ok ") and o not in ("ok _", "ok true", "ok false")) or o.startswith("ERR:") and "noreg" not in o and "notable" not in o
               for o in impl_out)


def signature(case):
    if "alias" in case:
        return "alias|" + str(sorted(case["alias"].items()))
    return "|".join(case.get("ops") or case.get("check_ops") or [])


def distribution(cases, impl_outs):
    ops = {}
    outcomes = {}
    lens = {}
    for c, o in zip(cases, impl_outs):
        for line, res in zip(c.get("ops") or [], o or []):
            k = line.split(" ")[0]
            ops[k] = ops.get(k, 0) + 1
            r = res.split(" ")[0]
            outcomes[r] = outcomes.get(r, 0) + 1
        n = len(c.get("ops") or [])
        b = "1-3" if n <= 3 else "4-7" if n <= 7 else "8+"
        lens[b] = lens.get(b, 0) + 1
    return {"ops": ops, "outcomes": outcomes, "script_lengths": lens}


def shrink(case, key):
    from common import util
    field = "ops" if case.get("ops") else "check_ops"

    def fails(ops):
        try:
            return any(k == key for k, _ in oracle({field: ops}))
        except Exception:  # noqa: BLE001
            return False
    ops = util.shrink_list(case[field], fails, max_steps=120)
    return dict(case, **{field: ops})


def search(rng, problems, tier):
    """Failing-input search: targeted at what broke, then the generator again with another stream."""
    names = " ".join(str(p.get("name", "")) + " " + str(p.get("kind", "")) + " " + str(p.get("detail", ""))[:300] for p in problems)
    if "codon" in names.lower() or "Gen" in names or "gen" in names:
        for tid in TABLE_IDS:
            yield {"kind": "codon-exhaustive", "check_ops": [f"c_load {tid}"] + [f"c_get {c}" for c in RADIX_CODONS] +
                   [f"c_tr 1 0 {''.join(RADIX_CODONS)}", f"c_tr 0 0 {''.join(RADIX_CODONS)}"]}
        yield {"kind": "codon-exhaustive", "check_ops": ["c_default", f"c_tr 0 0 {''.join(RADIX_CODONS)}"]}
        for s in NUC_AMB + NUC_AMB.lower():
            yield {"kind": "sequence-nuc", "check_ops": [f"s_nuc {ord(s)},65", "s_compl 0", "s_compl 1", "s_str 2", "s_rev 0"]}
        for a in AA:
            yield {"kind": "sequence-prot", "check_ops": [f"s_prot {ord(a)}", "s_str 0", "s_code 0"]}
    for c in cases(rng, "quick"):
        yield dict({k: v for k, v in c.items() if k != "ops"}, check_ops=c.get("ops") or c.get("check_ops"))
    if tier == "thorough":
        for c in cases(rng, "quick"):
            yield dict({k: v for k, v in c.items() if k != "ops"}, check_ops=c.get("ops") or c.get("check_ops"))

"""C03 — Symbol encoding is a bijection and sequences behave like their strings.

Plugin interface: see harness/README.md.  Protocol lines are documented in
lean/BiotiteModel/Driver/C03.lean; letters travel as decimal byte values, generic symbols as
tokens (`i5` int, `sAB` str, `bAB` bytes, `t1.2` tuple of ints, `N` None).
"""
import ast
import os
import re

PROP = "C03"
PROPS_MODULE = "BiotiteModel.Props.C03"
DRIVER_MODULE = "BiotiteModel.Driver.C03"
EXT_MODULES = ["biotite.sequence.codec", "biotite.sequence.align.kmeralphabet"]
GEN_FILES = ["BiotiteModel/Gen/C03.lean"]
RULE = ("seeded op scripts over letter alphabets of 1..94 printable letters and generic alphabets of mixed hashable "
        "symbols: encode/decode (all byte values, code arrays of every integer dtype incl. >=256, 2^32, negatives), "
        "AlphabetMapper, stateful Sequence scripts (new/str/index/assign/slice/+/reverse/==/copy/complement/code "
        "setter), KmerAlphabet fuse/split/create_kmers (k 2..6, spacings), CodonTable construction/loading and "
        "translate in both modes, op by op against the Lean model; oracle: Python str/list/dict reference semantics "
        "on the real objects. non-trivial = at least one op output that is not an error and not empty, or an error "
        "branch reached with a non-empty input; distinct = different op script")
TRUSTED = ["numpy array construction, comparison and astype casts modelled as mathematical integers with explicit range checks",
           "Python str.upper / bytes / dict semantics used by the sequence constructors"]
ASSUMPTIONS = ["k-mer arithmetic is modelled over unbounded integers; the real code uses int64, the tie holds for len(base)**k < 2**63",
               "alphabets have pairwise distinct symbols (the constructors do not enforce it; duplicates are outside the property)"]
LEVEL_TEXT = ("Lean 4 proof for all inputs of: encode/decode bijection and exact rejection for generic and letter alphabets "
              "(256-entry table of codec.pyx refines the generic model), mapper preservation, mixed-radix fuse/split "
              "bijection for every base and k, rolling and spaced k-mer computation = map fuse over windows, sequence laws, "
              "translation = codon-wise lookup, ORF exactness; complement/alphabet/codon-table facts by decide on tables "
              "regenerated from the source. KmerAlphabet.fuse range test is defective in the .pyx (known finding): its "
              "rejection theorem is partial.")
LEVEL_NOTE = ("model tied to the code by a differential harness on seeded op scripts and by regenerated tables; numpy "
              "casts/broadcasting and int64 overflow of k-mer codes are modelled, not verified")
TECHNIQUE = "Lean 4 proof (structural induction over symbol/code lists, decide on regenerated tables) + correspondence"


# ---------------------------------------------------------------- translator (Gen)
def _b(s):
    return "[" + ", ".join(str(c) for c in s.encode("ascii")) + "]"


def _class_body(tree, name):
    for node in tree.body:
        if isinstance(node, ast.ClassDef) and node.name == name:
            return node
    raise ValueError(f"class {name} not found")


def _assign_value(cls, name):
    for node in cls.body:
        if isinstance(node, ast.Assign) and len(node.targets) == 1 and isinstance(node.targets[0], ast.Name) \
                and node.targets[0].id == name:
            return node.value
    raise ValueError(f"assignment {name} not found in class {cls.name}")


def _letter_alphabet_literal(value, what):
    """`LetterAlphabet([...literal letters...])` -> str"""
    if not (isinstance(value, ast.Call) and getattr(value.func, "id", None) == "LetterAlphabet" and len(value.args) == 1):
        raise ValueError(f"{what}: expected LetterAlphabet(<literal>)")
    syms = ast.literal_eval(value.args[0])
    if not all(isinstance(s, str) and len(s) == 1 for s in syms):
        raise ValueError(f"{what}: symbols are not single letters")
    return "".join(syms)


def parse_codon_tables(text, fields):
    """Independent re-implementation of the row extraction of CodonTable.load for *every* table.
    fields: {prefix: offset} taken from codon.py."""
    tables = []
    cur = None
    for line in text.split("\n"):
        if not line:
            cur = None
            continue
        if line.startswith("#"):
            continue
        if line.startswith("name"):
            cur = {"names": [n.strip() for n in line[4:].split(";")]}
            tables.append(cur)
        elif cur is not None and line.startswith("id"):
            cur["id"] = int(line[2:])
        elif cur is not None:
            for prefix, off in fields.items():
                if line.startswith(prefix):
                    cur[prefix] = line[off:].strip()
    return tables


def gen_lean():
    from common import paths
    base = os.path.join(paths.SRC, "biotite/sequence")
    seqtypes = ast.parse(open(os.path.join(base, "seqtypes.py")).read())
    nuc = _class_body(seqtypes, "NucleotideSequence")
    unamb = _letter_alphabet_literal(_assign_value(nuc, "alphabet_unamb"), "alphabet_unamb")
    amb = _letter_alphabet_literal(_assign_value(nuc, "alphabet_amb"), "alphabet_amb")
    compl = ast.literal_eval(_assign_value(nuc, "compl_symbol_dict"))
    if not all(isinstance(k, str) and isinstance(v, str) and len(k) == 1 and len(v) == 1 for k, v in compl.items()):
        raise ValueError("compl_symbol_dict is not a letter->letter dict")
    prot = _class_body(seqtypes, "ProteinSequence")
    palph = _letter_alphabet_literal(_assign_value(prot, "alphabet"), "ProteinSequence.alphabet")
    d13 = ast.literal_eval(_assign_value(prot, "_dict_1to3"))
    extra31 = []
    for node in prot.body:   # _dict_3to1["SEC"] = "C"
        if isinstance(node, ast.Assign) and isinstance(node.targets[0], ast.Subscript) \
                and getattr(node.targets[0].value, "id", None) == "_dict_3to1":
            extra31.append((ast.literal_eval(node.targets[0].slice), ast.literal_eval(node.value)))
    # LetterAlphabet.PRINTABLES
    alph_src = open(os.path.join(base, "alphabet.py")).read()
    la = _class_body(ast.parse(alph_src), "LetterAlphabet")
    pv = _assign_value(la, "PRINTABLES")
    import string
    try:
        expr = pv.func.value if isinstance(pv, ast.Call) else pv      # (<expr>).encode("ASCII")
        printables = eval(compile(ast.Expression(expr), "<PRINTABLES>", "eval"), {"__builtins__": {}}, {"string": string})
        if isinstance(printables, bytes):
            printables = printables.decode("ascii")
    except Exception as e:  # noqa: BLE001
        raise ValueError(f"cannot evaluate LetterAlphabet.PRINTABLES: {e}")
    # codon.py: column offsets of load(), default table
    codon_src = open(os.path.join(base, "codon.py")).read()
    fields = {}
    for m in re.finditer(r'line\.startswith\("(\w+)"\):\s*\n(?:\s*#[^\n]*\n)*\s*(\w+) = line\[(\d+):\]\.strip\(\)', codon_src):
        fields[m.group(1)] = int(m.group(3))
    if sorted(fields) != ["AA", "Base1", "Base2", "Base3", "Init"]:
        raise ValueError(f"CodonTable.load column extraction not found: {fields}")
    m = re.search(r'_default_table\s*=\s*CodonTable\.load\("([^"]+)"\)\.with_start_codons\(\[([^\]]*)\]\)', codon_src)
    if not m:
        raise ValueError("_default_table definition not found")
    default_name = m.group(1)
    default_starts = ast.literal_eval("[" + m.group(2) + "]")
    m = re.search(r'if init\[i\] == "(.)":', codon_src)
    if not m:
        raise ValueError("start marker test not found in CodonTable.load")
    start_marker = m.group(1)
    tables = parse_codon_tables(open(os.path.join(base, "codon_tables.txt")).read(), fields)
    if not tables:
        raise ValueError("no tables in codon_tables.txt")
    for t in tables:
        for f in ("id", "AA", "Init", "Base1", "Base2", "Base3"):
            if f not in t:
                raise ValueError(f"table {t.get('names')} lacks {f}")
    # kmeralphabet.pyx: the range guard of fuse()
    kmer_src = open(os.path.join(base, "align/kmeralphabet.pyx")).read()
    m = re.search(r"def fuse\(self, codes\):.*?if np\.any\(codes\s*(>=|>)\s*len\(self\._base_alph\)\)(.*?):\s*\n\s*raise AlphabetError",
                  kmer_src, re.S)
    if not m:
        raise ValueError("range guard of KmerAlphabet.fuse not found")
    fuse_op = m.group(1)
    fuse_lower = "codes < 0" in m.group(2)

    L = ["/- REGENERATED on every run by harness/props/c03.py from sequence/seqtypes.py, alphabet.py, codon.py,",
         "   codon_tables.txt and align/kmeralphabet.pyx.  Do not edit. -/",
         "namespace BiotiteModel.Gen.C03",
         "/-- `NucleotideSequence.alphabet_unamb` / `alphabet_amb` (byte values). -/",
         f"def nucUnamb : List Nat := {_b(unamb)}",
         f"def nucAmb : List Nat := {_b(amb)}",
         "/-- `NucleotideSequence.compl_symbol_dict` in source order. -/",
         "def complDict : List (Nat × Nat) := [" + ", ".join(f"({ord(k)}, {ord(v)})" for k, v in compl.items()) + "]",
         "/-- `ProteinSequence.alphabet`. -/",
         f"def protAlph : List Nat := {_b(palph)}",
         "/-- `ProteinSequence._dict_1to3` and the extra `_dict_3to1` entries. -/",
         "def dict1to3 : List (Nat × String) := [" + ", ".join(f'({ord(k)}, "{v}")' for k, v in d13.items()) + "]",
         "def dict3to1Extra : List (String × Nat) := [" + ", ".join(f'("{k}", {ord(v)})' for k, v in extra31) + "]",
         "/-- `LetterAlphabet.PRINTABLES`. -/",
         f"def printables : List Nat := {_b(printables)}",
         "/-- The comparison in the range guard of `KmerAlphabet.fuse` and whether it also tests `codes < 0`. -/",
         f'def fuseGuardOp : String := "{fuse_op}"',
         f"def fuseGuardHasLowerBound : Bool := {'true' if fuse_lower else 'false'}",
         "/-- One table of `codon_tables.txt`, rows cut at the offsets `CodonTable.load` uses. -/",
         "structure TableRows where",
         "  id : Nat",
         "  names : List String",
         "  aa : List Nat",
         "  init : List Nat",
         "  base1 : List Nat",
         "  base2 : List Nat",
         "  base3 : List Nat",
         f"def startMarker : Nat := {ord(start_marker)}",
         "def codonTables : List TableRows := ["]
    rows = []
    for t in tables:
        names = ", ".join('"' + n.replace('"', '\\"') + '"' for n in t["names"])
        rows.append(f"  ⟨{t['id']}, [{names}], {_b(t['AA'])}, {_b(t['Init'])}, {_b(t['Base1'])}, {_b(t['Base2'])}, {_b(t['Base3'])}⟩")
    L.append(",\n".join(rows) + "]")
    L += ["/-- `_default_table = CodonTable.load(name).with_start_codons(starts)`. -/",
          f'def defaultTableName : String := "{default_name}"',
          "def defaultStarts : List (List Nat) := [" + ", ".join(_b(s) for s in default_starts) + "]",
          "end BiotiteModel.Gen.C03", ""]
    return {"BiotiteModel/Gen/C03.lean": "\n".join(L)}


# ---------------------------------------------------------------- helpers shared by adapter / generator / oracle
NPDT = {"u8": "uint8", "u16": "uint16", "u32": "uint32", "u64": "uint64", "i8": "int8", "i16": "int16", "i32": "int32", "i64": "int64"}
DT_RANGE = {"u8": (0, 2**8 - 1), "u16": (0, 2**16 - 1), "u32": (0, 2**32 - 1), "u64": (0, 2**64 - 1),
            "i8": (-2**7, 2**7 - 1), "i16": (-2**15, 2**15 - 1), "i32": (-2**31, 2**31 - 1), "i64": (-2**63, 2**63 - 1)}
PRINTABLE = list(range(33, 127))


def _ints(xs):
    xs = list(xs)
    return ",".join(str(int(x)) for x in xs) if xs else "_"


def _toks(xs):
    xs = list(xs)
    return ",".join(xs) if xs else "_"


def _ptoks(s):
    return [] if s in ("_", "") else s.split(",")


def _pints(s):
    return [int(x) for x in _ptoks(s)]


def tok_to_sym(t):
    """Injective token -> hashable Python symbol (no bool/float, so == never conflates two tokens)."""
    if t == "N":
        return None
    if t[0] == "i":
        return int(t[1:])
    if t[0] == "s":
        return t[1:]
    if t[0] == "b":
        return t[1:].encode("ascii")
    if t[0] == "t":
        return tuple(int(x) for x in t[1:].split("."))
    raise ValueError("bad token " + t)


def sym_to_tok(s):
    if s is None:
        return "N"
    if isinstance(s, bool):
        raise ValueError("bool symbol")
    if isinstance(s, int):
        return "i" + str(s)
    if isinstance(s, str):
        return "s" + s
    if isinstance(s, bytes):
        return "b" + s.decode("ascii")
    if isinstance(s, tuple):
        return "t" + ".".join(str(x) for x in s)
    import numpy as np
    if isinstance(s, np.integer):
        return "i" + str(int(s))
    raise ValueError(f"unprintable symbol {s!r}")


class _A:
    """Alphabet spec -> real alphabet object + converters between tokens and Python symbols."""

    def __init__(self, spec):
        import biotite.sequence as seq
        self.letter = spec.startswith("L:")
        self.toks = _ptoks(spec[2:])
        if self.letter:
            self.alph = seq.LetterAlphabet(bytes(int(t) for t in self.toks))
        else:
            self.alph = seq.Alphabet([tok_to_sym(t) for t in self.toks])

    def syms(self, toks):
        """tokens -> argument for encode_multiple / Sequence constructors"""
        if self.letter:
            return bytes(int(t) for t in toks)
        return [tok_to_sym(t) for t in toks]

    def sym(self, tok):
        if self.letter:
            return bytes([int(tok)])
        return tok_to_sym(tok)

    def show(self, symbols):
        if self.letter:
            out = []
            for s in symbols:
                out.append(str(s[0] if isinstance(s, bytes) else ord(s)))
            return _toks(out)
        return _toks(sym_to_tok(s) for s in symbols)

    def show1(self, s):
        return self.show([s])


def _seq_tokens(entry):
    """Symbols of a register's sequence as tokens via str() for letter alphabets, .symbols otherwise."""
    s, a = entry
    if a.letter:
        return _toks(str(b) for b in str(s).encode("latin-1"))
    return a.show(s.symbols)


def _err(e):
    return "ERR:" + type(e).__name__


def _seq_tokens_safe(entry):
    try:
        return _seq_tokens(entry)
    except Exception as e:  # noqa: BLE001
        return "!" + type(e).__name__


class _NucA:
    """Converter for NucleotideSequence / ProteinSequence registers."""
    letter = True

    def __init__(self, alph):
        self.alph = alph

    def syms(self, toks):
        return bytes(int(t) for t in toks).decode("latin-1")

    def sym(self, tok):
        return chr(int(tok))

    show = _A.show
    show1 = _A.show1


RADIX_CODONS = [a + b + c for a in "ACGT" for b in "ACGT" for c in "ACGT"]


def _show_table(t):
    import biotite.sequence as seq
    nuc = seq.NucleotideSequence.alphabet_unamb
    aa = "".join(t[c] for c in RADIX_CODONS)
    starts = [16 * nuc.encode(c[0]) + 4 * nuc.encode(c[1]) + nuc.encode(c[2]) for c in t.start_codons()]
    return aa + " " + _ints(starts)


# ---------------------------------------------------------------- implementation adapter
def run_impl(case):
    import numpy as np
    import biotite.sequence as seq
    from biotite.sequence.align import KmerAlphabet

    out = []
    regs = []          # [(Sequence, converter)]
    table = [None]

    def arr(dt, vals):
        if dt == "list":
            return list(vals)
        return np.array(vals, dtype=NPDT[dt]) if vals else np.array([], dtype=NPDT[dt])

    def push(s, a, fmt=None):
        regs.append((s, a))
        txt = _seq_tokens_safe((s, a))
        return "ok " + (fmt(s, txt) if fmt else txt)

    def do(w):
        op = w[0]
        if op == "enc":
            a = _A(w[1])
            return "ok " + _ints(a.alph.encode_multiple(a.syms(_ptoks(w[2]))))
        if op == "enc1":
            a = _A(w[1])
            return "ok " + str(int(a.alph.encode(a.sym(w[2]))))
        if op == "dec":
            a = _A(w[1])
            return "ok " + a.show(a.alph.decode_multiple(arr(w[2], _pints(w[3]))))
        if op == "dec1":
            a = _A(w[1])
            return "ok " + a.show1(a.alph.decode(int(w[2])))
        if op == "newalph":
            return "ok " + str(len(_A(w[1]).alph))
        if op == "map":
            a, b = _A(w[1]), _A(w[2])
            m = seq.AlphabetMapper(a.alph, b.alph)
            return "ok " + _ints(m[np.array(_pints(w[3]), dtype=np.uint64)])
        if op == "extends":
            a, b = _A(w[1]), _A(w[2])
            return "ok " + ("true" if a.alph.extends(b.alph) else "false")
        if op == "s_new":
            a = _A(w[1])
            return push(seq.GeneralSequence(a.alph, a.syms(_ptoks(w[2]))), a)
        if op == "s_nuc":
            s = seq.NucleotideSequence(bytes(int(t) for t in _ptoks(w[1])).decode("latin-1"))
            return push(s, _NucA(s.get_alphabet()), lambda s, txt: f"{len(s.get_alphabet())} {txt}")
        if op == "s_prot":
            s = seq.ProteinSequence(bytes(int(t) for t in _ptoks(w[1])).decode("latin-1"))
            return push(s, _NucA(s.get_alphabet()))
        if op in ("s_str", "s_code", "s_valid", "s_get", "s_set", "s_slice", "s_setslice", "s_rev", "s_copy", "s_compl", "s_setcode"):
            i = int(w[1])
            if i >= len(regs):
                return "ERR:noreg"
            s, a = regs[i]
            if op == "s_str":
                return "ok " + _seq_tokens((s, a))
            if op == "s_code":
                return "ok " + _ints(s.code)
            if op == "s_valid":
                return "ok " + ("true" if s.is_valid() else "false")
            if op == "s_get":
                return "ok " + a.show1(s[int(w[2])])
            if op == "s_set":
                s[int(w[2])] = a.sym(w[3])
                return "ok " + _seq_tokens_safe((s, a))
            if op == "s_slice":
                lo = None if w[2] == "-" else int(w[2])
                hi = None if w[3] == "-" else int(w[3])
                return push(s[lo:hi], a)
            if op == "s_setslice":
                lo = None if w[2] == "-" else int(w[2])
                hi = None if w[3] == "-" else int(w[3])
                s[lo:hi] = a.syms(_ptoks(w[4]))
                return "ok " + _seq_tokens_safe((s, a))
            if op == "s_rev":
                return push(s.reverse(), a)
            if op == "s_copy":
                return push(s.copy(), a)
            if op == "s_compl":
                return push(s.complement(), a)
            if op == "s_setcode":
                s.code = arr(w[2], _pints(w[3]))
                return "ok " + _seq_tokens_safe((s, a))
        if op in ("s_add", "s_eq"):
            i, j = int(w[1]), int(w[2])
            if i >= len(regs) or j >= len(regs):
                return "ERR:noreg"
            (s1, a1), (s2, a2) = regs[i], regs[j]
            if op == "s_eq":
                return "ok " + ("true" if s1 == s2 else "false")
            r = s1 + s2
            ar = a1 if len(a1.alph) >= len(a2.alph) else a2
            kind = 1 if isinstance(r, seq.NucleotideSequence) else 2 if isinstance(r, seq.ProteinSequence) else 0
            return push(r, ar, lambda s, txt: f"{kind} {len(s.get_alphabet())} {txt}")
        if op == "k_fuse":
            ka = KmerAlphabet(seq.Alphabet(range(int(w[1]))), int(w[2]))
            return "ok " + str(int(ka.fuse(arr(w[3], _pints(w[4])))))
        if op == "k_split":
            ka = KmerAlphabet(seq.Alphabet(range(int(w[1]))), int(w[2]))
            return "ok " + _ints(ka.split(int(w[3])))
        if op == "k_kmers":
            sp = None if w[3] == "-" else w[3][1:] if w[3][0] == "m" else _pints(w[3])
            ka = KmerAlphabet(seq.Alphabet(range(int(w[1]))), int(w[2]), sp)
            return "ok " + _ints(ka.create_kmers(arr(w[4], _pints(w[5]))))
        if op == "k_enc":
            a = _A(w[1])
            ka = KmerAlphabet(a.alph, int(w[2]))
            return "ok " + str(int(ka.encode(a.syms(_ptoks(w[3])))))
        if op == "k_dec":
            a = _A(w[1])
            ka = KmerAlphabet(a.alph, int(w[2]))
            return "ok " + a.show(ka.decode(int(w[3])))
        if op == "c_tbl":
            aa = "" if w[1] == "_" else w[1]
            d = {RADIX_CODONS[i]: aa[i] for i in range(len(aa))}
            starts = [] if w[2] == "_" else w[2].split(",")
            table[0] = None
            t = seq.CodonTable(d, starts)
            table[0] = t
            return "ok " + _show_table(t)
        if op == "c_load":
            table[0] = None
            t = seq.CodonTable.load(int(w[1]))
            table[0] = t
            return "ok " + _show_table(t)
        if op == "c_default":
            table[0] = seq.CodonTable.default_table()
            return "ok " + _show_table(table[0])
        if op == "c_tr":
            if table[0] is None:
                return "ERR:notable"
            dna = "" if w[3] == "_" else w[3]
            s = seq.NucleotideSequence(dna)
            if w[1] == "1":
                p = s.translate(complete=True, codon_table=table[0])
                return "ok " + (str(p) or "_")
            prots, pos = s.translate(complete=False, codon_table=table[0], met_start=(w[2] == "1"))
            return "ok " + (";".join(f"{p}@{int(a)}-{int(b)}" for p, (a, b) in zip(prots, pos)) or "_")
        if op == "c_get":
            if table[0] is None:
                return "ERR:notable"
            return "ok " + table[0][w[1]]
        return "bad-op"

    for line in case["ops"]:
        w = line.split()
        try:
            out.append(do(w))
        except Exception as e:  # noqa: BLE001
            out.append(_err(e))
    return out

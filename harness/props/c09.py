"""C09 — heuristic alignments (align_banded, align_local_gapped, align_local_ungapped) are valid, honestly scored and
never above the optimum.

Ops (grammar in lean/BiotiteModel/Driver/C09.lean); `<head>` =
    <kind b|g|u> <mode s|l> <gap> <a> <b> <k2> <matrix> <band lo:hi|-> <seed i:j|-> <thr|-> <dir b|u|d> <max> <mts|->
  run <head>                    -> ok <score> | ERR:<Exc>       score of the heuristic (model: bandedFill / regionAlign / xdropExtend)
  so  <head>                    -> ok <score> | ERR:<Exc>       the score_only=True call (gapped / ungapped)
  abf <head>                    -> ok <optAffAbutFree> <optAff.semi>   affine semi-global cases: the Lean recursions vs the
                                   independent Python recursion (abutting allowed at free terminal gaps / never)
  chk <head> <score> <traces>   -> ok n=<n> sound=<k> abutfree=<c> distinct=<0|1>   the verified checker `checkResult` on EVERY returned trace;
                                   c = affine semi-global traces whose completion abuts a free terminal gap (class affAbutFree)

The `chk` line carries the ACTUAL output of the heuristic: `run_impl` rewrites it in place before the runner hands
the ops to the Lean driver (same device as C08).
"""
import functools
import os
import re

PROP = "C09"
PROPS_MODULE = "BiotiteModel.Props.C09"
DRIVER_MODULE = "BiotiteModel.Driver.C09"
EXT_MODULES = ["biotite.sequence.align.banded", "biotite.sequence.align.localgapped",
               "biotite.sequence.align.localungapped", "biotite.sequence.align.tracetable",
               "biotite.sequence.align.pairwise"]
GEN_FILES = ["BiotiteModel/Gen/C09.lean"]
RULE = ("seeded sequence pairs as in C08 (length 0-8 quick, a few long ones > INIT_SIZE to reach the table growth; alphabets of "
        "2-5 used symbols, code widths uint8/16/32/64, int matrices in [-6,6] any sign / asymmetric, linear and affine gaps) x "
        "align_banded (bands in any order, partly or wholly outside the table, width 1 .. full; local and semi-global), "
        "align_local_gapped (seeds everywhere incl. borders, thresholds 0 .. cannot-bind, directions both/upstream/downstream, "
        "max_number, max_table_size, score_only) and align_local_ungapped (same seeds/thresholds/directions, score_only), plus "
        "X-drop boundary cases (a mismatch run whose drop equals the threshold +-1 followed by recovery), seeds taken from "
        "an optimal local alignment, and regions engineered to hold the maximum score in several cells reached by traces of "
        "different lengths with max_number in {2,5,50} (every returned alignment checked, pairwise distinct), and long regions whose "
        "table grows to exactly max_table_size +-1 cells (smallest accepted limit must be a possible table size), regions of "
        "length INIT_SIZE-2..+1; an argument-spelling / reuse stream (one set of objects reused for ~20 calls: tuple/list/ndarray/"
        "NumPy-scalar spellings of band, seed, threshold, max_number, max_table_size, flags; strided / read-only codes, F-ordered "
        "matrix; defaults vs documented values; refused calls leave inputs unchanged; a different request in between) and direct "
        "calls of get_global_trace_starts, _extend_table, _seed_extend_generic.  Every call runs in a forked child (CRASH = verdict).  "
        "Each heuristic's score is compared with the executable Lean model (bandedFill / regionAlign / xdropExtend), and every "
        "returned trace goes through the verified checker `checkResult`.  Oracle: validity, rescoring from the trace "
        "(completed by the unaligned ends for semi-global), band / seed / direction containment, score_only equality, "
        "upper bound against an independent recursion and align_optimal, and 'reaches the optimum' for full bands and "
        "non-binding thresholds (exhaustive enumeration of seeded alignments for tiny inputs).  Separate malformed stream "
        "(seed out of range, band without overlap, negative threshold, positive gap, max_table_size too small): only the "
        "exception class is compared.  non-trivial = both sequences non-empty, matrix not constant and no error; distinct = "
        "different (kind, parameters, a, b, matrix)")
TRUSTED = ["numpy np.max/np.where/np.unique/np.flip/np.concatenate in the Python parts modelled by their documented semantics",
           "Alignment.trace rows are handed to the Lean checker as printed integers"]
ASSUMPTIONS = ["NoOverflow: every table entry fits int32; the valid stream reaches the exact bound (entries up to 10^7, threshold up "
               "to 2^31-3-(n+m+2)*max|score|), beyond it the int32 wrap-around is the known finding C09/overflow/int32-wraps",
               "the pseudo -inf of the banded tables and the 0 = invalid convention of the X-drop tables are modelled as `none`",
               "banded affine model: none = -inf wherever the sentinel cannot underflow (max(open,ext)+ext >= min(open,ext)+min(min_score,0)), "
               "the code's concrete sentinel with int32 wrap-around otherwise (known finding)"]
TECHNIQUE = ("Lean 4: verified checker run on every actual output (soundness by induction over alignment columns, upper bound "
             "from the C08 optimality theorems) + proofs on executable models of the band fill / X-drop extension + correspondence")
LEVEL_TEXT = ("theorems: checker soundness for linear AND affine penalties (valid, honest rescoring incl. completion by the "
              "unaligned ends, band containment, seed and direction, no abutting gaps, reported score <= the optimum of the class "
              "the output belongs to: opt (linear), optAff over non-abutting alignments (affine; C08's class, free terminal gaps "
              "count), or - affine semi-global outputs whose completion abuts a free terminal gap, reported as class affAbutFree - "
              "optAffAbutFree, the three-state recursion with the free-border transitions, for which optAff.semi <= optAffAbutFree "
              "<= optSemi(max(open,ext)) is proved and which is compared with an independent recursion on every case); "
              "never-above-optimum for every valid trace in each class (from C08_upper_*); banded model, linear: <= semi-global "
              "optimum for every band and = it for a full band (up to the pair-free alignment); ungapped extension = best prefix; "
              "gapped X-drop region, linear AND affine: when the threshold cannot bind nothing is pruned and the result is the "
              "maximum of the anchored DP table (linear: explicit slack 2(n+m)c); score_only = full score; table growth: "
              "_extend_table preserves every cell, and max_table_size only decides between MemoryError and the unlimited result.  "
              "PARTIAL: 'full band = optAffAbutFree' for affine penalties is proved on witnesses only and otherwise checked on "
              "every full-band case (model vs recursion in the driver, code vs independent recursion in the oracle); that "
              "optAffAbutFree is an upper bound over ALL alignments of its class is not proved (only the sandwich); pruning under "
              "binding thresholds is tied by the correspondence only")
LEVEL_NOTE = ("trusted: Lean kernel, line-protocol driver, generators; int32 = Z under NoOverflow; the banded model works in "
              "classic table coordinates (the straightening j_s = j - i - lower + 1 is an index bijection)")

WIDTH_SIZE = {"u8": None, "u16": 300, "u32": 70000, "u64": None}
HUGE = 10**6


# ---------------------------------------------------------------- translator (Gen)
# ---------------------------------------------------------------- translator, part 2: structural facts of the .pyx sources
def _pyx_function(src, name, fname):
    """text of a top-level `def name(` / `cdef ... name(` up to the next top-level statement"""
    m = re.search(r"^(?:def |cdef [\w .]*?|cpdef [\w .]*?)" + re.escape(name) + r"\(", src, re.M)
    if not m:
        raise ValueError(f"function {name} not found in {fname}")
    rest = src[m.start():]
    skip = m.end() - m.start()
    end = re.search(r"^(?:def |cdef |cpdef |@cython|ctypedef |class )", rest[skip:], re.M)
    return rest[:end.start() + skip] if end else rest


def _strip_doc_comments(text):
    text = re.sub(r'(?s)r?""".*?"""', '', text)
    out = []
    for line in text.split("\n"):
        if "#" in line:
            line = line[:line.index("#")]
        if line.strip():
            out.append(line.rstrip())
    return out


def _logical_lines(text):
    """code lines with continuations joined (backslash / open brackets), all blanks removed"""
    out, cur, depth = [], "", 0
    for line in _strip_doc_comments(text):
        piece = line.strip()
        cont = piece.endswith("\\")
        if cont:
            piece = piece[:-1].strip()
        cur += piece
        depth += sum(piece.count(ch) for ch in "([{") - sum(piece.count(ch) for ch in ")]}")
        if cont or depth > 0:
            continue
        out.append(re.sub(r"\s+", "", cur))
        cur, depth = "", 0
    if cur:
        out.append(re.sub(r"\s+", "", cur))
    return out


def _guards(lines):
    """(condition, exception class) of every `if/elif/else` whose body is a `raise`, in source order"""
    res = []
    for k, ln in enumerate(lines[:-1]):
        m = re.match(r"^(?:if|elif)(.*):$", ln) or (re.match(r"^(else):$", ln))
        nxt = re.match(r"^raise(\w+)\(", lines[k + 1])
        if m and nxt:
            res.append((m.group(1), nxt.group(1)))
    return res


def _signature(src, name, fname):
    """[(parameter, default or '')] of a def in a .pyx (C type prefixes dropped)"""
    m = re.search(r"^def " + re.escape(name) + r"\((.*?)\):", src, re.M | re.S)
    if not m:
        raise ValueError(f"signature of {name} not found in {fname}")
    out = []
    for part in re.sub(r"\s+", " ", m.group(1)).split(","):
        part = part.strip()
        if not part:
            continue
        if "=" in part:
            lhs, dflt = part.split("=", 1)
        else:
            lhs, dflt = part, ""
        out.append((lhs.strip().split(" ")[-1], dflt.strip().replace('"', "'")))
    return out


# facts: name -> (file, function, regex on a logical line (blank-free) with ONE group)
_FACTS = [
    # align_banded
    ("banded.swap_condition", "banded", "align_banded", r"^if(len\(seq2\).{1,2}len\(seq1\)):$"),
    ("banded.swap_band", "banded", "align_banded", r"^band=(\[-diagfordiaginband\])$"),
    ("banded.swap_matrix", "banded", "align_banded", r"^matrix=(matrix\.transpose\(\))$"),
    ("banded.lower_upper", "banded", "align_banded", r"^lower_diag,upper_diag=(.*)$"),
    ("banded.crop_lower", "banded", "align_banded", r"^lower_diag=(max\(.*)$"),
    ("banded.crop_upper", "banded", "align_banded", r"^upper_diag=(min\(.*)$"),
    ("banded.band_width", "banded", "align_banded", r"^band_width=(.*)$"),
    ("banded.table_shape", "banded", "align_banded", r"^trace_table=np\.zeros\((\(.*?\)),dtype"),
    ("banded.neg_inf", "banded", "align_banded", r"^neg_inf=(np\.iinfo.*)$"),
    ("banded.neg_inf_gap", "banded", "align_banded", r"^neg_inf-=(min\(gap_penalty\).*)$"),
    ("banded.neg_inf_score_guard", "banded", "align_banded", r"^if(min_score.*):$"),
    ("banded.border_left", "banded", "align_banded", r"^score_table\[:,0\]=(.*)$"),
    ("banded.border_right", "banded", "align_banded", r"^score_table\[:,-1\]=(.*)$"),
    ("banded.g1_init", "banded", "align_banded", r"^g1_table=np\.full\(\(.*?\),(\w+),"),
    ("banded.g2_init", "banded", "align_banded", r"^g2_table=np\.full\(\(.*?\),(\w+),"),
    ("banded.local_max_affine", "banded", "align_banded", r"^max_score=(np\.max\(m_table\))$"),
    ("banded.local_max_linear", "banded", "align_banded", r"^max_score=(np\.max\(score_table\))$"),
    ("banded.semi_max_affine", "banded", "align_banded", r"^max_score=(max\(m_max_score.*)$"),
    ("banded.cut", "banded", "align_banded", r"^trace_list=(trace_list\[:max_number\])$"),
    ("banded.swapped_result", "banded", "align_banded", r"^return\[Alignment\((\[seq2,seq1\],np\.flip\(trace,axis=1\),max_score)\)"),
    # banded fill, linear
    ("banded.fill.j_lo", "banded", "_fill_align_table", r"^forseq_jinrange\((max\(0,.*?\)),min"),
    ("banded.fill.j_hi", "banded", "_fill_align_table", r"^forseq_jinrange\(max\(0,.*?\),(min\(.*\))\):$"),
    ("banded.fill.j_table", "banded", "_fill_align_table", r"^j=(.*)$"),
    ("banded.fill.from_diag", "banded", "_fill_align_table", r"^from_diag=(.*)$"),
    ("banded.fill.from_left", "banded", "_fill_align_table", r"^from_left=(.*)$"),
    ("banded.fill.from_top", "banded", "_fill_align_table", r"^from_top=(.*)$"),
    ("banded.fill.local_floor", "banded", "_fill_align_table", r"^if(local==Trueand.*):$"),
    # banded fill, affine
    ("banded.aff.mm", "banded", "_fill_align_table_affine", r"^mm_score=(.*)$"),
    ("banded.aff.g1m", "banded", "_fill_align_table_affine", r"^g1m_score=(.*)$"),
    ("banded.aff.g2m", "banded", "_fill_align_table_affine", r"^g2m_score=(.*)$"),
    ("banded.aff.mg1", "banded", "_fill_align_table_affine", r"^mg1_score=(.*)$"),
    ("banded.aff.g1g1", "banded", "_fill_align_table_affine", r"^g1g1_score=(.*)$"),
    ("banded.aff.mg2", "banded", "_fill_align_table_affine", r"^mg2_score=(.*)$"),
    ("banded.aff.g2g2", "banded", "_fill_align_table_affine", r"^g2g2_score=(.*)$"),
    ("banded.aff.local_m", "banded", "_fill_align_table_affine", r"^if(m_score[<>=!]+0):$"),
    ("banded.aff.local_g1", "banded", "_fill_align_table_affine", r"^if(g1_score[<>=!]+0):$"),
    ("banded.aff.local_g2", "banded", "_fill_align_table_affine", r"^if(g2_score[<>=!]+0):$"),
    # trace starts
    ("banded.starts.seq_j", "banded", "get_global_trace_starts", r"^seq_j=(.*)$"),
    ("banded.starts.test", "banded", "get_global_trace_starts", r"^i=np\.where\((seq_j.{1,2}seq2_len),"),
    ("banded.starts.column_row", "banded", "get_global_trace_starts", r",(\(seq2_len-1\)-j-lower_diag\+2)\)$"),
    # align_local_gapped
    ("gapped.no_upstream", "localgapped", "align_local_gapped", r"^if(seq1_start.{1,2}0(?:or|and)seq2_start.{1,2}0):@@upstream=False$"),
    ("gapped.upstream_slices", "localgapped", "align_local_gapped", r"^score,upstream_traces=_align_region\((code1\[.*?\],code2\[.*?\]),"),
    ("gapped.downstream_slices", "localgapped", "align_local_gapped", r"^score,downstream_traces=_align_region\((code1\[.*?\],code2\[.*?\]),"),
    ("gapped.seed_score", "localgapped", "align_local_gapped", r"^total_score\+=(score_matrix\[.*)$"),
    ("gapped.default_mts", "localgapped", "align_local_gapped", r"^max_table_size=(np\.iinfo.*)$"),
    ("gapped.init_size", "localgapped", "_align_region", r"^init_size=(\(.*\))$"),
    ("gapped.init_score", "localgapped", "_align_region", r"^init_score=(.*)$"),
    ("gapped.region_result_score_only", "localgapped", "_align_region", r"^return(max_score.*,None)$"),
    ("gapped.region_result", "localgapped", "_align_region", r"^return(max_score.*,trace_list)$"),
    ("gapped.region_cut", "localgapped", "_align_region", r"^trace_list=(trace_list\[:max_number\])$"),
    # X-drop fill, linear
    ("gapped.fill.k_range", "localgapped", "_fill_align_table", r"^forkinrange\((.*)\):$"),
    ("gapped.fill.i_min", "localgapped", "_fill_align_table", r"^i_min=(_min\(.*)$"),
    ("gapped.fill.i_max", "localgapped", "_fill_align_table", r"^i_max=(_max\(.*)$"),
    ("gapped.fill.i_min_clip", "localgapped", "_fill_align_table", r"^i_min=(_max\(.*)$"),
    ("gapped.fill.i_max_clip", "localgapped", "_fill_align_table", r"^i_max=(_min\(.*)$"),
    ("gapped.fill.stop", "localgapped", "_fill_align_table", r"^if(i_min[<>=!]+i_max):$"),
    ("gapped.fill.j_max", "localgapped", "_fill_align_table", r"^j_max=(.*)$"),
    ("gapped.fill.grow_rows", "localgapped", "_fill_align_table", r"^if(i_max[<>=!]+score_table\.shape\[0\]):$"),
    ("gapped.fill.grow_cols", "localgapped", "_fill_align_table", r"^if(j_max[<>=!]+score_table\.shape\[1\]):$"),
    ("gapped.fill.i_range", "localgapped", "_fill_align_table", r"^foriinrange\((.*)\):$"),
    ("gapped.fill.j", "localgapped", "_fill_align_table", r"^j=(.*)$"),
    ("gapped.fill.diag_valid", "localgapped", "_fill_align_table", r"^if(from_diag[<>=!]+0):$"),
    ("gapped.fill.from_diag", "localgapped", "_fill_align_table", r"^from_diag\+=(.*)$"),
    ("gapped.fill.from_top", "localgapped", "_fill_align_table", r"^from_top=(score_table.*)$"),
    ("gapped.fill.from_left", "localgapped", "_fill_align_table", r"^from_left=(score_table.*)$"),
    ("gapped.fill.score_only", "localgapped", "_fill_align_table", r"^score=(_max\(.*)$"),
    ("gapped.fill.new_max", "localgapped", "_fill_align_table", r"^if(score[<>=!]+max_score):$"),
    ("gapped.fill.req_score", "localgapped", "_fill_align_table", r"^req_score=(.*)$"),
    # X-drop fill, affine
    ("gapped.aff.mm_valid", "localgapped", "_fill_align_table_affine", r"^if(mm_score[<>=!]+0):$"),
    ("gapped.aff.mg1", "localgapped", "_fill_align_table_affine", r"^mg1_score=(m_table.*)$"),
    ("gapped.aff.g1g1", "localgapped", "_fill_align_table_affine", r"^g1g1_score=(g1_table.*)$"),
    ("gapped.aff.mg2", "localgapped", "_fill_align_table_affine", r"^mg2_score=(m_table.*)$"),
    ("gapped.aff.g2g2", "localgapped", "_fill_align_table_affine", r"^g2g2_score=(g2_table.*)$"),
    ("gapped.aff.accept_m", "localgapped", "_fill_align_table_affine", r"^if(m_score[<>=!]+req_score):$"),
    ("gapped.aff.accept_g1", "localgapped", "_fill_align_table_affine", r"^if(g1_score[<>=!]+req_score):$"),
    ("gapped.aff.accept_g2", "localgapped", "_fill_align_table_affine", r"^if(g2_score[<>=!]+req_score):$"),
    ("gapped.aff.result", "localgapped", "_align_region", r"^max_score=(np\.max\(m_table\))$"),
    # align_local_ungapped
    ("ungapped.upstream_condition", "localungapped", "align_local_ungapped", r"^if(upstream(?:and|or).*):$"),
    ("ungapped.upstream_slices", "localungapped", "align_local_ungapped", r"^score,length=_seed_extend_generic\((code1\[seq1_start-1.*?\],code2\[.*?\]),"),
    ("ungapped.downstream_slices", "localungapped", "align_local_ungapped", r"^score,length=_seed_extend_generic\((code1\[seq1_start\+1.*?\],code2\[.*?\]),"),
    ("ungapped.seed_score", "localungapped", "align_local_ungapped", r"^total_score\+=(score_matrix\[.*)$"),
    ("ungapped.start_offset", "localungapped", "align_local_ungapped", r"^start_offset-=(.*)$"),
    ("ungapped.stop_offset", "localungapped", "align_local_ungapped", r"^stop_offset\+=(.*)$"),
    ("ungapped.trace_rows", "localungapped", "align_local_ungapped", r"^trace=np\.stack\(\[(np\.arange\(.*?\),np\.arange\(.*?\))\],"),
    ("ungapped.extend.domain", "localungapped", "_seed_extend_generic", r"^foriinrange\((.*)\):$"),
    ("ungapped.extend.step", "localungapped", "_seed_extend_generic", r"^total_score\+=(.*)$"),
    ("ungapped.extend.result", "localungapped", "_seed_extend_generic", r"^return(max_score,.*)$"),
    ("ungapped.extend.init", "localungapped", "_seed_extend_generic", r"^cdefinti_max_score=(.*)$"),
    # _extend_table
    ("gapped.extend.rows", "localgapped", "_extend_table", r"^new_shape=(\(table\.shape\[0\]\*2,table\.shape\[1\]\))$"),
    ("gapped.extend.cols", "localgapped", "_extend_table", r"^new_shape=(\(table\.shape\[0\],table\.shape\[1\]\*2\))$"),
    ("gapped.extend.copy", "localgapped", "_extend_table", r"^new_table\[(:table\.shape\[0\],:table\.shape\[1\])\]=table$"),
]


def extract_facts():
    from common import paths
    base = os.path.join(paths.SRC, "biotite/sequence/align")
    srcs = {f: open(os.path.join(base, f + ".pyx")).read() for f in ("banded", "localgapped", "localungapped")}
    lines = {}
    facts = []
    for name, f, fn, pat in _FACTS:
        if (f, fn) not in lines:
            lines[(f, fn)] = _logical_lines(_pyx_function(srcs[f], fn, f + ".pyx"))
        hit = None
        ll = lines[(f, fn)]
        for k_, ln in enumerate(ll):
            # a pattern containing "@@" is matched against a line together with its successor
            text = ln + "@@" + (ll[k_ + 1] if k_ + 1 < len(ll) else "") if "@@" in pat else ln
            mm = re.search(pat, text)
            if mm:
                hit = mm.group(1)
                break
        if hit is None:
            raise ValueError(f"{f}.pyx {fn}: construct for '{name}' not found (pattern {pat})")
        facts.append((name, hit))
    # the decision trees of tracetable.pyx: every test and every assigned maximum, in source order
    tt = open(os.path.join(base, "tracetable.pyx")).read()
    for fn in ("get_trace_linear", "get_trace_affine"):
        ll = _logical_lines(_pyx_function(tt, fn, "tracetable.pyx"))
        conds = [mm.group(1) for ln in ll for mm in [re.match(r"^(?:if|elif)(.*):$", ln)] if mm]
        assigns = [mm.group(1) + "=" + mm.group(2) for ln in ll for mm in [re.match(r"^(max_\w+)\[0\]=(\w+)$", ln)] if mm]
        if not conds or not assigns:
            raise ValueError(f"tracetable.pyx {fn}: decision tree not found")
        facts.append((f"trace.{fn}.tests", ";".join(conds)))
        facts.append((f"trace.{fn}.maxima", ";".join(assigns)))
    guards = {}
    sigs = {}
    for f, fn in (("banded", "align_banded"), ("localgapped", "align_local_gapped"), ("localungapped", "align_local_ungapped"),
                  ("localgapped", "_extend_table")):
        key = (f, fn)
        if key not in lines:
            lines[key] = _logical_lines(_pyx_function(srcs[f], fn, f + ".pyx"))
        guards[fn] = _guards(lines[key])
        if not fn.startswith("_"):
            sigs[fn] = _signature(srcs[f], fn, f + ".pyx")
    return facts, guards, sigs


def gen_lean():
    from common import paths
    base = os.path.join(paths.SRC, "biotite/sequence/align")
    lg = open(os.path.join(base, "localgapped.pyx")).read()
    m = re.search(r"^cdef int INIT_SIZE\s*=\s*(\d+)", lg, re.M)
    if not m:
        raise ValueError("INIT_SIZE not found in localgapped.pyx")
    init_size = int(m.group(1))
    m = re.search(r"init_score\s*=\s*threshold\s*\+\s*(\d+)", lg)
    if not m:
        raise ValueError("init_score = threshold + k not found in localgapped.pyx")
    init_off = int(m.group(1))
    # growth factor of _extend_table
    fac = re.findall(r"table\.shape\[[01]\]\s*\*\s*(\d+)", lg)
    if len(fac) != 2 or len(set(fac)) != 1:
        raise ValueError("_extend_table growth factors not found in localgapped.pyx")
    # guards of the three public functions (comparison operator as written)
    def guard(src, pat, what):
        mm = re.search(pat, src)
        if not mm:
            raise ValueError(what + " not found")
        return mm.group(1)
    bd = open(os.path.join(base, "banded.pyx")).read()
    ug = open(os.path.join(base, "localungapped.pyx")).read()
    g_b = guard(bd, r"if gap_penalty (>=|>) 0:", "banded linear gap guard")
    g_g = guard(lg, r"if gap_penalty (>=|>) 0:", "gapped linear gap guard")
    t_g = guard(lg, r"if threshold (<=|<) 0:", "gapped threshold guard")
    t_u = guard(ug, r"if threshold (<=|<) 0:", "ungapped threshold guard")
    x_g = guard(lg, r"if score (>=|>) req_score:", "gapped X-drop acceptance test")
    x_u = guard(ug, r"elif max_score - total_score (>=|>) threshold:", "ungapped X-drop test")
    k_u = guard(ug, r"if total_score (>=|>) max_score:", "ungapped max tracking test")
    l_g = guard(lg, r"if new_shape\[0\] \* new_shape\[1\] (>=|>) max_size:", "_extend_table size limit test")
    body = ["/- REGENERATED on every run by harness/props/c09.py from sequence/align/{banded,localgapped,localungapped}.pyx. Do not edit. -/",
            "namespace BiotiteModel.Gen.C09",
            "/-- `INIT_SIZE` of localgapped.pyx -/",
            f"def initSize : Nat := {init_size}",
            "/-- `init_score = threshold + initOffset` -/",
            f"def initOffset : Nat := {init_off}",
            "/-- growth factor of `_extend_table` -/",
            f"def growFactor : Nat := {fac[0]}",
            "/-- comparison operators of the guards, as written in the source -/",
            f'def bandedGapGuard : String := "{g_b}"',
            f'def gappedGapGuard : String := "{g_g}"',
            f'def gappedThresholdGuard : String := "{t_g}"',
            f'def ungappedThresholdGuard : String := "{t_u}"',
            f'def gappedAccept : String := "{x_g}"',
            f'def ungappedDrop : String := "{x_u}"',
            f'def ungappedKeep : String := "{k_u}"',
            "/-- `_extend_table`: MemoryError iff new_rows * new_cols <op> max_size -/",
            f'def extendLimit : String := "{l_g}"']
    facts, guards, sigs = extract_facts()

    def pairs(items):
        return "[" + ",\n    ".join(f'("{a}", "{b}")' for a, b in items) + "]"
    for v in [x for _, x in facts] + [x for g in guards.values() for p_ in g for x in p_] + \
            [x for g in sigs.values() for p_ in g for x in p_]:
        if chr(34) in v or chr(92) in v:
            raise ValueError("extracted source text contains a quote / backslash: " + v)
    body += ["/-- structural facts of `align_banded`, its fill functions and `get_global_trace_starts` (blank-free source text) -/",
             "def bandedFacts : List (String × String) :=\n    " + pairs([f for f in facts if f[0].startswith("banded.")]),
             "/-- structural facts of `align_local_gapped`, `_align_region`, the X-drop fills and `_extend_table` -/",
             "def gappedFacts : List (String × String) :=\n    " + pairs([f for f in facts if f[0].startswith("gapped.")]),
             "/-- structural facts of `align_local_ungapped` and `_seed_extend_generic` -/",
             "def ungappedFacts : List (String × String) :=\n    " + pairs([f for f in facts if f[0].startswith("ungapped.")]),
             "/-- tracetable.pyx: tests and assigned maxima of `get_trace_linear` / `get_trace_affine` in source order -/",
             "def traceFacts : List (String × String) :=\n    " + pairs([f for f in facts if f[0].startswith("trace.")]),
             "/-- every `if … : raise X` of the public functions in source order: (condition, exception class) -/"]
    for fn, g in guards.items():
        body.append(f"def guards_{fn.strip('_')} : List (String × String) :=\n    " + pairs(g))
    body.append("/-- parameters and default values of the public functions -/")
    for fn, g in sigs.items():
        body.append(f"def signature_{fn} : List (String × String) :=\n    " + pairs(g))
    body += ["end BiotiteModel.Gen.C09", ""]
    return {"BiotiteModel/Gen/C09.lean": "\n".join(body)}


# ---------------------------------------------------------------- protocol helpers
def _ints(xs):
    return ",".join(str(int(x)) for x in xs) if len(xs) else "_"


def _gap_s(gap):
    return f"L:{gap[0]}" if len(gap) == 1 else f"A:{gap[0]}:{gap[1]}"


def _trace_s(rows):
    return ";".join(f"{int(i)}:{int(j)}" for i, j in rows) if len(rows) else "_"


def _head(c):
    flat = [x for row in c["M"] for x in row]
    kind = c["kind"][0]
    mode = "l" if (kind != "b" or c.get("local")) else "s"
    band = f"{c['band'][0]}:{c['band'][1]}" if kind == "b" else "-"
    seed = f"{c['seed'][0]}:{c['seed'][1]}" if kind != "b" else "-"
    thr = str(c["thr"]) if kind != "b" else "-"
    d = c.get("dir", "both")[0]
    mts = str(c["mts"]) if c.get("mts") is not None else "-"
    return (f"{kind} {mode} {_gap_s(c['gap'])} {_ints(c['a'])} {_ints(c['b'])} {len(c['M'][0])} {_ints(flat)} "
            f"{band} {seed} {thr} {d} {c.get('max', 1)} {mts}")


def _ops(c):
    ops = [f"run {_head(c)}"]
    if c["kind"] != "banded":
        ops.append(f"so {_head(c)}")
    if c["kind"] == "banded" and not c.get("local") and len(c["gap"]) == 2 and c["a"] and c["b"] \
            and all(g <= 0 for g in c["gap"]):
        ops.append(f"abf {_head(c)}")
    ops.append(f"chk {_head(c)} 0 -")
    return ops


# ---------------------------------------------------------------- implementation adapter
@functools.lru_cache(maxsize=None)
def _alphabet(size, kind):
    import biotite.sequence as seq
    if kind == "chr":
        return seq.Alphabet([f"s{i}" for i in range(size)])
    return seq.Alphabet(range(size))


def _build(c):
    import numpy as np
    import biotite.sequence as seq
    import biotite.sequence.align as align
    k1, k2 = len(c["M"]), len(c["M"][0])
    s1 = WIDTH_SIZE[c.get("w1", "u8")] or k1
    s2 = WIDTH_SIZE[c.get("w2", "u8")] or k2
    al1 = _alphabet(s1, "int")
    al2 = _alphabet(s2, "chr")
    big = np.zeros((s1, s2), dtype=np.int32)
    big[:k1, :k2] = np.array(c["M"], dtype=np.int64)
    if s1 > k1 or s2 > k2:
        big[k1:, :] = c["M"][0][0]
        big[:, k2:] = c["M"][0][0]
    matrix = align.SubstitutionMatrix(al1, al2, big)
    seqs = []
    for codes, al, w in ((c["a"], al1, c.get("w1", "u8")), (c["b"], al2, c.get("w2", "u8"))):
        s = seq.GeneralSequence(al)
        s.code = np.array(codes, dtype=np.int64)
        if w == "u64":
            s._seq_code = np.array(codes, dtype=np.uint64)
        seqs.append(s)
    return seqs[0], seqs[1], matrix


def _pygap(gap):
    return int(gap[0]) if len(gap) == 1 else (int(gap[0]), int(gap[1]))


def _call(c, score_only=False, built=None):
    """the real heuristic; returns a list of Alignment (or an int for score_only)"""
    import biotite.sequence.align as align
    s1, s2, matrix = built if built is not None else _build(c)
    k = c["kind"]
    if k == "banded":
        return align.align_banded(s1, s2, matrix, tuple(c["band"]), gap_penalty=_pygap(c["gap"]),
                                  local=bool(c.get("local")), max_number=c.get("max", 1))
    if k == "gapped":
        return align.align_local_gapped(s1, s2, matrix, tuple(c["seed"]), c["thr"], gap_penalty=_pygap(c["gap"]),
                                        max_number=c.get("max", 1), direction=c.get("dir", "both"),
                                        score_only=score_only, max_table_size=c.get("mts"))
    r = align.align_local_ungapped(s1, s2, matrix, tuple(c["seed"]), c["thr"], direction=c.get("dir", "both"),
                                   score_only=score_only)
    return r if score_only else [r]


_CACHE = {}
_SIDE = {}


def _warm(c):
    """build the (large) alphabets in the parent so that forked children inherit them"""
    k1, k2 = len(c["M"]), len(c["M"][0])
    _alphabet(WIDTH_SIZE[c.get("w1", "u8")] or k1, "int")
    _alphabet(WIDTH_SIZE[c.get("w2", "u8")] or k2, "chr")


def _side_checks(c, s1, s2, matrix, snap, res):
    """facts about the returned objects and the inputs that the canonical (score, trace) form does not show"""
    import numpy as np
    out = []
    if not (np.array_equal(s1.code, snap[0]) and np.array_equal(s2.code, snap[1])
            and np.array_equal(matrix.score_matrix(), snap[2])):
        out.append(("inputs-modified", "the call changed a sequence code or the substitution matrix"))
    if isinstance(res, list):
        for x in res:
            if not (len(x.sequences) == 2 and x.sequences[0] is s1 and x.sequences[1] is s2):
                out.append(("sequences-orientation", "Alignment.sequences is not [seq1, seq2] of the call"))
                break
        for i in range(len(res)):
            for j in range(i + 1, len(res)):
                if res[i].trace.size and res[j].trace.size and np.shares_memory(res[i].trace, res[j].trace):
                    out.append(("traces-share-memory", f"returned traces {i} and {j} share memory"))
                    break
            else:
                continue
            break
    return out


def _call_safe(c, score_only=False):
    """Every call into the compiled extensions runs in a forked child (boundscheck(False) Cython fed with generated
    indices / sizes): a dead or hanging child becomes the verdict CRASH for this case, never a dead check.  Results are
    cached per case so that run_impl and the oracle share one execution."""
    base = (signature(c), c.get("w1"), c.get("w2"))
    key = (signature(c), bool(score_only), c.get("w1"), c.get("w2"))
    _warm(c)
    if key not in _CACHE:
        from common import sandbox
        both = c["kind"] != "banded"          # one child computes the full call and the score_only call

        def f():
            import biotite.sequence.align as align  # noqa: F401
            out = {}
            for so in ((False, True) if both else (bool(score_only),)):
                s1, s2, matrix = _build(c)
                snap = (s1.code.copy(), s2.code.copy(), matrix.score_matrix().copy())
                try:
                    r = _call(c, so, built=(s1, s2, matrix))
                except Exception as e:  # noqa: BLE001
                    # a refused call changes nothing
                    out[so] = ("err", type(e).__name__, _side_checks(c, s1, s2, matrix, snap, None))
                    continue
                side = _side_checks(c, s1, s2, matrix, snap, r)
                out[so] = ("ok", int(r) if so else [(int(x.score), x.trace.tolist()) for x in r], side)
            return out
        r = sandbox.run_forked(f, timeout=120)
        if len(_CACHE) > 4000:
            _CACHE.clear()
            _SIDE.clear()
        for so in ((False, True) if both else (bool(score_only),)):
            k2 = (base[0], so, base[1], base[2])
            if r[0] == "ok":
                st, val, side = r[1][so]
                _CACHE[k2] = (st, val)
                _SIDE[k2] = side
            elif r[0] == "err":
                _CACHE[k2] = ("err", r[1])
            else:
                _CACHE[k2] = ("err", "CRASH")
    st, val = _CACHE[key]
    if st == "ok":
        return val
    raise _Remote(val)


class _Remote(Exception):
    pass


def _err(e):
    if isinstance(e, _Remote):
        s = str(e.args[0])
        return "CRASH" if s == "CRASH" else "ERR:" + s
    return "ERR:" + type(e).__name__


def run_impl(case):
    c = case
    out = []
    res = None
    try:
        res = _call_safe(c)
    except Exception as e:  # noqa: BLE001
        out.append(_err(e))
    if res is not None:
        scores = sorted({s for s, _ in res})
        out.append("ok " + (",".join(map(str, scores)) if scores else "none"))
    if c["kind"] != "banded":
        try:
            out.append(f"ok {_call_safe(c, score_only=True)}")
        except Exception as e:  # noqa: BLE001
            out.append(_err(e))
    if any(o.startswith("abf ") for o in case["ops"]):
        # specification values, independent of the code under test: the abutting-allowed optimum and C08's optimum
        out.append(f"ok {rec_opt('s', c['a'], c['b'], c['M'], c['gap'], relaxed=True)} "
                   f"{rec_opt('s', c['a'], c['b'], c['M'], c['gap'])}")
    if res is not None:
        sc = res[0][0] if res else 0
        tr_s = "/".join(_trace_s(t) for _, t in res) if res else "-"
        case["ops"][-1] = f"chk {_head(c)} {sc} {tr_s}"
        # every returned trace must pass the verified checker, except the ones that show a known finding
        # (the checker rejects those: their score is not the score of the returned trace)
        k = sum(1 for _, t in res
                if not (neg_inf_underflow(c, sc) or leading_gap_artifact(c, [(int(i), int(j)) for i, j in t], sc)))
        n_, m_ = len(c["a"]), len(c["b"])
        ab = 0
        if c["kind"] == "banded" and not c.get("local") and len(c["gap"]) == 2:
            for _, t in res:
                rows = [(int(i), int(j)) for i, j in t]
                if not check_trace(rows, n_, m_) and not no_abut(complete(rows, n_, m_)):
                    ab += 1
        out.append(f"ok n={len(res)} sound={k} abutfree={ab} distinct=1")
    else:
        out.append(out[0])
    return out


# ---------------------------------------------------------------- property oracle (independent of the Lean model)
def doc_score(rows, Mx, a, b, go, ge, tp):
    """documented scoring model (see c08.py): pairs + gap-open for the first gap of a run per sequence + gap-ext after;
    tp=False: gap columns before both sequences have started / after one has ended are free."""
    s = sum(Mx[a[i]][b[j]] for i, j in rows if i >= 0 and j >= 0)
    lo, hi = 0, len(rows)
    if not tp:
        pa = [k for k, (i, _) in enumerate(rows) if i >= 0]
        pb = [k for k, (_, j) in enumerate(rows) if j >= 0]
        if not pa or not pb:
            return s
        lo, hi = max(pa[0], pb[0]), min(pa[-1], pb[-1]) + 1
    for side in (0, 1):
        run = False
        for k in range(lo, hi):
            if rows[k][side] < 0:
                s += ge if run else go
                run = True
            else:
                run = False
    return s


def check_trace(rows, n, m):
    """contiguous, order preserving, inside the sequences; error string or None"""
    for i, j in rows:
        if i == -1 and j == -1:
            return "column of two gaps"
        if i < -1 or j < -1 or i >= n or j >= m:
            return "index out of range"
    for side, nm in ((0, "first"), (1, "second")):
        xs = [r[side] for r in rows if r[side] != -1]
        if any(y != x + 1 for x, y in zip(xs, xs[1:])):
            return f"{nm} sequence not contiguous / ordered"
    return None


def complete(rows, n, m):
    """the trace completed by the unaligned sequence ends (semi-global results)"""
    ia = [i for i, _ in rows if i != -1]
    jb = [j for _, j in rows if j != -1]
    # position in front of the trace: first index of each sequence that occurs; a sequence without any symbol in
    # the trace contributes its whole length behind the trace
    i0 = ia[0] if ia else 0
    j0 = jb[0] if jb else 0
    i1 = ia[-1] + 1 if ia else 0
    j1 = jb[-1] + 1 if jb else 0
    return ([(i, -1) for i in range(i0)] + [(-1, j) for j in range(j0)] + list(rows)
            + [(i, -1) for i in range(i1, n)] + [(-1, j) for j in range(j1, m)])


def no_abut(rows):
    """no gap in one sequence directly next to a gap in the other"""
    for (i1, j1), (i2, j2) in zip(rows, rows[1:]):
        if (i1 < 0 <= j1 and j2 < 0 <= i2) or (j1 < 0 <= i1 and i2 < 0 <= j2):
            return False
    return True


def rec_opt(mode, a, b, Mx, gap, need_pair=False, relaxed=False):
    """independent memoised recursion over suffixes: optimum of the unrestricted problem ('s' semi-global, 'l' local).
    need_pair: only alignments that pair at least one position (None if there is none).
    Affine penalties: a gap in one sequence never directly abuts a gap in the other (the C08 domain, what
    align_optimal explores); relaxed=True lifts that restriction where one of the two gaps is a free terminal gap
    (an unaligned end is not a gap of the alignment proper) - the domain align_banded explores."""
    affine = len(gap) == 2
    go, ge = gap[0], gap[-1]
    n, m = len(a), len(b)
    import sys
    sys.setrecursionlimit(100000)
    NEG = -10**15

    @functools.lru_cache(maxsize=None)
    def best(i, j, last, paired):
        if mode == "l":
            cands = [0 if (paired or not need_pair) else NEG]
        elif i == n and j == m:
            return 0 if (paired or not need_pair) else NEG
        else:
            cands = []
        if i < n and j < m:
            cands.append(Mx[a[i]][b[j]] + best(i + 1, j + 1, 0, True))
        free_a = mode == "s" and (i == 0 or i == n)      # a gap column in the first sequence is free here
        free_b = mode == "s" and (j == 0 or j == m)
        lift = relaxed and (free_a or free_b)
        if j < m and (not (affine and last == 2) or lift):
            cands.append((0 if free_a else (ge if last == 1 else go)) + best(i, j + 1, 1, paired))
        if i < n and (not (affine and last == 1) or lift):
            cands.append((0 if free_b else (ge if last == 2 else go)) + best(i + 1, j, 2, paired))
        return max(cands) if cands else NEG
    if mode == "l":
        v = max(best(i, j, 0, False) for i in range(n + 1) for j in range(m + 1))
    else:
        v = best(0, 0, 0, False)
    return None if v < NEG // 2 else v


def region_opt(x, y, Mx, gap, flip=False):
    """best score of an alignment of a prefix of x with a prefix of y (both anchored at position 0, possibly empty):
    what an X-drop extension with a threshold that cannot bind must find.  flip: Mx is indexed [x][y] either way."""
    affine = len(gap) == 2
    go, ge = gap[0], gap[-1]
    n, m = len(x), len(y)
    NEG = -10**15
    # forward DP, three states, written out plainly
    Mt = [[NEG] * (m + 1) for _ in range(n + 1)]
    G1 = [[NEG] * (m + 1) for _ in range(n + 1)]
    G2 = [[NEG] * (m + 1) for _ in range(n + 1)]
    Mt[0][0] = 0
    best = 0
    for i in range(n + 1):
        for j in range(m + 1):
            if i and j:
                prev = max(Mt[i - 1][j - 1], G1[i - 1][j - 1], G2[i - 1][j - 1])
                if prev > NEG // 2:
                    Mt[i][j] = prev + Mx[x[i - 1]][y[j - 1]]
            if j:
                c = [Mt[i][j - 1] + go, G1[i][j - 1] + ge] + ([] if affine else [G2[i][j - 1] + go])
                G1[i][j] = max(G1[i][j], max(c))
            if i:
                c = [Mt[i - 1][j] + go, G2[i - 1][j] + ge] + ([] if affine else [G1[i - 1][j] + go])
                G2[i][j] = max(G2[i][j], max(c))
            best = max(best, Mt[i][j])
    return best


def _all_seeded(a, b, Mx, gap, seed, direction):
    """exhaustive: best score over ALL alignments containing the seed pair and extending only in `direction`
    (tiny inputs); every alignment is enumerated column by column and scored by doc_score."""
    from itertools import product
    affine = len(gap) == 2
    go, ge = gap[0], gap[-1]
    si, sj = seed

    def paths(n, m):
        out = []

        def rec(i, j, acc, last):
            out.append(tuple(acc))       # every prefix end is a candidate (extension may stop anywhere)
            if i < n and j < m:
                acc.append((i, j)); rec(i + 1, j + 1, acc, 0); acc.pop()
            if j < m and not (affine and last == 2):
                acc.append((-1, j)); rec(i, j + 1, acc, 1); acc.pop()
            if i < n and not (affine and last == 1):
                acc.append((i, -1)); rec(i + 1, j, acc, 2); acc.pop()
        rec(0, 0, [], 0)
        return out
    ups = [()]
    downs = [()]
    if direction in ("both", "upstream") and si > 0 and sj > 0:
        # upstream region: reversed prefixes, mapped back
        ups = []
        for p in paths(si, sj):
            ups.append(tuple((si - 1 - i if i >= 0 else -1, sj - 1 - j if j >= 0 else -1) for i, j in reversed(p)))
    if direction in ("both", "downstream"):
        downs = []
        for p in paths(len(a) - si - 1, len(b) - sj - 1):
            downs.append(tuple((si + 1 + i if i >= 0 else -1, sj + 1 + j if j >= 0 else -1) for i, j in p))
    best = None
    for u, d in product(ups, downs):
        rows = list(u) + [(si, sj)] + list(d)
        v = doc_score(rows, Mx, a, b, go, ge, True)
        if best is None or v > best:
            best = v
    return best


def cannot_bind(c):
    """a threshold that can never stop the extension: above the largest possible drop"""
    mx = max(abs(x) for r in c["M"] for x in r)
    g = max(abs(x) for x in c["gap"])
    return c["thr"] > (len(c["a"]) + len(c["b"]) + 2) * max(mx, g)


def oracle(case):
    try:
        return _oracle(case)
    except _Unexpected as e:
        return [("C09/oracle/unexpected-exception", f"{e}; {_brief(case)}")]


def _oracle(case):
    c = case
    k = c.get("kind")
    if k not in ("banded", "gapped", "ungapped"):
        return []
    if c.get("internal"):
        return _internal_oracle(c)
    if c.get("variants"):
        return _variants_oracle(c)
    a, b, Mx, gap = c["a"], c["b"], c["M"], c["gap"]
    n, m = len(a), len(b)
    go, ge = gap[0], gap[-1]
    local = (k != "banded") or bool(c.get("local"))
    mode = "l" if local else "s"
    tag = f"C09/{k}/{'local' if local else 'semiglobal'}/{'linear' if len(gap) == 1 else 'affine'}"
    if k == "ungapped":
        tag = "C09/ungapped"
    v = []
    malformed = _malformed(c)
    try:
        res = _call_safe(c)
    except Exception as e:  # noqa: BLE001
        name = _err(e)
        side = [(f"C09/{k}/refused-call/{what}", f"{msg} although the call raised {name}; {_brief(c)}")
                for what, msg in _SIDE.get((signature(c), False, c.get("w1"), c.get("w2")), [])]
        if side:
            return side
        if malformed == "mts" and name == "ERR:MemoryError" and c["mts"] > 0:
            return _mts_oracle(c)
        if malformed == "mts" and (name == "ERR:MemoryError") != (c["mts"] > 0) and name != "CRASH":
            return [(f"C09/{k}/malformed/mts/wrong-exception",
                     f"max_table_size={c['mts']} refused with {name} (documented: ValueError for <= 0, MemoryError when exceeded); {_brief(c)}")]
        if c.get("overflow"):
            # beyond int32: an OverflowError is a clean refusal; anything else is part of the int32 finding
            return [] if name == "ERR:OverflowError" else [(KEY_OVERFLOW, f"{k} raised {name} at the int32 bound; {_brief(c)}")]
        if malformed:
            if name == "CRASH":
                return [(f"C09/{k}/malformed/{malformed}/crash", f"{k} crashed on malformed input {malformed}: {_brief(c)}")]
            want = EXPECTED_REFUSAL.get(malformed)
            if want is not None and name not in want:
                return [(f"C09/{k}/malformed/{malformed}/wrong-exception",
                         f"{k} refused malformed input ({malformed}) with {name}, documented: {' / '.join(want)}; {_brief(c)}")]
            return []           # refused as documented: all the property asks for
        return [(tag + "/raises-" + name.replace("ERR:", ""), f"{k} raised {name} on valid input {_brief(c)}")]
    if malformed and malformed in MUST_REFUSE and not (malformed == "mts" and c["mts"] > 0):
        # a call the documented contract refuses was accepted silently
        return [(f"C09/{k}/malformed/{malformed}/accepted",
                 f"{k} accepted malformed input ({malformed}) and returned {str(res)[:120]}; {_brief(c)}")]
    if not res:
        return [(tag + "/no-alignment", f"empty result list: {_brief(c)}")]
    for what, msg in _SIDE.get((signature(c), False, c.get("w1"), c.get("w2")), []):
        v.append((f"C09/{k}/{what}", f"{msg}; {_brief(c)}"))
    if malformed == "mts" and c["mts"] > 0:
        try:
            free = _call_safe(dict(c, mts=None))
            if sorted(map(str, free)) != sorted(map(str, res)):
                v.append(("C09/gapped/max_table_size/limited-result-differs",
                          f"result with max_table_size={c['mts']} differs from the unlimited result; {_brief(c)}"))
        except Exception as e:  # noqa: BLE001
            v.append(("C09/gapped/max_table_size/unlimited-raises", f"unlimited call raised {_err(e)}; {_brief(c)}"))
    scores = {s for s, _ in res}
    if len(scores) != 1:
        v.append((tag + "/scores-differ", f"returned alignments carry different scores {sorted(scores)}: {_brief(c)}"))
    sc = res[0][0]
    if len(res) > c.get("max", 1):
        v.append((tag + "/more-than-max_number", f"{len(res)} alignments for max_number={c.get('max', 1)}: {_brief(c)}"))
    for _, t in res:
        rows = [(int(i), int(j)) for i, j in t]
        why = check_trace(rows, n, m)
        if why:
            v.append((tag + "/invalid-trace", f"trace {rows}: {why}; {_brief(c)}"))
            continue
        full = rows if local else complete(rows, n, m)
        mine = doc_score(full, Mx, a, b, go, ge, local)
        if mine != sc:
            v.append((tag + "/rescore-mismatch",
                      f"reported {sc} but the trace {rows}{'' if local else ' (completed by the unaligned ends)'} "
                      f"scores {mine}; {_brief(c)}"))
        if k == "banded":
            lo, hi = min(c["band"]), max(c["band"])
            bad = [(i, j) for i, j in rows if i >= 0 and j >= 0 and not (lo <= j - i <= hi)]
            if bad:
                v.append((tag + "/outside-band", f"paired positions {bad} outside the band {c['band']}; {_brief(c)}"))
        else:
            seed = tuple(c["seed"])
            if seed not in rows:
                v.append((tag + "/seed-missing", f"trace {rows} does not contain the seed {seed}; {_brief(c)}"))
            else:
                d = c.get("dir", "both")
                if d == "upstream" and rows[-1] != seed:
                    v.append((tag + "/direction", f"upstream result extends behind the seed: {rows}; {_brief(c)}"))
                if d == "downstream" and rows[0] != seed:
                    v.append((tag + "/direction", f"downstream result starts before the seed: {rows}; {_brief(c)}"))
            if k == "ungapped" and any(i < 0 or j < 0 for i, j in rows):
                v.append((tag + "/gap-in-ungapped", f"ungapped result contains a gap: {rows}"))
    if k != "banded":
        ne = [tuple(map(tuple, t)) for _, t in res if len(t)]
        if len(set(ne)) != len(ne):
            v.append((tag + "/duplicate-traces", f"returned alignments are not pairwise distinct; {_brief(c)}"))
    # score_only
    if k != "banded":
        try:
            so = _call_safe(c, score_only=True)
            if so != sc:
                v.append((tag + "/score-only-differs", f"score_only gives {so}, the full call {sc}; {_brief(c)}"))
        except Exception as e:  # noqa: BLE001
            v.append((tag + "/score-only-raises", f"score_only raised {_err(e)}; {_brief(c)}"))
    # never above the optimum of the unrestricted problem
    if n * m <= 26000:
        ug = gap if k != "ungapped" else [min(-1, -max(abs(x) for r in Mx for x in r) * (n + m + 1))]
        semi_aff = (mode == "s" and len(gap) == 2)
        best = rec_opt(mode, a, b, Mx, ug, relaxed=semi_aff)
        if k == "ungapped":
            # ungapped results are local alignments under every gap penalty: compare with the strictest one that
            # is still a local optimum, and with a mild one
            best = min(best, rec_opt("l", a, b, Mx, [-1]))
        if semi_aff:
            # two classes (adjudicated with C08): a result whose completed alignment has no abutting gaps (free
            # terminal gaps count) is bounded by C08's optimum = align_optimal; one that abuts a free terminal gap is
            # outside that class and is bounded by the abutting-allowed optimum (exact, by this recursion)
            strict = rec_opt("s", a, b, Mx, gap)
            ref = _align_optimal_score(c, "s", gap)
            for _, t in res:
                rows = [(int(i), int(j)) for i, j in t]
                if check_trace(rows, n, m) or leading_gap_artifact(c, rows, sc):
                    continue        # invalid / known-finding traces are reported by the rescoring clause
                if no_abut(complete(rows, n, m)):
                    if sc > strict:
                        v.append((tag + "/above-optimum", f"reported {sc} > optimum {strict} over non-abutting alignments although the "
                                  f"completed trace {rows} has no abutting gaps; {_brief(c)}"))
                    if ref is not None and sc > ref:
                        v.append((tag + "/above-align_optimal", f"reported {sc} > align_optimal {ref}, completed trace {rows} has no "
                                  f"abutting gaps; {_brief(c)}"))
                elif sc > best:
                    v.append((tag + "/above-optimum", f"reported {sc} > abutting-allowed optimum {best}; trace {rows}; {_brief(c)}"))
        else:
            if sc > best:
                v.append((tag + "/above-optimum", f"reported {sc} > optimum {best} of the unrestricted problem; {_brief(c)}"))
            ref = _align_optimal_score(c, mode, ug if k != "ungapped" else [-1])
            if ref is not None and sc > ref:
                v.append((tag + "/above-align_optimal", f"reported {sc} > align_optimal {ref}; {_brief(c)}"))
        # reaches the optimum
        if k == "banded" and min(c["band"]) <= -(n - 1) and max(c["band"]) >= m - 1 and n and m:
            if local:
                if sc != best:
                    v.append((tag + "/full-band-not-optimal", f"band covers the table, score {sc} != optimum {best}; {_brief(c)}"))
            else:
                bp = rec_opt("s", a, b, Mx, gap, need_pair=True, relaxed=semi_aff)
                if bp is not None and bp == best and sc != best:
                    v.append((tag + "/full-band-not-optimal",
                              f"band covers the table and an optimal alignment pairs a position, score {sc} != optimum {best}; {_brief(c)}"))
                if bp is not None and sc < bp and sc != best:
                    v.append((tag + "/full-band-not-optimal", f"band covers the table, score {sc} < best pairing alignment {bp}; {_brief(c)}"))
        if k in ("gapped", "ungapped") and cannot_bind(c) and not malformed:
            si, sj = c["seed"]
            d = c.get("dir", "both")
            if k == "gapped":
                exp = Mx[a[si]][b[sj]]
                if d in ("both", "upstream") and si > 0 and sj > 0:
                    exp += region_opt(a[:si][::-1], b[:sj][::-1], Mx, gap)
                if d in ("both", "downstream"):
                    exp += region_opt(a[si + 1:], b[sj + 1:], Mx, gap)
            else:
                def bestpref(xs, ys):
                    t, bst = 0, 0
                    for x, y in zip(xs, ys):
                        t += Mx[x][y]
                        bst = max(bst, t)
                    return bst
                exp = Mx[a[si]][b[sj]]
                if d in ("both", "upstream") and si > 0 and sj > 0:
                    exp += bestpref(a[:si][::-1], b[:sj][::-1])
                if d in ("both", "downstream"):
                    exp += bestpref(a[si + 1:], b[sj + 1:])
            if sc != exp:
                v.append((tag + "/threshold-cannot-bind-not-optimal",
                          f"threshold cannot bind: score {sc} != best seeded extension {exp}; {_brief(c)}"))
            if k == "gapped" and n <= 4 and m <= 4:
                ex = _all_seeded(a, b, Mx, gap, (si, sj), d)
                if ex != sc:
                    v.append((tag + "/threshold-cannot-bind-not-optimal",
                              f"exhaustive best seeded alignment {ex} != score {sc}; {_brief(c)}"))
            # the seed lies on an optimal local alignment -> the heuristic reaches the true optimum
            if k == "gapped" and d == "both" and c.get("on_optimal") and sc != best:
                v.append((tag + "/seed-on-optimal-not-optimal", f"seed on an optimal alignment, score {sc} != optimum {best}; {_brief(c)}"))
    v = _classify(c, res, v, tag)
    if c.get("overflow"):
        v = [(KEY_OVERFLOW, msg) for _, msg in v]
    seen, out = set(), []
    for key, msg in v:
        if key not in seen:
            seen.add(key)
            out.append((key, msg))
    return out


KEY_OVERFLOW = "C09/overflow/int32-wraps"
# what the documented contract says about input outside the domain: exception class per reason
EXPECTED_REFUSAL = {
    "gap-positive": ("ERR:ValueError",), "gap-zero": ("ERR:ValueError",), "max_number": ("ERR:ValueError",),
    "band-no-overlap": ("ERR:ValueError",), "empty-sequence": ("ERR:ValueError",),
    "seed-out-of-range": ("ERR:IndexError",), "threshold-negative": ("ERR:ValueError",),
    "mts": ("ERR:ValueError", "ERR:MemoryError"), "c-int-overflow": ("ERR:OverflowError",),
}
# reasons for which acceptance is itself a violation ("empty-sequence": align_banded may also return the empty alignment)
MUST_REFUSE = {"gap-positive", "gap-zero", "max_number", "band-no-overlap", "seed-out-of-range", "threshold-negative", "mts",
               "c-int-overflow"}
KEY_LEADING_GAP = "C09/banded/semiglobal/{}/leading-gap-shown-as-pair"
KEY_NEG_INF = "C09/banded/semiglobal/affine/neg-inf-underflow"


def leading_gap_artifact(c, rows, sc):
    """align_banded(local=False): the DP path leaves a free border cell (row 0 / column 0 of the table) with a GAP move
    because the gap penalty beats the substitution score there; follow_trace records only cell coordinates, so the
    first column of the returned trace shows the pair (a[i], b[j]) instead of the gap: the reported score exceeds the
    rescored trace by exactly gap_open - s(a[i], b[j]) > 0."""
    if c["kind"] != "banded" or c.get("local") or not rows:
        return False
    i, j = rows[0]
    if i < 0 or j < 0 or (i != 0 and j != 0):
        return False
    a, b, Mx, gap = c["a"], c["b"], c["M"], c["gap"]
    n, m = len(a), len(b)
    if check_trace(rows, n, m):
        return False
    mine = doc_score(complete(rows, n, m), Mx, a, b, gap[0], gap[-1], False)
    if sc <= mine:
        return False
    tail = complete(rows, n, m)[i + j + 1:]      # everything behind the first trace column
    variants = []
    if i == 0:    # GAP_TOP out of row 0: b[0..j] unaligned in front, a[0] against a gap
        variants.append([(-1, jj) for jj in range(j + 1)] + [(0, -1)] + tail)
    if j == 0:    # GAP_LEFT out of column 0: a[0..i] unaligned in front, b[0] against a gap
        variants.append([(ii, -1) for ii in range(i + 1)] + [(-1, 0)] + tail)
    return any(doc_score(vr, Mx, a, b, gap[0], gap[-1], False) == sc for vr in variants)


def neg_inf_underflow(c, sc):
    """align_banded(local=False) with an affine penalty: neg_inf = INT32_MIN - min(gap) - min(min_score, 0) survives ONE
    addition of a penalty/score, but g1/g2 cells next to the band border receive neg_inf + max(open, ext) and the next
    cell adds gap_ext once more: when max(open, ext) + ext < min(open, ext) + min(min_score, 0) the int32 wraps to
    ~INT32_MAX and becomes the reported score."""
    if c["kind"] != "banded" or c.get("local") or len(c["gap"]) != 2:
        return False
    go, ge = c["gap"]
    mn = min(0, min(x for r in c["M"] for x in r))
    return max(go, ge) + ge < min(go, ge) + mn and sc > 2**31 - 1 - 10**5


def _classify(c, res, v, tag):
    if c["kind"] != "banded" or c.get("local") or not v:
        return v
    sc = res[0][0]
    consequences = ("/rescore-mismatch", "/above-optimum", "/above-align_optimal", "/full-band-not-optimal")
    if neg_inf_underflow(c, sc):
        return [((KEY_NEG_INF if key.endswith(consequences) else key), msg) for key, msg in v]
    flags = [leading_gap_artifact(c, [(int(i), int(j)) for i, j in t], sc) for _, t in res]
    if not any(flags):
        return v
    out = []
    n_mismatch = 0
    gk = "linear" if len(c["gap"]) == 1 else "affine"
    for key, msg in v:
        if key.endswith("/rescore-mismatch"):
            n_mismatch += 1
            # one message per mismatching trace: attribute it only if that trace shows the artifact
            rows_s = msg[msg.index("the trace ") + 10:msg.index("]") + 1]
            hit = any(f and str([(int(i), int(j)) for i, j in t]) == rows_s for f, (_, t) in zip(flags, res))
            out.append((KEY_LEADING_GAP.format(gk) if hit else key, msg))
        elif key.endswith(consequences[1:]) and all(flags) and len(c["gap"]) == 2:
            # affine only: the gap out of the free border abuts the free terminal gap, which the reference
            # (align_optimal, no abutting gaps) does not allow -> reported score above it
            out.append((KEY_LEADING_GAP.format(gk), msg))
        else:
            out.append((key, msg))
    return out


def table_sizes(c):
    """every size (rows * cols) the X-drop table of a region can have: INIT shape min(len+1, INIT_SIZE) per dimension,
    each dimension doubled any number of times (documented: a MemoryError is raised if the number of cells WOULD
    EXCEED max_table_size, so the smallest accepted limit is the size the table finally reaches)"""
    n, m = len(c["a"]), len(c["b"])
    si, sj = c["seed"]
    d = c.get("dir", "both")
    regions = []
    if d in ("both", "upstream") and si > 0 and sj > 0:
        regions.append((si, sj))
    if d in ("both", "downstream"):
        regions.append((n - si - 1, m - sj - 1))
    out = set()
    for lx, ly in regions:
        r0, c0 = min(lx + 1, 100), min(ly + 1, 100)
        r = r0
        while r <= 2 * (lx + 1):
            cc = c0
            while cc <= 2 * (ly + 1):
                out.add(r * cc)
                cc *= 2
            r *= 2
    return out


class _Unexpected(Exception):
    pass


def _mts_oracle(c):
    try:
        return _mts_oracle_inner(c)
    except _Unexpected as e:
        return [("C09/gapped/max_table_size/unexpected-exception", f"{e}; {_brief(c)}")]


def _mts_oracle_inner(c):
    """max_table_size: the call raised MemoryError at limit L.  Find the smallest limit the call accepts (the outcome
    is monotone in the limit) and require (1) it is a size the table can actually have - 'exceed' means strictly
    greater, so a table of exactly max_table_size cells is allowed - and (2) the accepted call returns what the
    unlimited call returns."""
    key = "C09/gapped/max_table_size/"
    L = c["mts"]

    def ok(lim):
        try:
            return _call_safe(dict(c, mts=lim))
        except Exception as e:  # noqa: BLE001
            if _err(e) == "ERR:MemoryError":
                return None
            raise _Unexpected(f"max_table_size={lim}: {_err(e)}")
    try:
        free = _call_safe(dict(c, mts=None))
    except Exception as e:  # noqa: BLE001
        return [(key + "unlimited-raises", f"unlimited call raised {_err(e)}; {_brief(c)}")]
    sizes = table_sizes(c)
    hi = max(sizes) if sizes else 1
    if ok(hi) is None:
        return [(key + "error-above-largest-table", f"MemoryError even for max_table_size={hi} >= every possible table; {_brief(c)}")]
    lo = L            # fails at L
    while hi - lo > 1:
        mid = (lo + hi) // 2
        if ok(mid) is None:
            lo = mid
        else:
            hi = mid
    v = []
    if hi not in sizes:
        below = max((x for x in sizes if x < hi), default=None)
        v.append((key + "limit-not-exact",
                  f"smallest accepted max_table_size is {hi}, which is not a possible table size (largest possible size below it: "
                  f"{below}): a table of exactly max_table_size cells is rejected; MemoryError at max_table_size={L}; {_brief(c)}"))
    got = ok(hi)
    if got is not None and sorted(map(str, got)) != sorted(map(str, free)):
        v.append((key + "limited-result-differs", f"result with max_table_size={hi} differs from the unlimited result; {_brief(c)}"))
    return v


def _align_optimal_score(c, mode, gap):
    """align_optimal as reference.  Abstains only for an empty sequence (affine + empty raises IndexError: C08 known finding)
    and in the int32 stream; any other exception of the reference on well-formed input is reported, not swallowed."""
    import biotite.sequence.align as align
    if not c["a"] or not c["b"] or c.get("overflow"):
        return None
    s1, s2, matrix = _build(c)
    try:
        r = align.align_optimal(s1, s2, matrix, gap_penalty=_pygap(gap), terminal_penalty=(mode != "s"),
                                local=(mode == "l"), max_number=1)
    except Exception as e:  # noqa: BLE001
        raise _Unexpected(f"reference align_optimal raised {type(e).__name__}: {e}")
    return int(r[0].score)


def _brief(c):
    keys = ["kind", "a", "b", "M", "gap", "local", "band", "seed", "thr", "dir", "max", "mts"]
    return " ".join(f"{k}={c[k]}" for k in keys if k in c)


def _malformed(c):
    """name of the first reason the input is outside the documented domain, or None"""
    k = c["kind"]
    n, m = len(c["a"]), len(c["b"])
    gap = c["gap"]
    if c.get("cint"):
        return "c-int-overflow"
    if any(g > 0 for g in gap):
        return "gap-positive"
    if k != "banded" and any(g >= 0 for g in gap) and k == "gapped":
        return "gap-zero"
    if c.get("max", 1) < 1:
        return "max_number"
    if k == "banded":
        lo, hi = min(c["band"]), max(c["band"])
        if n == 0 or m == 0:
            return "empty-sequence"      # nothing a band could overlap: rejection (ValueError) or an empty alignment
        # (as documented for the un-swapped orientation; the swap negates the band and exchanges n, m)
        if n + hi <= 0 or lo >= m:
            return "band-no-overlap"
        return None
    si, sj = c["seed"]
    if si < 0 or sj < 0 or si >= n or sj >= m:
        return "seed-out-of-range"
    if c["thr"] < 0:
        return "threshold-negative"
    if c.get("mts") is not None:
        return "mts"
    return None


# ---------------------------------------------------------------- generator
def _matrix(rng, k1, k2):
    style = rng.random()
    if style < 0.4:
        return [[rng.randint(-6, 6) for _ in range(k2)] for _ in range(k1)]
    if style < 0.65:   # match / mismatch
        mt, mm = rng.randint(1, 5), rng.randint(-5, 0)
        return [[mt if i == j else mm for j in range(k2)] for i in range(k1)]
    if style < 0.75:
        return [[rng.randint(-6, -1) for _ in range(k2)] for _ in range(k1)]
    if style < 0.87:   # non-negative (the banded neg_inf sentinel is then corrected by the gap only)
        return [[rng.randint(0, 4) for _ in range(k2)] for _ in range(k1)]
    if style < 0.94:
        vals = [rng.randint(-2, 2), rng.randint(-2, 2)]
        return [[rng.choice(vals) for _ in range(k2)] for _ in range(k1)]
    v = rng.randint(-2, 2)
    return [[v] * k2 for _ in range(k1)]


def _gap(rng, strict):
    hi = -1 if strict else 0
    pool = [g for g in [0, 0, -1, -1, -2, -3, -4, -5] if g <= hi]
    if rng.random() < 0.5:
        return [rng.choice(pool)]
    return [rng.choice(pool), rng.choice(pool)]


def _seqs(rng, maxlen, allow_empty, k1, k2):
    lo = 0 if allow_empty else 1
    pool = [lo, 1, 2, 2, 3, 3, 4, 4, 5, 5, 6, 7, 8] if maxlen <= 8 else list(range(lo, maxlen + 1))
    n, m = min(rng.choice(pool), maxlen), min(rng.choice(pool), maxlen)
    a = [rng.randrange(k1) for _ in range(n)]
    b = [rng.randrange(k2) for _ in range(m)]
    if rng.random() < 0.5 and n:      # related sequences: b is a mutated copy of a
        b = [min(x, k2 - 1) for x in a]
        for _ in range(rng.randint(0, 3)):
            r = rng.random()
            if r < 0.4 and len(b) > 1:
                del b[rng.randrange(len(b))]
            elif r < 0.8 and len(b) < maxlen:
                b.insert(rng.randint(0, len(b)), rng.randrange(k2))
            elif b:
                b[rng.randrange(len(b))] = rng.randrange(k2)
        if rng.random() < 0.3:        # embedded in unrelated flanks
            b = ([rng.randrange(k2) for _ in range(rng.randint(0, 2))] + b)[:max(maxlen, 1)]
        if not b and not allow_empty:
            b = [0]
    return a, b


def _widths(rng):
    if rng.random() < 0.6:
        return "u8", "u8"
    w1, w2 = rng.choice(["u8", "u16", "u32", "u64"]), rng.choice(["u8", "u16", "u32", "u64"])
    if w1 == "u32" and w2 in ("u16", "u32"):
        w2 = rng.choice(["u8", "u64"])
    if w2 == "u32" and w1 in ("u16", "u32"):
        w1 = rng.choice(["u8", "u64"])
    return w1, w2


def _threshold(rng):
    return rng.choice([0, 0, 1, 2, 3, 4, 5, 8, 12, 20, 50, HUGE, HUGE])


def _case(rng, maxlen=8, kind=None, allow_empty=False, malformed=False):
    k1, k2 = rng.randint(2, 5), rng.randint(2, 5)
    kind = kind or rng.choice(["banded", "banded", "gapped", "gapped", "ungapped"])
    a, b = _seqs(rng, maxlen, allow_empty and kind == "banded", k1, k2)
    n, m = len(a), len(b)
    w1, w2 = _widths(rng)
    c = {"kind": kind, "a": a, "b": b, "M": _matrix(rng, k1, k2), "w1": w1, "w2": w2,
         "max": rng.choice([1, 1, 2, 3, 5, 10, 50])}
    if kind == "banded":
        c["gap"] = _gap(rng, False)
        c["local"] = rng.random() < 0.45
        r = rng.random()
        if r < 0.25:      # covers every diagonal (and more), either order
            band = [-(n - 1) - rng.randint(0, 3), (m - 1) + rng.randint(0, 3)]
        elif r < 0.4:     # a single diagonal
            d = rng.randint(-n + 1, max(m - 1, -n + 1))
            band = [d, d]
        elif r < 0.55:    # partly outside the table
            band = [rng.randint(-n - 4, 0), rng.randint(0, m + 4)]
            if rng.random() < 0.5:
                band = [rng.randint(-n - 4, -n + 1), rng.randint(-n + 1, m)]
        else:
            band = [rng.randint(-n - 1, m + 1), rng.randint(-n - 1, m + 1)]
        if rng.random() < 0.5:
            band.reverse()
        c["band"] = band
        if malformed:
            what = rng.choice(["outside-hi", "outside-lo", "gap", "max"])
            if what == "outside-hi":
                c["band"] = [m + rng.randint(0, 3), m + rng.randint(0, 5)]
            elif what == "outside-lo":
                c["band"] = [-n - rng.randint(0, 5), -n - rng.randint(0, 3)]
            elif what == "gap":
                c["gap"] = rng.choice([[1], [2, -1], [-1, 3]])
            else:
                c["max"] = rng.choice([0, -1])
    else:
        c["gap"] = _gap(rng, True) if kind == "gapped" else [-1000]
        r = rng.random()
        if r < 0.3:       # borders
            c["seed"] = [rng.choice([0, n - 1]), rng.choice([0, m - 1])]
        elif r < 0.45:
            c["seed"] = [rng.choice([0, n - 1]), rng.randrange(m)]
        else:
            c["seed"] = [rng.randrange(n), rng.randrange(m)]
        c["thr"] = _threshold(rng)
        c["dir"] = rng.choice(["both", "both", "upstream", "downstream"])
        if kind == "gapped" and rng.random() < 0.12:
            c["mts"] = rng.choice([1, 2, 4, 9, 16, 30, 100, 10**6])
        if malformed:
            c["fork"] = True
            what = rng.choice(["seed-hi", "seed-neg", "thr", "gap", "max", "mts", "empty"] if kind == "gapped"
                              else ["seed-hi", "seed-neg", "thr", "empty"])
            if what == "empty":          # an empty sequence has no position a seed could name
                if rng.random() < 0.5:
                    c["a"] = []
                else:
                    c["b"] = []
                if rng.random() < 0.3:
                    c["a"], c["b"] = [], []
                c["seed"] = [0, 0]
            elif what == "seed-hi":
                c["seed"] = rng.choice([[n, rng.randrange(m)], [rng.randrange(n), m], [n + 3, m + 2]])
            elif what == "seed-neg":
                c["seed"] = rng.choice([[-1, rng.randrange(m)], [rng.randrange(n), -1], [-2, -3]])
            elif what == "thr":
                c["thr"] = rng.choice([-1, -5])
            elif what == "gap":
                c["gap"] = rng.choice([[0], [1], [0, -1], [-1, 0], [2, -1]])
            elif what == "max":
                c["max"] = rng.choice([0, -2])
            else:
                c["mts"] = rng.choice([0, -1])
    c["ops"] = _ops(c)
    return c


def _on_optimal(rng, maxlen=7):
    """gapped extension seeded on a pair of an optimal local alignment with a threshold that cannot bind"""
    import biotite.sequence.align as align
    for _ in range(20):
        c = _case(rng, maxlen, kind="gapped")
        c.pop("mts", None)
        c["thr"], c["dir"] = HUGE, "both"
        try:
            s1, s2, matrix = _build(c)
            res = align.align_optimal(s1, s2, matrix, gap_penalty=_pygap(c["gap"]), local=True, max_number=5)
        except Exception:  # noqa: BLE001
            continue
        pairs = [(int(i), int(j)) for r in res for i, j in r.trace.tolist() if i >= 0 and j >= 0]
        if not pairs:
            continue
        c["seed"] = list(rng.choice(pairs))
        c["on_optimal"] = True
        c["ops"] = _ops(c)
        return c
    return c


def _long(rng, mem=False):
    """sequences longer than INIT_SIZE so that the X-drop table has to grow"""
    k = 4
    n = rng.randint(104, 135)
    a = [rng.randrange(k) for _ in range(n)]
    b = list(a)
    for _ in range(rng.randint(0, 4)):
        r = rng.random()
        pos = rng.randrange(len(b))
        if r < 0.4:
            del b[pos]
        elif r < 0.8:
            b.insert(pos, rng.randrange(k))
        else:
            b[pos] = rng.randrange(k)
    mt, mm = rng.randint(2, 4), rng.randint(-4, -2)
    M = [[mt if i == j else mm for j in range(k)] for i in range(k)]
    kind = rng.choice(["gapped", "gapped", "ungapped"])
    c = {"kind": kind, "a": a, "b": b, "M": M, "w1": "u8", "w2": "u8", "max": rng.choice([1, 3]),
         "gap": rng.choice([[-3], [-5], [-4, -1], [-2, -2]]) if kind == "gapped" else [-1000],
         "seed": rng.choice([[0, 0], [min(n, len(b)) - 1] * 2, [2, 2], [n // 2, min(n // 2, len(b) - 1)]]),
         "thr": rng.choice([6, 10, 15]), "dir": rng.choice(["both", "downstream", "upstream"])}
    if mem and kind == "gapped":
        c["mts"] = rng.choice([10000, 19999, 20000, 20001, 39999, 40000, 50000])
    c["ops"] = _ops(c)
    return c


def _long_exact(rng):
    """table growth up to EXACTLY max_table_size (and one cell less / more): one sequence longer than INIT_SIZE, the other
    longer or much shorter, a threshold that cannot bind (the table then covers the whole region) or a small one, and
    max_table_size drawn from the sizes the table can have (INIT shape with each dimension doubled) +-1"""
    k = 4
    n = rng.randint(101, 150)
    a = [rng.randrange(k) for _ in range(n)]
    if rng.random() < 0.5:
        b = list(a)
        for _ in range(rng.randint(0, 3)):
            pos = rng.randrange(len(b))
            if rng.random() < 0.5:
                del b[pos]
            else:
                b.insert(pos, rng.randrange(k))
    else:
        b = a[:rng.randint(30, 55)]
        if rng.random() < 0.5:
            b[rng.randrange(len(b))] = rng.randrange(k)
    if rng.random() < 0.4:
        a, b = b, a
    mt, mm = rng.randint(2, 4), rng.randint(-4, -2)
    M = [[mt if i == j else mm for j in range(k)] for i in range(k)]
    d = rng.choice(["downstream", "downstream", "upstream", "both"])
    n, m = len(a), len(b)
    seed = {"downstream": [0, 0], "upstream": [n - 1, m - 1], "both": [1, 1]}[d]
    c = {"kind": "gapped", "a": a, "b": b, "M": M, "w1": "u8", "w2": "u8", "max": 1,
         "gap": rng.choice([[-3], [-5], [-4, -1]]), "seed": seed, "dir": d,
         # a non-binding threshold fills the whole region: only when one side is short (cost of the Lean model)
         "thr": rng.choice([HUGE, 12]) if min(n, m) <= 70 else 12}
    sizes = sorted(x for x in table_sizes(c) if x > 1)
    # the sizes reached by doubling at least one dimension are the interesting limits
    base = rng.choice(sizes[1:]) if len(sizes) > 1 else sizes[0]
    c["mts"] = base + rng.choice([0, 0, 0, -1, 1])
    c["ops"] = _ops(c)
    return c


def _xdrop_edge(rng):
    """X-drop boundary: a run of mismatches whose total drop is exactly the threshold (or one off), followed by
    enough matches to recover -- `>` vs `>=` in the drop / acceptance tests decides whether the extension goes on"""
    k = rng.randint(2, 4)
    n = rng.randint(6, 12)
    a = [rng.randrange(k) for _ in range(n)]
    b = list(a)
    r = rng.randint(1, 3)
    pos = rng.randint(1, n - r - 2) if n - r - 2 >= 1 else 1
    for t in range(pos, min(pos + r, n)):
        b[t] = (a[t] + 1 + rng.randrange(k - 1)) % k
    mt, mm = rng.randint(1, 4), -rng.randint(1, 3)
    M = [[mt if i == j else mm for j in range(k)] for i in range(k)]
    kind = rng.choice(["gapped", "ungapped"])
    d = rng.choice(["downstream", "upstream", "both"])
    seed = {"downstream": [0, 0], "upstream": [n - 1, n - 1], "both": [rng.choice([0, n - 1])] * 2}[d]
    drop = r * (-mm)
    c = {"kind": kind, "a": a, "b": b, "M": M, "w1": rng.choice(["u8", "u8", "u16"]), "w2": "u8", "max": rng.choice([1, 3]),
         "gap": rng.choice([[-4], [-6], [-5, -2]]) if kind == "gapped" else [-1000],
         "seed": seed, "thr": max(0, drop + rng.choice([-1, 0, 0, 0, 1])), "dir": d}
    c["ops"] = _ops(c)
    return c


def _multi_end_random(rng):
    """low-complexity sequences / repeats with cheap gaps or +-1 matrices (co-optimal cells arise by chance)"""
    k = rng.randint(2, 3)
    if rng.random() < 0.5:
        unit = [rng.randrange(k) for _ in range(rng.randint(1, 2))]
        a = (unit * 6)[:rng.randint(3, 6)]
        b = (unit * 8)[:rng.randint(4, 9)]
        for seq_ in (a, b):
            for _ in range(rng.randint(0, 2)):
                seq_[rng.randrange(len(seq_))] = rng.randrange(k)
    else:
        a = [rng.randrange(2) for _ in range(rng.randint(3, 6))]
        b = [rng.randrange(2) for _ in range(rng.randint(5, 9))]
    if rng.random() < 0.5:
        a, b = b, a
    if rng.random() < 0.6:
        mt, mm = rng.choice([2, 3, 5]), rng.choice([-4, -3, -1])
        gap = rng.choice([[-1], [-2], [-2], [-1, -1], [-2, -1], [-3, -1]])
    else:
        mt, mm = 1, rng.choice([-1, -1, 0])
        gap = rng.choice([[-1], [-1], [-2], [-1, -1]])
    M = [[mt if i == j else mm for j in range(k)] for i in range(k)]
    d = rng.choice(["downstream", "upstream", "both", "both"])
    n, m = len(a), len(b)
    seed = [rng.randrange(n), rng.randrange(m)]
    if d == "downstream":
        seed = [rng.randint(0, min(1, n - 1)), rng.randint(0, min(1, m - 1))]
    elif d == "upstream":
        seed = [n - 1 - rng.randint(0, min(1, n - 1)), m - 1 - rng.randint(0, min(2, m - 1))]
    return {"kind": "gapped", "a": a, "b": b, "M": M, "w1": rng.choice(["u8", "u8", "u16"]), "w2": "u8",
            "max": rng.choice([2, 5, 20, 50]), "gap": gap, "seed": seed, "thr": rng.choice([3, 8, 20, HUGE, HUGE]), "dir": d}


def _multi_end(rng):
    """gapped extension whose region table holds the maximum score in SEVERAL cells reached by traces of DIFFERENT
    lengths, with max_number > 1 so that every start cell / branch is returned.  Engineered: in the region
    x = A B D, y = A A D A.. B  the path  A/A, r gaps, B/B  (ends in cell (2, r+2), r+2 columns) ties with
    A/A, B/A, D/D  (cell (3, 3), 3 columns) when mismatch = cost of a gap run of length r; the row-major earlier
    start cell has the LONGER trace.  Placed downstream and/or (reversed) upstream of the seed, either sequence
    in either role; the rest are random low-complexity inputs."""
    if rng.random() < 0.35:
        c = _multi_end_random(rng)
        c["ops"] = _ops(c)
        return c
    r = rng.choice([2, 2, 3])
    if rng.random() < 0.6:
        g = rng.choice([-1, -2])
        gap, mm = [g], r * g
    else:
        go, ge = rng.choice([(-2, -1), (-3, -1), (-2, -2), (-1, -1)])
        gap, mm = [go, ge], go + (r - 1) * ge
    mt = -mm + rng.randint(1, 3)
    A, B, D = rng.sample([0, 1, 2], 3)
    M = [[mt if i == j else mm for j in range(3)] for i in range(3)]

    def region():
        # x = A B D, y = A C D C.. B with C != B, D:  A/A B/C D/D (cell (3,3)) ties with A/A, r gaps, B/B (cell (2, r+2))
        C = A
        x = [A, B, D] + [rng.choice([A, B])] * rng.randint(0, 1)
        y = [A, C, D] + [C] * (r - 2) + [B]
        return (x, y) if rng.random() < 0.5 else (y, x)
    d = rng.choice(["downstream", "upstream", "both", "both"])
    up = region() if d != "downstream" else ([], [])
    down = region() if d != "upstream" else ([], [])
    s_sym = rng.choice([A, B])
    a = up[0][::-1] + [s_sym] + down[0]
    b = up[1][::-1] + [s_sym] + down[1]
    if d == "downstream" and rng.random() < 0.4:      # something in front of the seed that must not be touched
        a, b = [D] + a, [B] + b
        seed = [1, 1]
    else:
        seed = [len(up[0]), len(up[1])]
    c = {"kind": "gapped", "a": a, "b": b, "M": M, "w1": rng.choice(["u8", "u8", "u16"]), "w2": "u8",
         "max": rng.choice([2, 5, 50]), "gap": gap, "seed": seed,
         "thr": rng.choice([2 * mt, 3 * mt, HUGE, HUGE]), "dir": d}
    c["ops"] = _ops(c)
    return c


# ---------------------------------------------------------------- hardening: spellings, defaults, reuse, refused calls
def _variants_child(c):
    """runs inside a forked child: one set of Sequence / SubstitutionMatrix objects is REUSED for a series of calls that
    denote the same request in another spelling, interleaved with refused calls; every result is compared with the
    result of the canonical call on fresh objects, and the inputs with their snapshots."""
    import copy
    import numpy as np
    import biotite.sequence.align as align
    k = c["kind"]
    out = []

    def canon(r):
        if isinstance(r, list):
            return ("ok", [(int(x.score), x.trace.tolist()) for x in r])
        if hasattr(r, "trace"):
            return ("ok", [(int(r.score), r.trace.tolist())])
        return ("ok", int(r))

    def run(fn):
        try:
            return canon(fn())
        except Exception as e:  # noqa: BLE001
            return ("err", type(e).__name__)
    ref = run(lambda: _call(c))
    ref_so = run(lambda: _call(c, True)) if k != "banded" else None
    s1, s2, matrix = _build(c)
    snap = (s1.code.copy(), s2.code.copy(), matrix.score_matrix().copy())
    gap = _pygap(c["gap"])
    mx = c.get("max", 1)
    fits8 = lambda *xs: all(-128 <= int(x) <= 127 for x in xs)      # noqa: E731

    def seq_variant(sq, how):
        t = copy.copy(sq)
        code = np.asarray(sq.code)
        if how == "strided":
            buf = np.zeros(2 * len(code) + 1, dtype=code.dtype)
            buf[1::2][:len(code)] = code
            t._seq_code = buf[1::2][:len(code)]
        else:
            ro = code.copy()
            ro.setflags(write=False)
            t._seq_code = ro
        return t
    # F-ordered / non-contiguous score matrix holding the same numbers
    mF = align.SubstitutionMatrix(matrix.get_alphabet1(), matrix.get_alphabet2(),
                                  np.asfortranarray(matrix.score_matrix()))
    steps = []     # (name, callable, allowed exception classes in place of the reference result, compare with ref_so?)
    if k == "banded":
        b0, b1 = int(c["band"][0]), int(c["band"][1])
        loc = bool(c.get("local"))
        blist = [b0, b1]
        barr = np.array([b0, b1], dtype=np.int64)
        steps += [
            ("band-list", lambda: align.align_banded(s1, s2, matrix, blist, gap, loc, mx), (), False),
            ("band-ndarray-int64", lambda: align.align_banded(s1, s2, matrix, barr, gap, loc, mx), (), False),
            ("band-numpy-scalars", lambda: align.align_banded(s1, s2, matrix, (np.int16(b0), np.int64(b1)), gap, loc, mx), (), False),
            ("max_number-numpy", lambda: align.align_banded(s1, s2, matrix, (b0, b1), gap, loc, np.int64(mx)), (), False),
            ("local-numpy-bool", lambda: align.align_banded(s1, s2, matrix, (b0, b1), gap, np.bool_(loc), mx), (), False),
            ("keywords", lambda: align.align_banded(seq1=s1, seq2=s2, matrix=matrix, band=(b0, b1), gap_penalty=gap,
                                                    local=loc, max_number=mx), (), False),
            ("matrix-fortran-order", lambda: align.align_banded(s1, s2, mF, (b0, b1), gap, loc, mx), (), False),
            ("codes-strided", lambda: align.align_banded(seq_variant(s1, "strided"), seq_variant(s2, "strided"), matrix,
                                                         (b0, b1), gap, loc, mx), (), False),
            ("codes-read-only", lambda: align.align_banded(seq_variant(s1, "ro"), seq_variant(s2, "ro"), matrix,
                                                           (b0, b1), gap, loc, mx), ("ValueError",), False),
            ("refused:gap-positive", lambda: align.align_banded(s1, s2, matrix, (b0, b1), 1, loc, mx), "must-raise", False),
            ("refused:max_number-0", lambda: align.align_banded(s1, s2, matrix, (b0, b1), gap, loc, 0), "must-raise", False),
            ("refused:band-outside", lambda: align.align_banded(s1, s2, matrix, (len(c["b"]) + 1, len(c["b"]) + 3), gap, loc, mx),
             "must-raise", False),
            ("reuse-after-refused", lambda: align.align_banded(s1, s2, matrix, (b0, b1), gap, loc, mx), (), False),
        ]
        if fits8(b0, b1):
            b8 = np.array([b0, b1], dtype=np.int8)
            steps.append(("band-ndarray-int8", lambda: align.align_banded(s1, s2, matrix, b8, gap, loc, mx), (), False))
        if isinstance(gap, int):
            steps.append(("gap-numpy-int", lambda: align.align_banded(s1, s2, matrix, (b0, b1), np.int64(gap), loc, mx),
                          ("TypeError",), False))
        else:
            steps.append(("gap-list", lambda: align.align_banded(s1, s2, matrix, (b0, b1), list(gap), loc, mx),
                          ("TypeError",), False))
        dflt = run(lambda: align.align_banded(s1, s2, matrix, (b0, b1), gap_penalty=-10, local=False, max_number=1000))
        got = run(lambda: align.align_banded(s1, s2, matrix, (b0, b1)))
        if got != dflt:
            out.append((f"C09/{k}/defaults", f"align_banded(seq1, seq2, matrix, band) differs from the call with the documented "
                        f"defaults gap_penalty=-10, local=False, max_number=1000; {_brief(c)}"))
        mutable = [("band list", blist, [b0, b1]), ("band ndarray", barr.tolist(), [b0, b1])]
    else:
        si, sj = int(c["seed"][0]), int(c["seed"][1])
        thr = int(c["thr"])
        d = c.get("dir", "both")
        slist = [si, sj]
        sarr = np.array([si, sj], dtype=np.int64)
        if k == "gapped":
            mts = c.get("mts")

            def g(seed=(si, sj), t=thr, gp=gap, m_=mx, dr=d, so=False, ms=mts, q1=s1, q2=s2, mat=matrix):
                return align.align_local_gapped(q1, q2, mat, seed, t, gp, m_, dr, so, ms)
            steps += [
                ("max_number-numpy", lambda: g(m_=np.int32(mx)), (), False),
                ("direction-numpy-str", lambda: g(dr=np.str_(d)), ("TypeError",), False),
                ("keywords", lambda: align.align_local_gapped(seq1=s1, seq2=s2, matrix=matrix, seed=(si, sj), threshold=thr,
                                                              gap_penalty=gap, max_number=mx, direction=d, score_only=False,
                                                              max_table_size=mts), (), False),
                ("score_only-numpy-bool", lambda: g(so=np.bool_(True)), (), True),
                ("refused:gap-zero", lambda: g(gp=0), "must-raise", False),
                ("refused:max_table_size-0", lambda: g(ms=0), "must-raise", False),
            ]
            if mts is not None:
                steps.append(("max_table_size-numpy", lambda: g(ms=np.int64(mts)), (), False))
            if isinstance(gap, int):
                steps.append(("gap-numpy-int", lambda: g(gp=np.int64(gap)), ("TypeError",), False))
            else:
                steps.append(("gap-list", lambda: g(gp=list(gap)), ("TypeError",), False))
            dflt = run(lambda: align.align_local_gapped(s1, s2, matrix, (si, sj), thr, gap_penalty=-10, max_number=1,
                                                        direction="both", score_only=False, max_table_size=None))
            got = run(lambda: align.align_local_gapped(s1, s2, matrix, (si, sj), thr))
            what = "gap_penalty=-10, max_number=1, direction='both', score_only=False, max_table_size=None"
        else:
            def g(seed=(si, sj), t=thr, gp=None, m_=None, dr=d, so=False, ms=None, q1=s1, q2=s2, mat=matrix):
                return align.align_local_ungapped(q1, q2, mat, seed, t, dr, so)
            steps += [
                ("check_matrix-False", lambda: align.align_local_ungapped(s1, s2, matrix, (si, sj), thr, d, False, False), (), False),
                ("keywords", lambda: align.align_local_ungapped(seq1=s1, seq2=s2, matrix=matrix, seed=(si, sj), threshold=thr,
                                                                direction=d, score_only=False, check_matrix=True), (), False),
                ("direction-numpy-str", lambda: g(dr=np.str_(d)), ("TypeError",), False),
                ("score_only-numpy-bool", lambda: g(so=np.bool_(True)), (), True),
            ]
            dflt = run(lambda: align.align_local_ungapped(s1, s2, matrix, (si, sj), thr, direction="both", score_only=False,
                                                          check_matrix=True))
            got = run(lambda: align.align_local_ungapped(s1, s2, matrix, (si, sj), thr))
            what = "direction='both', score_only=False, check_matrix=True"
        if got != dflt:
            out.append((f"C09/{k}/defaults", f"the call without optional arguments differs from the call with the documented "
                        f"defaults {what}; {_brief(c)}"))
        steps += [
            ("seed-list", lambda: g(seed=slist), (), False),
            ("seed-ndarray-int64", lambda: g(seed=sarr), (), False),
            ("seed-numpy-scalars", lambda: g(seed=(np.int32(si), np.uint16(sj)) if si >= 0 and sj >= 0 else (si, sj)), (), False),
            ("threshold-numpy-int64", lambda: g(t=np.int64(thr)), (), False),
            ("threshold-numpy-uint32", lambda: g(t=np.uint32(thr)) if thr >= 0 else g(), (), False),
            ("matrix-fortran-order", lambda: g(mat=mF), (), False),
            ("codes-strided", lambda: g(q1=seq_variant(s1, "strided"), q2=seq_variant(s2, "strided")), (), False),
            ("codes-read-only", lambda: g(q1=seq_variant(s1, "ro"), q2=seq_variant(s2, "ro")), ("ValueError",), False),
            ("refused:seed-out-of-range", lambda: g(seed=(len(c["a"]), sj)), "must-raise", False),
            ("refused:seed-negative", lambda: g(seed=(si, -1)), "must-raise", False),
            ("refused:threshold-negative", lambda: g(t=-1), "must-raise", False),
            ("reuse-after-refused", lambda: g(), (), False),
            ("reuse-score_only-then-full", lambda: (g(so=True), g())[1], (), False),
        ]
        if 0 <= si <= 255 and 0 <= sj <= 255:
            s8 = np.array([si, sj], dtype=np.uint8)
            steps.append(("seed-ndarray-uint8", lambda: g(seed=s8), (), False))
        if fits8(thr):
            steps.append(("threshold-numpy-int8", lambda: g(t=np.int8(thr)), (), False))
        mutable = [("seed list", slist, [si, sj]), ("seed ndarray", sarr.tolist(), [si, sj])]
    # a DIFFERENT request on the same objects (memoisation keyed on the objects must be visible), then the first again
    c2 = dict(c)
    if k == "banded":
        n_, m_ = len(c["a"]), len(c["b"])
        c2["band"] = [min(c["band"]) - 1, max(c["band"]) + 2] if min(c["band"]) > -n_ + 1 else [0, max(m_ - 1, 0)]
        c2["local"] = not c.get("local")
    else:
        c2["seed"] = [(c["seed"][0] + 1) % len(c["a"]), (c["seed"][1] + 1) % len(c["b"])]
        c2["thr"] = 0 if c["thr"] else 3
        c2["dir"] = {"both": "upstream", "upstream": "downstream", "downstream": "both"}[c.get("dir", "both")]
    ref2 = run(lambda: _call(c2))
    got2 = run(lambda: _call(c2, built=(s1, s2, matrix)))
    if got2 != ref2:
        out.append((f"C09/{k}/reuse/other-request", f"a second, different request on the same Sequence / matrix objects gives "
                    f"{str(got2)[:160]}, on fresh objects {str(ref2)[:160]}; first {_brief(c)}; second {_brief(c2)}"))
    steps.append(("reuse-after-other-request", lambda: _call(c, built=(s1, s2, matrix)), (), False))
    arg_arrays = [("band ndarray", barr)] if k == "banded" else [("seed ndarray", sarr)]
    if k != "banded":
        # 'views are values': an Alignment returned for an ndarray seed (a row of KmerTable.match() / of another trace /
        # a reused buffer) must not share memory with that array, in EVERY direction, and editing the buffer afterwards
        # must not change the alignment returned earlier
        for dr in ("both", "upstream", "downstream"):
            buf = np.array([si, sj], dtype=np.int64)
            try:
                rr = g(seed=buf, dr=dr)
            except Exception as e:  # noqa: BLE001
                if ref[0] == "ok":
                    out.append((f"C09/{k}/spelling/seed-ndarray-direction-{dr}",
                                f"valid request with an ndarray seed and direction={dr} raised {type(e).__name__}; {_brief(c)}"))
                continue
            rr = rr if isinstance(rr, list) else [rr]
            before = [(int(x.score), x.trace.tolist()) for x in rr]
            shared = any(np.shares_memory(x.trace, buf) for x in rr)
            buf[:] = [si + 7, sj + 9]
            after = [(int(x.score), x.trace.tolist()) for x in rr]
            if shared or before != after:
                out.append((f"C09/{k}/result-aliases-seed-argument",
                            f"direction={dr}: the returned Alignment.trace shares memory with the ndarray passed as seed "
                            f"(editing the seed buffer afterwards turns {before} into {after}); {_brief(c)}"))
                break
    for name, fn, allowed, use_so in steps:
        got = run(fn)
        want = ref_so if use_so else ref
        if allowed == "must-raise":
            want_exc = "IndexError" if name.startswith("refused:seed") else "ValueError"
            if got != ("err", want_exc):
                out.append((f"C09/{k}/malformed/{name[8:]}/not-refused-as-documented",
                            f"{name}: {str(got)[:120]}, documented {want_exc}; {_brief(c)}"))
        elif got != want and not (got[0] == "err" and got[1] in allowed):
            out.append((f"C09/{k}/spelling/{name}", f"{name}: got {str(got)[:160]}, the canonical call on fresh objects gives "
                        f"{str(want)[:160]}; {_brief(c)}"))
        if not (np.array_equal(s1.code, snap[0]) and np.array_equal(s2.code, snap[1])
                and np.array_equal(matrix.score_matrix(), snap[2])):
            out.append((f"C09/{k}/inputs-modified/{name}", f"a sequence code or the matrix changed during '{name}'; {_brief(c)}"))
            break
    if k != "banded":
        mutable = [(n_, (cur.tolist() if hasattr(cur, "tolist") else cur), w) for n_, cur, w in
                   [("seed list", slist, [si, sj]), ("seed ndarray", sarr, [si, sj])]]
    else:
        mutable = [("band list", blist, [b0, b1]), ("band ndarray", barr.tolist(), [b0, b1])]
    for n_, cur, w in mutable:
        if list(cur) != w:
            out.append((f"C09/{k}/inputs-modified/argument", f"the {n_} passed as argument was modified: {cur} != {w}; {_brief(c)}"))
    # a matrix whose alphabets do not fit must be refused by all three functions (check_matrix=True)
    import biotite.sequence as seq
    other = seq.Alphabet(["x"])
    bad = align.SubstitutionMatrix(other, other, np.zeros((1, 1), dtype=np.int32))
    if len(matrix.get_alphabet1()) > 1 or len(matrix.get_alphabet2()) > 1:
        if k == "banded":
            r = run(lambda: align.align_banded(s1, s2, bad, tuple(c["band"]), gap))
        elif k == "gapped":
            r = run(lambda: align.align_local_gapped(s1, s2, bad, tuple(c["seed"]), c["thr"], gap))
        else:
            r = run(lambda: align.align_local_ungapped(s1, s2, bad, tuple(c["seed"]), c["thr"]))
        if r != ("err", "ValueError"):
            out.append((f"C09/{k}/matrix-alphabet-not-checked", f"a matrix over a foreign alphabet was not refused with ValueError: {r}; {_brief(c)}"))
    return out


def _variants_oracle(c):
    from common import sandbox
    _warm(c)
    r = sandbox.run_forked(lambda: _variants_child(c), timeout=120)
    if r[0] == "ok":
        seen, out = set(), []
        for key, msg in r[1]:
            if key not in seen:
                seen.add(key)
                out.append((key, msg))
        return out
    if r[0] == "err":
        return [(f"C09/{c['kind']}/variants/harness-{r[1]}", f"variant run raised {r[1]}: {r[2] if len(r) > 2 else ''}; {_brief(c)}")]
    return [(f"C09/{c['kind']}/variants/crash", f"the process died / hung during the argument-spelling series; {_brief(c)}")]


def _variants(rng):
    c = _case(rng, 7) if rng.random() < 0.7 else _multi_end(rng)
    c = {k: v for k, v in c.items() if k not in ("ops", "fork", "on_optimal")}
    if c["kind"] != "banded" and rng.random() < 0.3:
        # the seed-only branch: upstream requested but a seed coordinate is 0 (or downstream from the last position)
        if rng.random() < 0.7:
            c["dir"] = "upstream"
            c["seed"] = rng.choice([[0, c["seed"][1]], [c["seed"][0], 0], [0, 0]])
        else:
            c["dir"] = "downstream"
            c["seed"] = [len(c["a"]) - 1, len(c["b"]) - 1]
    if c.get("w1") == "u32":
        c["w1"] = "u16"
    if c.get("w2") == "u32":
        c["w2"] = "u16"
    c["variants"] = True
    return c


def _init_boundary(rng):
    """a region whose length is exactly INIT_SIZE - 2 .. INIT_SIZE + 1: the last antidiagonals touch row / column
    INIT_SIZE - 1, INIT_SIZE (== the initial table size) with and without a doubling"""
    k = 4
    n = rng.choice([98, 99, 100, 101])
    a = [rng.randrange(k) for _ in range(n + 1)]
    b = list(a)
    r = rng.random()
    if r < 0.3:
        del b[rng.randrange(1, len(b))]
    elif r < 0.6:
        b.insert(rng.randrange(1, len(b)), rng.randrange(k))
    mt, mm = rng.randint(2, 4), rng.randint(-4, -2)
    M = [[mt if i == j else mm for j in range(k)] for i in range(k)]
    d = rng.choice(["downstream", "upstream"])
    seed = [0, 0] if d == "downstream" else [len(a) - 1, len(b) - 1]
    c = {"kind": "gapped", "a": a, "b": b, "M": M, "w1": "u8", "w2": "u8", "max": rng.choice([1, 2]),
         "gap": rng.choice([[-3], [-4, -1]]), "seed": seed, "thr": rng.choice([8, 12]), "dir": d}
    if rng.random() < 0.5:
        sizes = sorted(table_sizes(c))
        c["mts"] = rng.choice(sizes) + rng.choice([0, 0, -1])
    c["ops"] = _ops(c)
    return c


# ---------------------------------------------------------------- less-used entry points of the anchor modules
def _internal_child(c):
    import numpy as np
    out = []
    what = c["internal"]
    if what == "trace_starts":
        from biotite.sequence.align.banded import get_global_trace_starts
        n, m, lo, hi = c["n"], c["m"], c["lo"], c["hi"]
        i, j = get_global_trace_starts(n, m, lo, hi)
        got = sorted((int(a_), int(b_) + int(a_) + lo - 1) for a_, b_ in zip(i, j))      # straightened -> classic (i, j)
        # documented: one start per diagonal of the band: the cell of that diagonal in the last row if it exists,
        # otherwise the cell in the last column
        want = sorted((n, n + d) if n + d <= m else (m - d, m) for d in range(lo, hi + 1))
        if got != want:
            out.append(("C09/banded/trace-starts", f"get_global_trace_starts({n}, {m}, {lo}, {hi}) gives cells {got}, expected {want}"))
    elif what == "extend_table":
        from biotite.sequence.align.localgapped import _extend_table
        rows, cols, dim, lim = c["rows"], c["cols"], c["dim"], c["lim"]
        for dt in (np.int32, np.uint8):
            t = (np.arange(rows * cols).reshape(rows, cols) % 100 + 1).astype(dt)
            snap = t.copy()
            new_shape = (rows * 2, cols) if dim == 0 else (rows, cols * 2)
            try:
                r = np.asarray(_extend_table(t, dim, lim))
            except MemoryError:
                if new_shape[0] * new_shape[1] <= lim:
                    out.append(("C09/gapped/extend_table/refused-within-limit",
                                f"_extend_table {rows}x{cols} dim {dim}: MemoryError although {new_shape[0] * new_shape[1]} <= max_size {lim}"))
                if not np.array_equal(t, snap):
                    out.append(("C09/gapped/extend_table/refused-call-modified-table", "table changed by a refused _extend_table"))
                continue
            if new_shape[0] * new_shape[1] > lim:
                out.append(("C09/gapped/extend_table/limit-ignored", f"_extend_table grew to {new_shape} beyond max_size {lim}"))
            if r.shape != new_shape or r.dtype != t.dtype:
                out.append(("C09/gapped/extend_table/shape", f"shape/dtype {r.shape} {r.dtype}, expected {new_shape} {t.dtype}"))
            elif not (np.array_equal(r[:rows, :cols], snap) and not r[rows:, :].any() and not r[:, cols:].any()):
                out.append(("C09/gapped/extend_table/content", f"_extend_table {rows}x{cols} dim {dim}: old cells not preserved "
                            f"or new cells not zero"))
            if not np.array_equal(t, snap):
                out.append(("C09/gapped/extend_table/input-modified", "the old table was modified"))
    elif what == "seed_extend":
        from biotite.sequence.align.localungapped import _seed_extend_generic
        x, y, M, thr = c["x"], c["y"], c["M"], c["thr"]
        total = best = 0
        length = 0
        for k_, (p, q) in enumerate(zip(x, y)):
            total += M[p][q]
            if total >= best:
                best, length = total, k_ + 1
            elif best - total > thr:
                break
        for dt1, dt2 in ((np.uint8, np.uint16), (np.uint16, np.uint8), (np.uint32, np.uint64), (np.uint64, np.uint32)):
            r = _seed_extend_generic(np.array(x, dtype=dt1), np.array(y, dtype=dt2), np.array(M, dtype=np.int32), thr)
            if (int(r[0]), int(r[1])) != (best, length):
                out.append(("C09/ungapped/seed_extend_generic", f"_seed_extend_generic {dt1.__name__}/{dt2.__name__} on {x} {y} thr {thr}: "
                            f"{(int(r[0]), int(r[1]))}, expected {(best, length)}"))
    return out


def _internal(rng):
    r = rng.random()
    if r < 0.4:
        n = rng.randint(1, 8)
        m = rng.randint(n, 10)
        lo = rng.randint(-n + 1, m - 1)
        hi = rng.randint(lo, m - 1)
        return {"kind": "banded", "internal": "trace_starts", "n": n, "m": m, "lo": lo, "hi": hi,
                "a": [0] * n, "b": [0] * m, "M": [[0, 1], [1, 0]], "gap": [-1]}
    if r < 0.7:
        rows, cols, dim = rng.randint(1, 12), rng.randint(1, 12), rng.randint(0, 1)
        new = rows * cols * 2
        return {"kind": "gapped", "internal": "extend_table", "rows": rows, "cols": cols, "dim": dim,
                "lim": new + rng.choice([0, 0, -1, 1, 5, -5]), "a": [0], "b": [0], "M": [[0, 1], [1, 0]], "gap": [-1]}
    k = rng.randint(2, 4)
    ln = rng.randint(0, 9)
    return {"kind": "ungapped", "internal": "seed_extend", "x": [rng.randrange(k) for _ in range(ln)],
            "y": [rng.randrange(k) for _ in range(rng.randint(0, 9))], "thr": rng.choice([0, 1, 2, 3, 5, HUGE]),
            "M": [[rng.randint(-4, 4) for _ in range(k)] for _ in range(k)], "a": [0], "b": [0], "gap": [-1]}


def _internal_oracle(c):
    from common import sandbox
    r = sandbox.run_forked(lambda: _internal_child(c), timeout=60)
    if r[0] == "ok":
        return r[1]
    if r[0] == "err":
        return [(f"C09/internal/{c['internal']}/raises-{r[1]}", f"{c['internal']} raised {r[1]}: {r[2] if len(r) > 2 else ''}; {c}")]
    return [(f"C09/internal/{c['internal']}/crash", f"the process died / hung in {c['internal']}; {c}")]


def _banded_local_affine(rng):
    """align_banded(local=True) with an AFFINE penalty, dense: short sequences over 2-4 letters, cheap gap extension, and
    (engineered half) the situation 'positive stretch, a gap, a mismatch that uses the stretch up, then the best local
    alignment': the cell in front of the optimal alignment has a non-positive match score that stems from a GAP state,
    so the traceback must stop at that zero cell.  Both orientations (gap in either sequence; align_banded also swaps
    the sequences by length), bands that contain the needed diagonals (full, tight, generous, reversed order)."""
    k = rng.randint(2, 4)
    mt = rng.choice([2, 3, 5])
    go, ge = rng.choice([(-7, -1), (-3, -1), (-2, -1), (-4, -2), (-2, -2), (-5, 0), (-3, 0)])
    if rng.random() < 0.55:
        p = rng.randint(2, 4)
        glen = rng.randint(1, 2)
        gcost = go + (glen - 1) * ge
        while p * mt + gcost <= 0:
            p += 1
        rest = p * mt + gcost                       # > 0: what the gap state carries into the mismatch
        mm = -rest - rng.choice([0, 0, 1, 2])       # the mismatch uses it up (<= 0)
        q = p + rng.randint(1, 2)                   # the later stretch wins
        letters = list(range(k))
        U = [rng.choice(letters) for _ in range(p)]
        G = [rng.choice([x for x in letters if x != U[-1]] or letters) for _ in range(glen)]
        x_ = rng.choice(letters)
        y_ = rng.choice([z for z in letters if z != x_] or letters)
        V = [rng.choice(letters) for _ in range(q)]
        a = U + G + [x_] + V
        b = U + [y_] + V
        if rng.random() < 0.5:
            a, b = b, a
        for seq_ in (a, b):                         # a little noise in front / behind
            if rng.random() < 0.3:
                seq_.insert(0, rng.choice(letters))
            if rng.random() < 0.3:
                seq_.append(rng.choice(letters))
    else:
        mm = rng.choice([-4, -3, -2, -1])
        a = [rng.randrange(k) for _ in range(rng.randint(3, 9))]
        b = [rng.randrange(k) for _ in range(rng.randint(3, 9))]
    M = [[mt if i == j else mm for j in range(k)] for i in range(k)]
    n, m = len(a), len(b)
    r = rng.random()
    if r < 0.5:
        band = [-(n - 1) - rng.randint(0, 2), (m - 1) + rng.randint(0, 2)]
    elif r < 0.8:
        band = [-rng.randint(1, 4), rng.randint(1, 4)]
    else:
        band = [rng.randint(-n, 0), rng.randint(0, m)]
    if rng.random() < 0.4:
        band.reverse()
    c = {"kind": "banded", "a": a, "b": b, "M": M, "w1": rng.choice(["u8", "u8", "u8", "u16"]), "w2": "u8",
         "max": rng.choice([1, 3, 20]), "gap": [go, ge], "local": True, "band": band}
    c["ops"] = _ops(c)
    return c


BIG = 2**31


def no_overflow(c):
    """NoOverflow (assumption of the Z-valued model): every table entry / running score fits int32"""
    mag = max([abs(x) for r in c["M"] for x in r] + [abs(g) for g in c["gap"] if c["kind"] != "ungapped"])
    span = (len(c["a"]) + len(c["b"]) + 2) * mag
    if c["kind"] == "gapped":
        return c["thr"] + 1 + span < BIG - 1
    if c["kind"] == "ungapped":
        return span < BIG - 1 and c["thr"] < BIG
    return span + 2 * mag < BIG - 1


def _magnitudes(rng, safe):
    """matrix entries / penalties / thresholds far away from the usual +-6: `safe` keeps them inside NoOverflow (valid
    stream, full ops: the Z-valued model must still agree), otherwise they sit at / beyond the int32 bound
    (oracle only: wrap-around is a known finding, arguments that do not fit a C int must raise OverflowError)."""
    k = rng.randint(2, 3)
    kind = rng.choice(["banded", "gapped", "ungapped"])
    a = [rng.randrange(k) for _ in range(rng.randint(1, 6))]
    b = [rng.randrange(k) for _ in range(rng.randint(1, 6))]
    n, m = len(a), len(b)
    if safe:
        mag = rng.choice([10**3, 10**5, 10**7])
        M = [[rng.randint(-mag, mag) for _ in range(k)] for _ in range(k)]
        gap = rng.choice([[-rng.randint(1, mag)], [-rng.randint(1, mag), -rng.randint(1, mag)]])
    else:
        style = rng.choice(["M", "M", "gap", "cint"] if kind == "banded" else ["M", "M", "gap", "thr", "thr", "cint"])
        if kind == "ungapped" and style == "gap":
            style = "M"
        mag = rng.choice([BIG - 2, BIG - 2, 10**9, 2 * 10**8])
        M = ([[rng.choice([mag, -mag, 0, mag - rng.randint(0, 3)]) for _ in range(k)] for _ in range(k)]
             if style == "M" else [[rng.randint(-4, 5) for _ in range(k)] for _ in range(k)])
        gap = ([-rng.choice([BIG - 1, BIG, 10**9])] * rng.randint(1, 2) if style == "gap" else
               rng.choice([[-1], [-2, -1]]))
    c = {"kind": kind, "a": a, "b": b, "M": M, "w1": "u8", "w2": "u8", "max": rng.choice([1, 3]), "gap": gap}
    if kind == "banded":
        c["local"] = rng.random() < 0.5
        c["band"] = [-rng.randint(0, n), rng.randint(0, m)]
        if len(gap) == 2 and safe and max(gap) + gap[1] < min(gap) + min(0, min(x for r in M for x in r)):
            c["gap"] = [gap[0]]          # keep the (separately recorded) sentinel underflow out of this stream
    else:
        if kind == "ungapped":
            c["gap"] = [-1000]
        c["seed"] = [rng.randrange(n), rng.randrange(m)]
        c["dir"] = rng.choice(["both", "upstream", "downstream"])
        span = (n + m + 2) * max([abs(x) for r in M for x in r] + [abs(g) for g in gap])
        if safe:
            c["thr"] = rng.choice([0, 5, 10**6, BIG - 3 - span if kind == "gapped" else BIG - 1])
            c["thr"] = max(0, c["thr"])
        else:
            c["thr"] = rng.choice([5, 5, BIG - 2, BIG - 3, BIG - 1 - rng.randint(1, 40)]) if style == "thr" else 5
    if safe:
        if not no_overflow(c):
            c["thr"] = 5 if "thr" in c else None
            if c.get("thr") is None:
                c.pop("thr", None)
        c["ops"] = _ops(c)
        return c
    c["overflow"] = not no_overflow(c)
    if not c["overflow"]:
        c.pop("overflow")
    if style == "cint":
        c["cint"] = True
        c.pop("overflow", None)
        # arguments converted to a C int at the call boundary (max_number / max_table_size of the seeded functions are
        # converted only when a traceback / a table growth happens, so they are not demanded here)
        what = rng.choice(["thr", "seed"] if kind != "banded" else ["max"])
        if what == "thr":
            c["thr"] = rng.choice([BIG, 2**40])
        elif what == "seed":
            c["seed"] = rng.choice([[BIG, 0], [0, 2**40]])
        elif what == "max":
            c["max"] = rng.choice([BIG, 2**40])
        else:
            c["mts"] = 2**63
    return c


def cases(rng, tier):
    quick = tier == "quick"
    for k in range(120 if quick else 1200):
        yield _magnitudes(rng, safe=True)
    for k in range(80 if quick else 800):
        yield _magnitudes(rng, safe=False)
    for k in range(250 if quick else 2500):
        yield _banded_local_affine(rng)
    for k in range(90 if quick else 600):
        yield _internal(rng)
    for k in range(100 if quick else 800):
        yield _variants(rng)
    for k in range(6 if quick else 40):
        yield _init_boundary(rng)
    for k in range(150 if quick else 1500):
        yield _multi_end(rng)
    for k in range(120 if quick else 1200):
        yield _xdrop_edge(rng)
    for k in range(700 if quick else 8500):
        yield _case(rng, 8 if (quick or k % 5) else 14, allow_empty=(k % 12 == 0))
    for k in range(60 if quick else 600):
        yield _case(rng, 6, malformed=True)
    for k in range(60 if quick else 600):
        yield _on_optimal(rng)
    for k in range(6 if quick else 60):
        yield _long(rng, mem=(k % 2 == 1))
    for k in range(8 if quick else 60):
        yield _long_exact(rng)
    # exhaustive small shapes: every pair of length <= L over 2 letters, every seed / every band
    import itertools
    L = 2 if quick else 3
    seqs = [list(p) for ln in range(1, L + 1) for p in itertools.product([0, 1], repeat=ln)]
    grid_M = [[[1, -1], [-1, 1]], [[2, -3], [0, 1]]] if quick else \
        [[[1, -1], [-1, 1]], [[2, -3], [0, 1]], [[-1, -2], [-3, -1]], [[0, 0], [0, 0]], [[3, 1], [-2, 2]]]
    for a in seqs:
        for b in seqs:
            for Mx in grid_M:
                n, m = len(a), len(b)
                g = rng.choice([[-1], [-2, -1], [-1, -2]])
                lo, hi = rng.randint(-n, 0), rng.randint(0, m)
                for local in (False, True):
                    c = {"kind": "banded", "a": a, "b": b, "M": Mx, "w1": "u8", "w2": "u8", "max": 20,
                         "gap": rng.choice([[0], g]), "local": local, "band": [hi, lo]}
                    c["ops"] = _ops(c)
                    yield c
                seed = [rng.randrange(n), rng.randrange(m)]
                for kind in ("gapped", "ungapped"):
                    c = {"kind": kind, "a": a, "b": b, "M": Mx, "w1": "u8", "w2": "u8", "max": 20,
                         "gap": g if kind == "gapped" else [-1000], "seed": seed, "thr": rng.choice([0, 1, 3, HUGE]),
                         "dir": rng.choice(["both", "upstream", "downstream"])}
                    c["ops"] = _ops(c)
                    yield c


def corpus():
    out = []
    base = {"w1": "u8", "w2": "u8", "max": 10}

    def add(**kw):
        c = dict(base, **kw)
        c["ops"] = _ops(c)
        out.append(c)
    I2 = [[1, -1], [-1, 1]]
    # banded: band orders, single diagonal, outside, empty sequences, swap
    add(kind="banded", a=[0, 1, 0], b=[1, 1], M=I2, gap=[-1], local=False, band=[-5, 5])
    add(kind="banded", a=[0, 1, 0], b=[1, 1], M=I2, gap=[-1], local=False, band=[5, -5])
    add(kind="banded", a=[0, 1, 0], b=[1, 1], M=I2, gap=[-1], local=False, band=[1, 1])
    add(kind="banded", a=[0, 1, 0], b=[1, 1], M=I2, gap=[-1], local=False, band=[-2, -2])
    add(kind="banded", a=[0, 1, 0], b=[1, 1], M=I2, gap=[-1], local=False, band=[2, 3])
    add(kind="banded", a=[0, 1, 0], b=[1, 1], M=I2, gap=[-1], local=False, band=[-3, -3])
    add(kind="banded", a=[], b=[0, 1], M=I2, gap=[-1], local=False, band=[0, 1])
    add(kind="banded", a=[0, 1], b=[], M=I2, gap=[-1], local=True, band=[-3, 3])
    add(kind="banded", a=[], b=[], M=I2, gap=[-1], local=False, band=[-3, 3])
    add(kind="banded", a=[0, 1, 0], b=[1, 1, 1, 1], M=I2, gap=[0], local=True, band=[-1, 0])
    add(kind="banded", a=[0, 1, 0], b=[1, 0, 1, 1], M=I2, gap=[-1, 0], local=False, band=[-1, 2])
    add(kind="banded", a=[0, 1, 0, 1], b=[0, 1, 1, 0, 1], M=I2, gap=[-1, -5], local=False, band=[-1, 1])
    add(kind="banded", a=[0, 1, 0, 1], b=[0, 1, 1, 0, 1], M=I2, gap=[-2, -1], local=True, band=[-1, 1])
    # affine semi-global results whose completion abuts a free terminal gap (class affAbutFree; align_optimal gives 0 / 1)
    add(kind="banded", a=[1, 2, 2], b=[1, 0, 1, 0, 0], M=[[4, -3], [-3, 4], [-3, -3]], gap=[-1, -1], local=False, band=[-1, 6])
    add(kind="banded", a=[1, 2], b=[1, 0], M=[[4, -3], [-3, 4], [-3, -3]], gap=[-1, -1], local=False, band=[-2, 2])
    # seeded: borders, directions, thresholds
    for d in ("both", "upstream", "downstream"):
        for seed in ([0, 0], [3, 2], [1, 3], [0, 3], [3, 0]):
            for thr in (0, 2, HUGE):
                add(kind="gapped", a=[0, 1, 1, 0], b=[0, 1, 0, 0], M=I2, gap=[-2], seed=seed, thr=thr, dir=d)
                add(kind="gapped", a=[0, 1, 1, 0], b=[0, 1, 0, 0], M=I2, gap=[-2, -1], seed=seed, thr=thr, dir=d)
                add(kind="ungapped", a=[0, 1, 1, 0], b=[0, 1, 0, 0], M=I2, gap=[-1000], seed=seed, thr=thr, dir=d)
    add(kind="gapped", a=[0, 1, 1, 0], b=[0, 1, 0, 0], M=I2, gap=[-2], seed=[1, 1], thr=3, dir="both", mts=1)
    add(kind="gapped", a=[0, 1, 1, 0], b=[0, 1, 0, 0], M=I2, gap=[-2], seed=[1, 1], thr=3, dir="both", mts=9)
    return out


def nontrivial(case, impl_out):
    if case.get("internal") or case.get("variants"):
        return True
    Mx = case["M"]
    return (bool(case["a"]) and bool(case["b"]) and len({x for r in Mx for x in r}) > 1
            and bool(impl_out) and impl_out[0].startswith("ok"))


def signature(case):
    keys = ["kind", "a", "b", "M", "gap", "local", "band", "seed", "thr", "dir", "max", "mts", "variants", "internal", "overflow", "cint",
            "n", "m", "lo", "hi", "rows", "cols", "dim", "lim", "x", "y"]
    return "|".join(str(case.get(k)) for k in keys)


def distribution(cases, impl_outs):
    d = {"kind": {}, "gap": {}, "band": {}, "seed": {}, "threshold": {}, "dir": {}, "len": {}, "errors": {}, "n_traces": {},
         "widths": {}, "opt_class": {}}

    def inc(k, x):
        d[k][x] = d[k].get(x, 0) + 1
    d["stream"] = {}
    for c, o in zip(cases, impl_outs):
        if c.get("internal"):
            inc("stream", "internal:" + c["internal"])
            continue
        if c.get("variants"):
            inc("stream", "variants:" + c["kind"])
            continue
        n, m = len(c["a"]), len(c["b"])
        inc("kind", c["kind"] + ("/local" if c.get("local") else ""))
        inc("gap", "linear" if len(c["gap"]) == 1 else "affine")
        inc("widths", c.get("w1", "u8") + "/" + c.get("w2", "u8"))
        ln = max(n, m)
        inc("len", "0" if min(n, m) == 0 else "1-3" if ln <= 3 else "4-8" if ln <= 8 else "9-20" if ln <= 20 else ">100")
        if c["kind"] == "banded":
            lo, hi = min(c["band"]), max(c["band"])
            inc("band", "full" if lo <= -(n - 1) and hi >= m - 1 else "single" if lo == hi else
                "partly-outside" if lo < -(n - 1) or hi > m - 1 else "inside")
        else:
            si, sj = c["seed"]
            inc("seed", "out" if not (0 <= si < n and 0 <= sj < m) else
                "border" if si in (0, n - 1) or sj in (0, m - 1) else "inner")
            inc("threshold", "0" if c["thr"] == 0 else "neg" if c["thr"] < 0 else "cannot-bind" if c["thr"] >= HUGE else "small")
            inc("dir", c.get("dir", "both"))
        if o:
            if o[0].startswith("ERR") or o[0] == "CRASH":
                inc("errors", o[0])
            mm = re.match(r"ok n=(\d+) sound=(\d+) abutfree=(\d+)", o[-1])
            if mm:
                k = int(mm.group(1))
                inc("n_traces", "1" if k == 1 else "2-5" if k <= 5 else "6+")
                if c["kind"] == "banded" and not c.get("local") and len(c["gap"]) == 2:
                    inc("opt_class", "affAbutFree" if int(mm.group(3)) else "affNoAbut")
                if int(mm.group(2)) < k:
                    inc("opt_class", "rejected(known finding)")
    return d


def search(rng, problems, tier):
    for _ in range(2500 if tier == "quick" else 8000):
        c = _case(rng, 5)
        yield c
    for _ in range(300):
        yield _on_optimal(rng, 5)
    for _ in range(300):
        yield _case(rng, 8)


def shrink(case, key):
    """drop symbols from either sequence while the same finding key persists (seed / band kept when still meaningful)"""
    cur = dict(case)
    changed = True
    steps = 0
    while changed and steps < 200:
        changed = False
        for which in ("a", "b"):
            xs = cur[which]
            for k in range(len(xs)):
                steps += 1
                cand = dict(cur, **{which: xs[:k] + xs[k + 1:]})
                if "seed" in cand:
                    s = list(cand["seed"])
                    idx = 0 if which == "a" else 1
                    if k < s[idx]:
                        s[idx] -= 1
                    cand["seed"] = s
                    if not (0 <= s[0] < len(cand["a"]) and 0 <= s[1] < len(cand["b"])):
                        continue
                if "ops" in cand:
                    cand["ops"] = _ops(cand)
                try:
                    if any(k2 == key for k2, _ in oracle(cand)):
                        cur = cand
                        changed = True
                        break
                except Exception:  # noqa: BLE001
                    pass
            if changed:
                break
    return cur

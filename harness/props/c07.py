"""C07 — PDB files round-trip structures and never emit shifted columns.

Op grammar (one op per line; strings are hex of their ASCII bytes prefixed with `x`, a finite binary
float is `[+-]<m>p<e>` = ±m/2^e, i.e. the exact value of the float32/float64; non-finite: `nan`, `+inf`, `-inf`):
  h36enc <n> <w>                       encode_hybrid36(n, w)            -> ok <text> | ERR:<cls>
  h36dec <xhex>                        decode_hybrid36(text)            -> ok <n>    | ERR:<cls>
  atom <het> <id> <xname> <xres> <xchain> <resid> <xins> <xel> <occ> <bf> <q>   append an atom       -> ok
  model <x,y,z;x,y,z;...>              append one model (a coordinate triple per atom)               -> ok
  bond <i> <j>                         append a row of array.bonds.as_array()                        -> ok
  cell <a> <b> <c> <al> <be> <ga> <9 box vector components>   box of the structure: the six values the writer formats
                                       (unitcell_from_vectors, degrees; used by the model) and the float32 vectors (used by the code) -> ok
  write <h36> <hasid> <hasb> <hasocc> <hasq> <hasbonds>   PDBFile.set_structure -> ok <n> |line|line|…| | ERR:<cls>
  rawline <xhex>                       append a raw line to the file                                 -> ok
  readmodel <k> <include_bonds>        the same with model=k (an AtomArray, reported as M=1)
  readalt <first|occupancy|all> <b>    the same with altloc=<mode>; `all` appends L:<altloc ids, blank as _>
  read <include_bonds>                 PDBFile.read(text).get_structure(extra_fields=all, include_bonds)
                                       -> ok M=<models> N=<atoms> A:<atoms> C:<coords in 1e-3> B:<bonds> X:<cell read: 1e-3 A, 1e-2 deg | -> | ERR:<cls>
"""
import ast
import io
import json
import math
import os
import re
import warnings
from fractions import Fraction

PROP = "C07"
PROPS_MODULE = "BiotiteModel.Props.C07"
DRIVER_MODULE = "BiotiteModel.Driver.C07"
EXT_MODULES = ["biotite.structure.io.pdb.hybrid36"]
GEN_FILES = ["BiotiteModel/Gen/C07.lean", "BiotiteModel/Gen/C07Logic.lean"]
RULE = ("seeded atom arrays / stacks (1-12 atoms, 1-3 models, optional atom_id/b_factor/occupancy/charge/bonds, "
        "hybrid-36 on/off) whose values sit on the column boundaries (float32 neighbours of -999.9995/9999.9995, "
        "B-factors around 999.995/-99.995, ids around 99999/9999/-9999/-999 and the hybrid-36 range borders, 0-4 "
        "character names with 1-2 letter elements, empty chain; boxes with cell lengths 9999.999/10000.0/99999.99/0.001 and angles near 0/90/180), written and re-read op by op against the Lean model "
        "(text of every line compared), a malformed stream (one field beyond its column: model and code must both "
        "refuse, incl. NaN/inf), get_structure(model=k) for k in -M-3..M+2, files with alternate locations read with altloc=first/occupancy/all, raw ATOM lines in non-canonical but valid layouts for the reader, hybrid-36 numbers at all range "
        "borders for widths 1-5; oracle: independent PDB column table + write/read equality + exhaustive width-4 "
        "hybrid-36 (thorough: strided width 5); purity / object-reuse / refused-call / NumPy-spelling / entry-point oracles on the written cases. non-trivial = has an atom or a hybrid-36 op; distinct = different op text")
TRUSTED = ["numpy chararray concatenation/justification and rstrip-on-index modelled by documented semantics",
           "CPython float formatting (format(x, '.3f')) and float() modelled as exact round-half-even / exact decimal reading",
           "BondList construction (C02) and filter_solvent are inputs of the model, not verified here"]
ASSUMPTIONS = ["field characters are printable non-blank ASCII; ids fit a C int",
               "CRYST1 (box through trigonometry), altloc filtering, element guessing and REMARK parsing are exercised by the "
               "oracle only, not modelled",
               "hybrid-36 C int arithmetic is overflow-free for widths <= 6 (checked by correspondence), the all-width theorems are about the algorithm over unbounded naturals"]
LEVEL_TEXT = ("Lean proofs for all inputs: hybrid-36 decode(encode n w) = n for every width w >= 1 and n <= maxNumber w (also inside a "
              "blank-padded column), encode(decode s) = s on canonical strings, rejection beyond the range, width; the repaired "
              "_check_pdb_compatibility accepts exactly the atoms whose fields fit after rounding (C07_compat_sound / _exact); NaN / +-inf in "
              "coordinates or a present B-factor/occupancy annotation are refused although their text would fit the column "
              "(C07_nonfinite_refused); every accepted ATOM/HETATM record is 80 characters with all 19 fields in their fixed columns "
              "(C07_columns); full record round trip C07_atom_roundtrip (B-factor/occupancy to 1e-2, charge, coordinates to 1e-3; float() "
              "on the writer's text = exact decimal parsing; C07_round_error); C07_models / C07_models_single: model=k / -k select exactly "
              "that model's records, 0 and out-of-range are refused; C07_stack_assembly: the reader's model split of a written stack returns "
              "the records of model m in order (record j at [m, j]), equal block lengths, unequal lengths raise InvalidFileError "
              "(C07_unequal_models_rejected); empty structures are refused (C07_empty_rejected); C07_conect_roundtrip: the set of carriable bonds survives write->read through the atom-id "
              "map incl. hybrid-36 ids; C07_cryst1_roundtrip; C07_altloc_first / C07_altloc_occupancy: the altloc filters keep exactly the "
              "rows without id and those of the first / highest-occupancy id per residue; C07_file_roundtrip composes CRYST1, the model "
              "split and the per-record round trip for a whole written stack at record level; C07_h36_decode_unvalidated_defect records that the "
              "decoder does not validate characters (known finding); regenerated ATOM and CRYST1 column tables and (C07_gen_*_logic, "
              "C07_gen_defaults) the guards, literals, step order, defaults and error classes of writer, reader, check and hybrid36.pyx. "
              "Partial: box vectors <-> cell parameters (float32 trigonometry), element guessing, and the final packing of the per-record "
              "results into numpy arrays (mapMR in readPdb) are tied by correspondence and oracle only.")
LEVEL_NOTE = "float formatting/parsing, numpy chararray and BondList semantics are modelled, not verified; see notes/C07.md"
TECHNIQUE = "Lean 4 proof (induction over digit lists / list layout lemmas) + regenerated column tables + correspondence"

ALPHA = "ABCDEFGHIJKLMNOPQRSTUVWXYZabcdxyz0123456789'*"
H36_MAX = {4: 2436111, 5: 87440031}
FIXTURE_CCD = os.path.join(os.path.dirname(os.path.dirname(os.path.dirname(os.path.abspath(__file__)))),
                           "fixtures", "C07", "components.bcif")


# ---------------------------------------------------------------- small encoders
def hx(s):
    return "x" + s.encode("ascii").hex()


def unhx(t):
    return bytes.fromhex(t[1:]).decode("ascii")


def fx(v):
    """exact value of a finite float as [+-]m p e"""
    v = float(v)
    if math.isnan(v):
        return "nan"
    if math.isinf(v):
        return "+inf" if v > 0 else "-inf"
    fr = Fraction(abs(v))
    e = fr.denominator.bit_length() - 1
    return ("-" if math.copysign(1.0, v) < 0 else "+") + f"{fr.numerator}p{e}"


def unfx(t):
    if t in ("nan", "+inf", "-inf"):
        return float(t)
    m, e = t[1:].split("p")
    v = math.ldexp(int(m), -int(e)) if int(e) < 1000 else float(Fraction(int(m), 2 ** int(e)))
    return -v if t[0] == "-" else v


def f32(v):
    import numpy as np
    return float(np.float32(v))


def f32_neighbours(v, k=2):
    """float32 values around v (k below / k above), as Python floats"""
    import numpy as np
    x = np.float32(v)
    out = [float(x)]
    lo = hi = x
    for _ in range(k):
        lo = np.nextafter(lo, np.float32(-np.inf), dtype=np.float32)
        hi = np.nextafter(hi, np.float32(np.inf), dtype=np.float32)
        out += [float(lo), float(hi)]
    return out


# ---------------------------------------------------------------- translator (Gen)
def _spec(s):
    m = re.fullmatch(r"([<>]?)(\d+)(?:\.(\d+)f)?", s)
    if not m:
        raise ValueError(f"unexpected format spec {s!r}")
    return (m.group(1) or "<", int(m.group(2)), int(m.group(3)) if m.group(3) else None)


def _flatten_add(node):
    if isinstance(node, ast.BinOp) and isinstance(node.op, ast.Add):
        return _flatten_add(node.left) + _flatten_add(node.right)
    return [node]


def _layout(expr, what, blank="spaces"):
    """`a.ljust(6) + b.rjust(5) + spaces + 10 * spaces + c` -> [(name, just, width)]; `blank` = the variable holding one blank per atom"""
    out = []
    for n in _flatten_add(expr):
        if isinstance(n, ast.Call) and isinstance(n.func, ast.Attribute) and n.func.attr in ("ljust", "rjust") \
                and isinstance(n.func.value, ast.Name) and len(n.args) == 1 and isinstance(n.args[0], ast.Constant):
            out.append((n.func.value.id, n.func.attr, int(n.args[0].value)))
        elif isinstance(n, ast.Name) and n.id == blank:
            out.append(("spaces", "lit", 1))
        elif isinstance(n, ast.BinOp) and isinstance(n.op, ast.Mult) and isinstance(n.left, ast.Constant) \
                and isinstance(n.right, ast.Name) and n.right.id == blank:
            out.append(("spaces", "lit", int(n.left.value)))
        elif isinstance(n, ast.Name):
            out.append((n.id, "none", 0))       # written without padding: its own length
        else:
            raise ValueError(f"unexpected term in {what}: {ast.dump(n)[:80]}")
    return out


def _find_func(tree, name):
    for n in ast.walk(tree):
        if isinstance(n, ast.FunctionDef) and n.name == name:
            return n
    raise ValueError(f"function {name} not found")


def _fstring_parts(js):
    parts = []
    for v in js.values:
        if isinstance(v, ast.Constant):
            parts.append(("lit", v.value, None))
        else:
            spec = "".join(c.value for c in v.format_spec.values) if v.format_spec is not None else ""
            parts.append(("val", ast.unparse(v.value), spec))
    return parts


def _slice_roles(tree, named):
    """{conventional key: (a, b)} for the module-level slice constants, found by their use in get_structure / get_space_group"""
    meth = _methods(tree)
    gs = meth.get("get_structure")
    if gs is None:
        raise ValueError("PDBFile.get_structure not found")

    def slice_in(expr):
        for c in ast.walk(expr):
            if isinstance(c, ast.Subscript) and isinstance(c.slice, ast.Name) and c.slice.id in named:
                return c.slice.id
        return None
    # public sinks of local variables: array.<attr> = L,  array.set_annotation("name", …L…),  L2 = …L…
    sink, alias = {}, {}
    for n in ast.walk(gs):
        if isinstance(n, ast.Assign) and isinstance(n.targets[0], ast.Attribute) and ast.unparse(n.targets[0].value) == "array" \
                and isinstance(n.value, ast.Name):
            sink.setdefault(n.value.id, n.targets[0].attr)
        if isinstance(n, ast.Call) and isinstance(n.func, ast.Attribute) and n.func.attr == "set_annotation" and len(n.args) == 2 \
                and isinstance(n.args[0], ast.Constant):
            for c in ast.walk(n.args[1]):
                if isinstance(c, ast.Name):
                    sink.setdefault(c.id, n.args[0].value)
        if isinstance(n, ast.Assign) and isinstance(n.targets[0], ast.Name):
            for c in ast.walk(n.value):
                if isinstance(c, ast.Name) and c.id != n.targets[0].id:
                    alias.setdefault(c.id, []).append(n.targets[0].id)

    def role_of(local, depth=0):
        if local in sink:
            return sink[local]
        if depth < 3:
            for nxt in alias.get(local, []):
                r = role_of(nxt, depth + 1)
                if r:
                    return r
        return None
    key = {"chain_id": "_chain_id", "res_id": "_res_id", "ins_code": "_ins_code", "res_name": "_res_name", "atom_name": "_atom_name",
           "element": "_element", "altloc_id": "_alt_loc", "atom_id": "_atom_id", "charge": "_charge", "occupancy": "_occupancy",
           "b_factor": "_temp_f"}
    out = {}
    cell_locals = {}
    # a slice taken once into a local (`field = line[_charge]`) and used from there
    local_slice = {}
    for n in ast.walk(gs):
        if isinstance(n, ast.Assign) and len(n.targets) == 1 and isinstance(n.targets[0], ast.Name) and isinstance(n.value, ast.Subscript) \
                and isinstance(n.value.slice, ast.Name) and n.value.slice.id in named:
            local_slice[n.targets[0].id] = n.value.slice.id
    for n in ast.walk(gs):
        if not (isinstance(n, ast.Assign) and len(n.targets) == 1):
            continue
        t, sl = n.targets[0], slice_in(n.value)
        if sl is None and not isinstance(t, ast.Name):
            via = [c.id for c in ast.walk(n.value) if isinstance(c, ast.Name) and c.id in local_slice]
            sl = local_slice[via[0]] if via else None
        if sl is None:
            continue
        if any(isinstance(c, ast.Constant) and c.value == "HETATM" for c in ast.walk(n.value)):
            out["_record"] = named[sl]
        elif isinstance(t, ast.Subscript) and isinstance(t.slice, ast.Tuple) and isinstance(t.slice.elts[-1], ast.Constant) \
                and t.slice.elts[-1].value in (0, 1, 2) and any(isinstance(c, ast.Call) and ast.unparse(c.func) == "float" for c in ast.walk(n.value)):
            out[("_coord_x", "_coord_y", "_coord_z")[t.slice.elts[-1].value]] = named[sl]
        elif isinstance(t, ast.Subscript) and isinstance(t.value, ast.Name):
            r = role_of(t.value.id)
            if r in key:
                out.setdefault(key[r], named[sl])
        elif isinstance(t, ast.Name):
            cell_locals[t.id] = named[sl]
    for n in ast.walk(gs):
        if isinstance(n, ast.Call) and ast.unparse(n.func) == "vectors_from_unitcell" and len(n.args) == 6:
            for k, a2 in zip(("_a", "_b", "_c", "_alpha", "_beta", "_gamma"), n.args):
                if isinstance(a2, ast.Name) and a2.id in cell_locals:
                    out[k] = cell_locals[a2.id]
    sg = meth.get("get_space_group")
    if sg is not None:
        loc = {}
        for n in ast.walk(sg):
            if isinstance(n, ast.Assign) and isinstance(n.targets[0], ast.Name) and slice_in(n.value):
                loc[n.targets[0].id] = named[slice_in(n.value)]
        for n in ast.walk(sg):
            if isinstance(n, ast.Call) and n.keywords:
                for kw in n.keywords:
                    if kw.arg in ("space_group", "z_val") and isinstance(kw.value, ast.Name) and kw.value.id in loc:
                        out["_space" if kw.arg == "space_group" else "_z"] = loc[kw.value.id]
    return out


def gen_lean():
    from common import paths
    fsrc = open(os.path.join(paths.SRC, "biotite/structure/io/pdb/file.py")).read()
    tree = ast.parse(fsrc)
    slices, consts = {}, {}
    for n in tree.body:
        if isinstance(n, ast.Assign) and len(n.targets) == 1 and isinstance(n.targets[0], ast.Name):
            name = n.targets[0].id
            if isinstance(n.value, ast.Call) and getattr(n.value.func, "id", None) == "slice":
                slices[name] = tuple(int(a.value) for a in n.value.args)
            elif name.startswith("_PDB_MAX") and isinstance(n.value, ast.Constant):
                consts[name] = int(n.value.value)
    need = ["_record", "_atom_id", "_atom_name", "_alt_loc", "_res_name", "_chain_id", "_res_id", "_ins_code",
            "_coord_x", "_coord_y", "_coord_z", "_occupancy", "_temp_f", "_element", "_charge"]
    # the slice constants are private names: each gets its ROLE from how the reader uses it (which public annotation / which
    # coordinate axis / which CRYST1 parameter the sliced text ends up in), and is then listed under the role's conventional key
    slices = _slice_roles(tree, slices)
    for k in need:
        if k not in slices:
            raise ValueError(f"column slice with the role of {k} not found in file.py")
    ss = _find_func(tree, "set_structure")
    consts = {}
    all_consts = {n.targets[0].id: n.value.value for n in tree.body if isinstance(n, ast.Assign) and isinstance(n.targets[0], ast.Name)
                  and isinstance(n.value, ast.Constant) and isinstance(n.value.value, int)}
    for n in ast.walk(ss):
        if isinstance(n, ast.Call) and ast.unparse(n.func) == "np.where" and len(n.args) == 3:
            mods = [m for m in ast.walk(n.args[1]) if isinstance(m, ast.BinOp) and isinstance(m.op, ast.Mod)]
            if mods:
                r = mods[0].right
                val = r.value if isinstance(r, ast.Constant) else all_consts.get(getattr(r, "id", None))
                consts["_PDB_MAX_RESIDUES" if "res_id" in ast.unparse(n.args[2]) else "_PDB_MAX_ATOMS"] = val
    for k in ("_PDB_MAX_ATOMS", "_PDB_MAX_RESIDUES"):
        if not isinstance(consts.get(k), int):
            raise ValueError(f"the wrap limit with the role of {k} was not found in set_structure")
    # Everything below is found by *shape*, not by the names of local variables, so renaming a local stays quiet;
    # fields get role names by their position in the sum.
    first = second = None
    numfmt = {}
    line_parts = model_parts = cryst_parts = None
    h36w = {}
    # the variable that holds one blank per atom: assigned from np.full(n, " ", …)
    blank = None
    for n in ast.walk(ss):
        if isinstance(n, ast.Assign) and isinstance(n.targets[0], ast.Name):
            for c in ast.walk(n.value):
                if isinstance(c, ast.Call) and ast.unparse(c.func) == "np.full" and len(c.args) == 2 and isinstance(c.args[1], ast.Constant) \
                        and c.args[1].value == " ":
                    blank = n.targets[0].id
    if blank is None:
        raise ValueError("set_structure: the per-atom blank column array (np.full(n, ' ', …)) was not found")
    roles1 = ["record", "pdb_atom_id", "spaces", "names", "spaces", "res_names", "spaces", "chain_ids", "pdb_res_id", "ins_codes"]
    roles2 = ["occupancy", "b_factor", "spaces", "elements", "charge"]
    for n in ast.walk(ss):
        if isinstance(n, ast.Assign) and isinstance(n.value, ast.BinOp) and isinstance(n.value.op, ast.Add):
            terms = _flatten_add(n.value)
            just = [t for t in terms if isinstance(t, ast.Call) and isinstance(t.func, ast.Attribute) and t.func.attr in ("ljust", "rjust")]
            if len(terms) >= 4 and just:
                lay = _layout(n.value, "half", blank)
                has_mult = any(isinstance(t, ast.BinOp) and isinstance(t.op, ast.Mult) for t in terms)
                roles = roles2 if has_mult else roles1
                if len(lay) != len(roles):
                    raise ValueError(f"set_structure: a record half has {len(lay)} terms, expected {len(roles)}")
                for (nm, j, w), r in zip(lay, roles):
                    if (nm == "spaces") != (r == "spaces"):
                        raise ValueError("set_structure: blank columns are not where they are expected")
                lay = [(r, j, w) for (nm, j, w), r in zip(lay, roles)]
                if has_mult:
                    second = lay
                else:
                    first = lay
        if isinstance(n, ast.ListComp) and isinstance(n.elt, ast.JoinedStr) and isinstance(n.generators[0].iter, ast.Attribute) \
                and n.generators[0].iter.attr in ("b_factor", "occupancy"):
            p = _fstring_parts(n.elt)
            if len(p) == 1 and p[0][0] == "val":
                numfmt[n.generators[0].iter.attr] = p[0][2]
        if isinstance(n, ast.ListComp) and isinstance(n.elt, ast.Call) and getattr(n.elt.func, "id", None) == "encode_hybrid36":
            key = "pdb_res_id" if "res_id" in ast.unparse(n.generators[0].iter) else "pdb_atom_id"
            h36w[key] = int(n.elt.args[1].value)
        if isinstance(n, ast.JoinedStr):
            p = _fstring_parts(n)
            vals = [q for q in p if q[0] == "val"]
            if len(vals) == 5 and all(q[2] for q in vals):
                it = iter(["start", "x", "y", "z", "end"])
                line_parts = [(k, next(it) if k == "val" else a, b) for k, a, b in p]
            if len(vals) == 1 and p[0][0] == "lit" and p[0][1].startswith("MODEL"):
                model_parts = [(k, "model_num" if k == "val" else a, b) for k, a, b in p]
            if len(vals) == 6 and p[0][0] == "lit" and p[0][1] == "CRYST1":
                it6 = iter(["a", "b", "c", "alpha", "beta", "gamma"])
                cryst_parts = [(k, next(it6) if k == "val" else a, b) for k, a, b in p]
    if not (first and second and line_parts and model_parts) or set(numfmt) != {"b_factor", "occupancy"} \
            or set(h36w) != {"pdb_atom_id", "pdb_res_id"}:
        raise ValueError("set_structure: line assembly not found in the expected shape")
    if not cryst_parts or cryst_parts[-1][0] != "lit":
        raise ValueError("set_structure: CRYST1 f-string not found in the expected shape")
    cslices = ["_a", "_b", "_c", "_alpha", "_beta", "_gamma", "_space", "_z"]
    for k in cslices:
        if k not in slices:
            raise ValueError(f"CRYST1 column slice {k} not found in file.py")
    chk, numchk_fn = _private_functions(tree)["check"], _private_functions(tree)["numcheck"]
    lens, numchk, minids = {}, {}, {}
    for n in ast.walk(chk):
        # any([len(name) > K for name in array.<field>])
        if isinstance(n, ast.ListComp) and isinstance(n.elt, ast.Compare) and isinstance(n.elt.left, ast.Call) \
                and getattr(n.elt.left.func, "id", None) == "len" and isinstance(n.elt.ops[0], ast.Gt):
            it = n.generators[0].iter
            if isinstance(it, ast.Attribute):
                lens[it.attr] = int(n.elt.comparators[0].value)
        if isinstance(n, ast.Call) and getattr(n.func, "id", None) == numchk_fn.name:
            src = ast.unparse(n.args[0])
            key = "coord" if "coord" in src else src.split(".")[-1]
            numchk[key] = (n.args[1].value, int(n.args[2].value))
        if isinstance(n, ast.Compare) and isinstance(n.ops[0], ast.Lt) and isinstance(n.comparators[0], ast.UnaryOp) \
                and isinstance(n.comparators[0].op, ast.USub):
            minids["array.res_id" if "res_id" in ast.unparse(n.left) else "min_atom_id"] = -int(n.comparators[0].operand.value)
    boxchk = []
    for n in ast.walk(chk):
        if isinstance(n, ast.Compare) and isinstance(n.ops[0], ast.Gt) and isinstance(n.left, ast.Call) \
                and getattr(n.left.func, "id", None) == "len" and n.left.args and isinstance(n.left.args[0], ast.JoinedStr):
            pp = _fstring_parts(n.left.args[0])
            if len(pp) == 1 and pp[0][0] == "val":
                boxchk.append((pp[0][2], int(n.comparators[0].value)))
    if len(boxchk) != 2:
        raise ValueError(f"_check_pdb_compatibility: expected 2 box width checks, found {len(boxchk)}")
    if not lens:
        # table-driven form: for category, max_length, … in [("chain_id", 1, …), …]: if any(len(x) > max_length for x in getattr(array, category))
        for n in ast.walk(chk):
            if isinstance(n, ast.For) and isinstance(n.iter, (ast.List, ast.Tuple)) and n.iter.elts and all(
                    isinstance(e, ast.Tuple) and len(e.elts) >= 2 and isinstance(e.elts[0], ast.Constant) and isinstance(e.elts[0].value, str)
                    and isinstance(e.elts[1], ast.Constant) and isinstance(e.elts[1].value, int) for e in n.iter.elts) \
                    and isinstance(n.target, ast.Tuple) and len(n.target.elts) >= 2:
                bound = ast.unparse(n.target.elts[1])
                uses = [c for c in ast.walk(n) if isinstance(c, ast.Compare) and isinstance(c.left, ast.Call) and getattr(c.left.func, "id", None) == "len"
                        and isinstance(c.ops[0], ast.Gt) and ast.unparse(c.comparators[0]) == bound]
                if uses:
                    lens = {e.elts[0].value: int(e.elts[1].value) for e in n.iter.elts}
    if set(lens) != {"chain_id", "res_name", "atom_name", "ins_code", "element"}:
        raise ValueError(f"_check_pdb_compatibility: length checks found for {sorted(lens)} only")
    if set(numchk) != {"coord", "b_factor", "occupancy"}:
        raise ValueError(f"_check_pdb_compatibility: number checks found for {sorted(numchk)} only")
    if set(minids) != {"min_atom_id", "array.res_id"}:
        raise ValueError(f"_check_pdb_compatibility: negative-id checks found for {sorted(minids)} only")
    psrc = open(os.path.join(paths.SRC, "biotite/structure/io/pdb/hybrid36.pyx")).read()
    asc = dict(re.findall(r"^cdef int (_ASCII_[A-Z_]+)\s*=\s*(\d+)\s*$", psrc, re.M))
    if len(asc) != 6:
        raise ValueError("hybrid36.pyx: _ASCII_* constants not found")
    radix = sorted(set(re.findall(r"(\d+)\s*\*\s*36\*\*", psrc)) | set(re.findall(r"\((\d+-\d+)\)\s*\*\s*36\*\*", psrc)))

    def lay(l):
        return "[" + ", ".join(f'("{a}", "{b}", {c})' for a, b, c in l) + "]"

    def spec3(s):
        a, w, p = _spec(s)
        return f'("{a}", {w}, {p if p is not None else 0})'

    lp = []
    for kind, a, b in line_parts:
        if kind == "lit":
            lp.append(("lit", "lit", len(a)))
        else:
            al, w, p = _spec(b)
            lp.append((a, "ljust" if al == "<" else "rjust", w))
    cx = next(b for k, a, b in line_parts if k == "val" and a == "x")
    mp = [(("lit", "lit", len(a)) if k == "lit" else (a, "rjust", _spec(b)[1])) for k, a, b in model_parts]
    body = [
        "/- REGENERATED on every run by harness/props/c07.py from structure/io/pdb/file.py and hybrid36.pyx. Do not edit. -/",
        "namespace BiotiteModel.Gen.C07",
        "/-- reader column slices `slice(a, b)` -/",
        "def slices : List (String × Nat × Nat) := [" + ", ".join(f'("{k}", {slices[k][0]}, {slices[k][1]})' for k in need) + "]",
        f"def pdbMaxAtoms : Nat := {consts['_PDB_MAX_ATOMS']}",
        f"def pdbMaxResidues : Nat := {consts['_PDB_MAX_RESIDUES']}",
        "/-- `first_half = …` of set_structure: (variable, justification, width) -/",
        "def firstHalf : List (String × String × Nat) := " + lay(first),
        "def secondHalf : List (String × String × Nat) := " + lay(second),
        "/-- the f-string of one ATOM/HETATM record -/",
        "def atomLine : List (String × String × Nat) := " + lay(lp),
        "def modelLine : List (String × String × Nat) := " + lay(mp),
        "/-- format specs (align, width, decimals) used by the writer -/",
        f"def coordFmt : String × Nat × Nat := {spec3(cx)}",
        f"def bFactorFmt : String × Nat × Nat := {spec3(numfmt['b_factor'])}",
        f"def occupancyFmt : String × Nat × Nat := {spec3(numfmt['occupancy'])}",
        "/-- `_check_number_columns(values, spec, n_columns, …)` calls of the compatibility check -/",
        "def checkNumbers : List (String × (String × Nat × Nat) × Nat) := [" + ", ".join(
            f'("{k}", {spec3(numchk[k][0])}, {numchk[k][1]})' for k in ("coord", "b_factor", "occupancy")) + "]",
        "/-- `len(x) > K` tests of the compatibility check -/",
        "def checkLengths : List (String × Nat) := [" + ", ".join(
            f'("{k}", {lens[k]})' for k in ("chain_id", "res_name", "atom_name", "ins_code", "element")) + "]",
        f"def minAtomId : Int := {minids['min_atom_id']}",
        f"def minResId : Int := {minids['array.res_id']}",
        f"def h36AtomWidth : Nat := {h36w['pdb_atom_id']}",
        f"def h36ResWidth : Nat := {h36w['pdb_res_id']}",
        "/-- CRYST1: reader slices, the writer's f-string (name, justification, width), decimals, trailing literal, box checks -/",
        "def cryst1Slices : List (String × Nat × Nat) := [" + ", ".join(f'("{k}", {slices[k][0]}, {slices[k][1]})' for k in cslices) + "]",
        "def cryst1Line : List (String × String × Nat) := " + lay(
            [(("lit", "lit", len(a)) if k == "lit" else (a, "rjust" if _spec(b)[0] == ">" else "ljust", _spec(b)[1])) for k, a, b in cryst_parts]),
        "def cryst1Decimals : List Nat := [" + ", ".join(str(_spec(b)[2] or 0) for k, a, b in cryst_parts if k == "val") + "]",
        "def cryst1Tail : String := " + json.dumps(cryst_parts[-1][1]),
        "def cryst1Check : List ((String × Nat × Nat) × Nat) := [" + ", ".join(f"({spec3(sp)}, {w})" for sp, w in boxchk) + "]",
        "/-- hybrid36.pyx -/",
    ] + [f"def {k[1:].lower().replace('_', ' ').title().replace(' ', '')[0].lower() + k[1:].lower().replace('_', ' ').title().replace(' ', '')[1:]} : Nat := {v}"
         for k, v in sorted(asc.items())] + [
        "def radixFactors : List String := [" + ", ".join(f'"{r}"' for r in radix) + "]",
        "end BiotiteModel.Gen.C07", ""]
    return {"BiotiteModel/Gen/C07.lean": "\n".join(body), "BiotiteModel/Gen/C07Logic.lean": gen_logic(tree, psrc, paths)}


# ---------------------------------------------------------------- translator, part 2: guards, literals, defaults, error classes
def _norm(node):
    """source text of an expression in one canonical spacing: blanks are kept only between two word characters
    (`not x`, `a in b`, `x if c else y`) and inside string literals"""
    t = ast.unparse(node)
    out, q = [], None
    for i, ch in enumerate(t):
        if q:
            out.append(ch)
            if ch == q:
                q = None
        elif ch in "'\"":
            q = ch
            out.append(ch)
        elif ch == " ":
            prev = out[-1] if out else ""
            nxt = t[i + 1] if i + 1 < len(t) else ""
            if (prev.isalnum() or prev == "_") and (nxt.isalnum() or nxt == "_"):
                out.append(" ")
        else:
            out.append(ch)
    return "".join(out)


def _lstr(x):
    return json.dumps(x, ensure_ascii=True)


def _llist(xs):
    return "[" + ", ".join(_lstr(x) for x in xs) + "]"


def _raises(fn):
    """class names of every `raise X(...)` in a function, in source order"""
    out = []
    for n in ast.walk(fn):
        if isinstance(n, ast.Raise) and n.exc is not None:
            e = n.exc.func if isinstance(n.exc, ast.Call) else n.exc
            out.append(ast.unparse(e))
    return out


def _defaults(fn):
    a = fn.args
    names = [x.arg for x in a.args]
    ds = [None] * (len(names) - len(a.defaults)) + [ast.unparse(d) for d in a.defaults]
    return [(n, d) for n, d in zip(names, ds) if n not in ("self", "cls")]


def _pyx_function(src, name):
    m = re.search(r"^(?:cdef [\w ]+|def) " + name + r"\(.*?(?=^(?:@|cdef \w|def )|\Z)", src, re.S | re.M)
    if not m:
        raise ValueError(f"hybrid36.pyx: function {name} not found")
    body = re.sub(r'"""(.*?)"""', "", m.group(0), flags=re.S)
    lines = [re.sub(r"\s+", " ", l.split("#")[0]).strip() for l in body.splitlines()]
    # message texts are not logic: lines that are only a string literal are left out
    lines = [re.sub(r"^raise (\w+)\(.*$", r"raise \1(", l) for l in lines]
    return [l for l in lines if l and not re.match(r"^f?[\"']", l)]


_SPEC_RE = re.compile(r"^[<>]?\d+\.\d+f$")


def _methods(tree):
    out = {}
    for n in ast.walk(tree):
        if isinstance(n, ast.ClassDef) and n.name == "PDBFile":
            for m in n.body:
                if isinstance(m, ast.FunctionDef):
                    out[m.name] = m
    return out


def _has_startswith(fn, text):
    for n in ast.walk(fn):
        if isinstance(n, ast.Call) and isinstance(n.func, ast.Attribute) and n.func.attr == "startswith" and n.args:
            try:
                v = ast.literal_eval(n.args[0])
            except Exception:  # noqa: BLE001
                continue
            if v == text or (isinstance(v, tuple) and text in v):
                return True
    return False


def _private_functions(tree):
    """the private helpers of the anchored code, found by what they do / how the public methods call them (not by name)"""
    meth = _methods(tree)
    mod = {n.name: n for n in tree.body if isinstance(n, ast.FunctionDef)}
    ss, gs = meth.get("set_structure"), meth.get("get_structure")
    if ss is None or gs is None:
        raise ValueError("PDBFile.set_structure / get_structure not found")
    found = {}
    # the compatibility check: first statement-level call f(array, hybrid36) of set_structure
    for st in ss.body:
        if isinstance(st, ast.Expr) and isinstance(st.value, ast.Call) and isinstance(st.value.func, ast.Name) \
                and [ast.unparse(a) for a in st.value.args] == ["array", "hybrid36"] and st.value.func.id in mod:
            found["check"] = mod[st.value.func.id]
            break
    if "check" not in found:
        raise ValueError("set_structure: call of the compatibility check f(array, hybrid36) not found")
    # the number-width check: module function called from the check with a float format spec
    for n in ast.walk(found["check"]):
        if isinstance(n, ast.Call) and isinstance(n.func, ast.Name) and n.func.id in mod \
                and any(isinstance(x, ast.Constant) and isinstance(x.value, str) and _SPEC_RE.match(x.value) for x in n.args):
            found["numcheck"] = mod[n.func.id]
            break
    if "numcheck" not in found:
        raise ValueError("compatibility check: call of the number-width check with a format spec not found")
    for name, m in meth.items():
        if not name.startswith("_"):
            continue
        if _has_startswith(m, "CONECT"):
            found["get_bonds"] = m
        elif any(isinstance(j, ast.JoinedStr) and j.values and isinstance(j.values[0], ast.Constant) and str(j.values[0].value).startswith("CONECT")
                 for j in ast.walk(m)):
            found["set_bonds"] = m
        elif _has_startswith(m, "MODEL"):
            found["index"] = m
    # model selection: private method called in get_structure with the public parameter `model`
    for n in ast.walk(gs):
        if isinstance(n, ast.Call) and isinstance(n.func, ast.Attribute) and ast.unparse(n.func.value) == "self" and n.func.attr in meth \
                and n.func.attr.startswith("_"):
            if [ast.unparse(a2) for a2 in n.args] == ["model"] and "select" not in found:
                found["select"] = meth[n.func.attr]
    # model length: private no-argument method that raises InvalidFileError and is not one of the above
    taken = {f.name for f in found.values()}
    for name, m in meth.items():
        if name.startswith("_") and name not in taken and "InvalidFileError" in _raises(m) and len(m.args.args) == 1:
            found["model_length"] = m
    need = ["check", "numcheck", "get_bonds", "set_bonds", "index", "select", "model_length"]
    missing = [k for k in need if k not in found]
    if missing:
        raise ValueError(f"private helpers not found structurally: {missing}")
    return found


class _Canon(ast.NodeTransformer):
    """alpha-normalisation: locals (and the parameters of private functions) -> v0, v1, … by first binding; private module
    constants -> their value; private functions / methods / attributes -> P0, P1, … by first use; doc strings, annotations and
    the arguments of raise / warn removed."""

    def __init__(self, fn, consts, private_names):
        self.consts, self.private_names = consts, private_names
        self.locals, self.priv = {}, {}
        keep = set()
        if not fn.name.startswith("_"):
            keep = {a.arg for a in fn.args.args + fn.args.kwonlyargs}
        keep.add("self")
        self._bind_order(fn, keep)

    def _bind_order(self, node, keep):
        def bind(name):
            if name not in keep and name not in self.locals:
                self.locals[name] = f"v{len(self.locals)}"

        def go(n):
            if isinstance(n, (ast.FunctionDef, ast.Lambda)):
                for a2 in n.args.args + n.args.kwonlyargs:
                    bind(a2.arg)
                if isinstance(n, ast.FunctionDef) and n is not node:
                    bind(n.name)
            if isinstance(n, ast.Name) and isinstance(n.ctx, ast.Store):
                bind(n.id)
            if isinstance(n, ast.ExceptHandler) and n.name:
                bind(n.name)
            # comprehension variables are bound in the generators, which come after the element in the AST: visit them first
            if isinstance(n, (ast.ListComp, ast.SetComp, ast.GeneratorExp, ast.DictComp)):
                for g in n.generators:
                    go(g)
            for c in ast.iter_child_nodes(n):
                go(c)
        go(node)

    def _p(self, name):
        if name not in self.priv:
            self.priv[name] = f"P{len(self.priv)}"
        return self.priv[name]

    def visit_FunctionDef(self, node):
        self.generic_visit(node)
        if node.body and isinstance(node.body[0], ast.Expr) and isinstance(node.body[0].value, ast.Constant) and isinstance(node.body[0].value.value, str):
            node.body = node.body[1:] or [ast.Pass()]
        node.returns = None
        if node.name in self.locals:
            node.name = self.locals[node.name]
        return node

    def visit_arg(self, node):
        node.annotation = None
        if node.arg in self.locals:
            node.arg = self.locals[node.arg]
        return node

    def visit_Name(self, node):
        if node.id in self.locals:
            return ast.copy_location(ast.Name(id=self.locals[node.id], ctx=node.ctx), node)
        if node.id in self.consts:
            return ast.copy_location(ast.parse(self.consts[node.id], mode="eval").body, node)
        if node.id in self.private_names:
            return ast.copy_location(ast.Name(id=self._p(node.id), ctx=node.ctx), node)
        return node

    def visit_Attribute(self, node):
        self.generic_visit(node)
        if node.attr.startswith("_") and not node.attr.startswith("__") and ast.unparse(node.value) == "self":
            node.attr = self._p("self." + node.attr)
        return node

    def visit_ExceptHandler(self, node):
        self.generic_visit(node)
        if node.name in self.locals:
            node.name = self.locals[node.name]
        return node

    def visit_Raise(self, node):
        self.generic_visit(node)
        if isinstance(node.exc, ast.Call):
            node.exc.args, node.exc.keywords = [], []
        return node

    def visit_Call(self, node):
        self.generic_visit(node)
        if ast.unparse(node.func) in ("warnings.warn", "warn"):
            node.args, node.keywords = [], []
        return node


def _canon(fn, consts, private_names):
    import copy
    c = copy.deepcopy(fn)
    c = _Canon(c, consts, private_names).visit(c)
    ast.fix_missing_locations(c)
    return c


def _module_consts(tree):
    """private module constants -> source text of their value (slices, limits)"""
    out, private = {}, set()
    for n in tree.body:
        if isinstance(n, ast.Assign) and len(n.targets) == 1 and isinstance(n.targets[0], ast.Name) and n.targets[0].id.startswith("_"):
            v = n.value
            if isinstance(v, ast.Constant) or (isinstance(v, ast.Call) and getattr(v.func, "id", None) == "slice"):
                out[n.targets[0].id] = ast.unparse(v)
        if isinstance(n, ast.FunctionDef) and n.name.startswith("_"):
            private.add(n.name)
    return out, private


def _if_tests(fn):
    """tests of all if / elif statements in source order"""
    out = []

    def go(n):
        for c in ast.iter_child_nodes(n):
            if isinstance(c, ast.If):
                out.append(_norm(c.test))
            go(c)
    go(fn)
    return out


def gen_logic(tree, psrc, paths):
    consts, private = _module_consts(tree)
    meth = _methods(tree)
    pf = _private_functions(tree)

    def C(fn):
        return _canon(fn, consts, private)
    ss, gs, rd = C(meth["set_structure"]), C(meth["get_structure"]), C(meth["read"])
    chk, numchk = C(pf["check"]), C(pf["numcheck"])
    idx, sel, gml, gb, sb = C(pf["index"]), C(pf["select"]), C(pf["model_length"]), C(pf["get_bonds"]), C(pf["set_bonds"])
    facts = {}
    # --- writer (all finders are structural: they look at what a statement contains, never at a local name)
    for n in ast.walk(ss):
        if isinstance(n, ast.Call) and ast.unparse(n.func) == "np.where" and len(n.args) == 3:
            if ast.unparse(n.args[0]) == "array.hetero":
                facts["recordNames"] = [n.args[1].value, n.args[2].value]
            elif isinstance(n.args[0], ast.Compare) and any(isinstance(x, ast.Mod) for x in ast.walk(n.args[1])):
                # the wrapped variable itself is written `id`: (id > 0, (id - 1) % MAX + 1, id)
                var = ast.unparse(n.args[2])
                key = "resWrap" if "res_id" in var or "9999+" in _norm(n.args[1]).replace("99999", "") else "atomWrap"
                if "99999" in _norm(n.args[1]):
                    key = "atomWrap"
                facts[key] = [_norm(x).replace(_norm(n.args[2]), "id") for x in n.args]
        if isinstance(n, ast.Call) and ast.unparse(n.func) == "np.full" and len(n.args) == 2 and isinstance(n.args[1], ast.Constant):
            facts.setdefault("defaultTexts", []).append(n.args[1].value)
        if isinstance(n, ast.ListComp) and isinstance(n.elt, ast.IfExp) and isinstance(n.elt.body, ast.JoinedStr):
            facts["alignRule"] = [_norm(n.elt.test), "".join(v.value if isinstance(v, ast.Constant) else "{}" for v in n.elt.body.values)]
        if isinstance(n, ast.ListComp) and isinstance(n.elt, ast.IfExp) and any(isinstance(x, ast.Constant) and x.value == "+" for x in ast.walk(n.elt)):
            e, inner = n.elt, n.elt.orelse
            facts["chargeText"] = [_norm(e.test), _norm(e.body), _norm(inner.test), _norm(inner.body), _norm(inner.orelse)]
        if isinstance(n, ast.Compare) and isinstance(n.left, ast.Subscript) and isinstance(n.left.value, ast.Attribute) and n.left.value.attr == "shape":
            facts["isStack"] = _norm(n).replace(_norm(n.left.value.value), "coords")
        if isinstance(n, ast.Call) and isinstance(n.func, ast.Attribute) and n.func.attr == "append" and ast.unparse(n.func.value) == "self.lines" \
                and isinstance(n.args[0], ast.Constant):
            facts["endmdl"] = n.args[0].value
        if isinstance(n, ast.Subscript) and isinstance(n.slice, ast.BinOp) and isinstance(n.slice.op, ast.BitOr):
            terms = []

            def flat(b_):
                if isinstance(b_, ast.BinOp) and isinstance(b_.op, ast.BitOr):
                    flat(b_.left)
                    flat(b_.right)
                else:
                    terms.append(_norm(b_))
            flat(n.slice)
            if len(terms) >= 3:
                facts["carriable"] = terms
        if isinstance(n, ast.Assign) and any(isinstance(c2, ast.Call) and ast.unparse(c2.func) == "filter_solvent" for c2 in ast.walk(n.value)):
            facts["heteroIndices"] = _norm(n.value)
        if isinstance(n, ast.Call) and isinstance(n.func, ast.Attribute) and n.func.attr == "astype" and n.args and ast.unparse(n.args[0]) == "np.int64":
            facts.setdefault("int64Casts", []).append(_norm(n.func.value))
        if isinstance(n, ast.Call) and isinstance(n.func, ast.Attribute) and ast.unparse(n.func.value) == "self" and n.args \
                and isinstance(n.args[0], ast.Call) and ast.unparse(n.args[0].func) == "BondList":
            facts["setBondsArgs"] = [_norm(a2) for a2 in n.args]
    fsrc = ast.parse(open(os.path.join(paths.SRC, "biotite/structure/filter.py")).read())
    solvent_fn = _find_func(fsrc, "filter_solvent")
    sname = None
    for n in ast.walk(solvent_fn):
        if isinstance(n, ast.Call) and ast.unparse(n.func) == "np.isin" and isinstance(n.args[1], ast.Name):
            sname = n.args[1].id
    for n in fsrc.body:
        if isinstance(n, ast.Assign) and ast.unparse(n.targets[0]) == sname:
            facts["solventList"] = [e.value for e in n.value.elts]
    # --- CONECT writer / reader
    for n in ast.walk(sb):
        if isinstance(n, ast.Compare) and isinstance(n.left, ast.Name) and isinstance(n.ops[0], ast.Eq) and isinstance(n.comparators[0], ast.Constant) \
                and isinstance(n.comparators[0].value, int) and n.comparators[0].value > 1:
            facts["conectPerRecord"] = n.comparators[0].value
        if isinstance(n, ast.Call) and ast.unparse(n.func) == "range" and len(n.args) == 3 and isinstance(n.args[2], ast.Constant):
            facts["conectPerRecord"] = n.args[2].value          # `for first in range(0, len(partners), 4)`
        if isinstance(n, ast.JoinedStr):
            p = _fstring_parts(n)
            if any(k == "val" for k, a2, b2 in p):
                facts.setdefault("conectParts", []).append([(a2 if k == "lit" else "{" + b2 + "}") for k, a2, b2 in p])
    for n in ast.walk(gb):
        if isinstance(n, ast.Call) and ast.unparse(n.func) == "range" and len(n.args) == 3:
            facts["conectRange"] = [a2.value for a2 in n.args]
        if isinstance(n, ast.Subscript) and isinstance(n.slice, ast.Slice) and n.slice.lower is not None and n.slice.upper is not None \
                and n.slice.step is None and isinstance(n.value, ast.Name):
            lo, up = _norm(n.slice.lower), _norm(n.slice.upper)
            facts.setdefault("conectSlices", []).append([lo, up] if lo.isdigit() else ["i", up.replace(lo, "i")])
        if isinstance(n, ast.Call) and ast.unparse(n.func) == "np.full":
            facts["bondMapInit"] = _norm(n.args[1])
    # --- reader: prefixes, padding, hetero, charge
    prefixes = {}
    for fn, nm in ((idx, "index"), (gs, "get_structure"), (gb, "get_bonds")):
        for n in ast.walk(fn):
            if isinstance(n, ast.Call) and isinstance(n.func, ast.Attribute) and n.func.attr == "startswith":
                prefixes.setdefault(nm, [])
                v = ast.literal_eval(n.args[0])
                v = "|".join(v) if isinstance(v, tuple) else v
                if v not in prefixes[nm]:
                    prefixes[nm].append(v)
        prefixes[nm] = sorted(prefixes.get(nm, []))
    facts["prefixes"] = prefixes
    for n in ast.walk(rd):
        if isinstance(n, ast.Call) and isinstance(n.func, ast.Attribute) and n.func.attr == "ljust":
            facts["padWidth"] = n.args[0].value
    field_names = {"atom_id", "charge", "occupancy", "b_factor"}
    for n in ast.walk(gs):
        if isinstance(n, ast.Compare) and n.comparators and isinstance(n.comparators[0], ast.Constant) and n.comparators[0].value == "HETATM":
            facts["heteroTest"] = [type(n.ops[0]).__name__, n.comparators[0].value, _norm(n.left.slice) if isinstance(n.left, ast.Subscript) else "?"]
        if isinstance(n, ast.Compare) and isinstance(n.ops[0], ast.In) and isinstance(n.comparators[0], ast.Constant) and n.comparators[0].value in ("+-", "-+"):
            facts["chargeSigns"] = n.comparators[0].value
        if isinstance(n, ast.Call) and ast.unparse(n.func) == "np.where" and len(n.args) == 3 and isinstance(n.args[1], ast.Constant) and n.args[1].value == "0":
            cmp_ = n.args[0]
            facts["chargeBlank"] = [type(cmp_.ops[0]).__name__, cmp_.comparators[0].value, n.args[1].value]
        if isinstance(n, ast.Subscript) and isinstance(n.slice, ast.Slice) and n.slice.step is not None:
            facts["chargeReversed"] = _norm(n.slice)
        if isinstance(n, ast.If) and isinstance(n.test, ast.Compare) and _norm(n.test.left) == "altloc":
            facts.setdefault("altlocModes", []).append(n.test.comparators[0].value)
        if isinstance(n, ast.If) and isinstance(n.test, ast.Compare) and isinstance(n.test.left, ast.Name) and n.test.left.id != "altloc" \
                and isinstance(n.test.comparators[0], ast.Constant) and n.test.comparators[0].value in field_names:
            facts.setdefault("extraFields", []).append(n.test.comparators[0].value)
    # --- model selection: guards in source order, the statements that rebind the index, the record filters
    facts["modelIndex"] = _if_tests(sel)
    facts["modelRebind"] = [_norm(n.value) for n in ast.walk(sel) if isinstance(n, ast.Assign) and _norm(n.targets[0]) == "v0"]
    facts["modelFilters"] = sorted({_norm(n) for n in ast.walk(sel) if isinstance(n, ast.Compare) and isinstance(n.ops[0], (ast.GtE, ast.Lt))
                                    and any(isinstance(x, ast.Subscript) for x in ast.walk(n))})
    # --- altloc filters (filter.py)
    fconsts, fprivate = _module_consts(fsrc)
    for name in ("filter_first_altloc", "filter_highest_occupancy_altloc"):
        fn = _canon(_find_func(fsrc, name), fconsts, fprivate)
        none_ids, cmp_, start = None, None, None
        for n in ast.walk(fn):
            if isinstance(n, ast.Call) and ast.unparse(n.func) == "np.isin" and isinstance(n.args[1], ast.List):
                none_ids = [e.value for e in n.args[1].elts]
            if isinstance(n, ast.Assign) and ((isinstance(n.value, ast.UnaryOp) and isinstance(n.value.operand, ast.Constant)
                                               and isinstance(n.value.operand.value, float))
                                              or (isinstance(n.value, ast.Constant) and isinstance(n.value.value, float))):
                start = _norm(n.value)
            if isinstance(n, ast.For) and isinstance(n.iter, ast.Call) and ast.unparse(n.iter.func) == "sorted":
                facts["altlocIdOrder"] = "sorted(set(ids))" if isinstance(n.iter.args[0], ast.Call) and ast.unparse(n.iter.args[0].func) == "set" else _norm(n.iter)
                for c2 in ast.walk(n):
                    if isinstance(c2, ast.If) and isinstance(c2.test, ast.Compare) and isinstance(c2.test.left, ast.Name) \
                            and isinstance(c2.test.comparators[0], ast.Name):
                        cmp_ = type(c2.test.ops[0]).__name__
        facts["altlocNone:" + name] = none_ids
        if cmp_:
            if start is None:
                raise ValueError("filter_highest_occupancy_altloc: start value of the running maximum not found")
            facts["altlocBest"] = [start, cmp_]
    # --- the compatibility check: guards and error classes
    # the per-field length tests are pinned with their bounds by `checkLengths` (C07_gen_check); here they would only pin whether they
    # are written out or table-driven
    facts["checkGuards"] = [g for g in _if_tests(chk) if not g.startswith("any([len(")]
    facts["numberCheck"] = _if_tests(numchk)
    facts["raises"] = {"check": sorted(set(_raises(chk))), "numcheck": sorted(set(_raises(numchk))),
                       "select": sorted(set(_raises(sel))), "model_length": sorted(set(_raises(gml))),
                       "get_bonds": sorted(set(_raises(gb))), "get_structure": sorted(set(_raises(gs)))}
    tree = ast.parse(open(os.path.join(paths.SRC, "biotite/structure/io/pdb/file.py")).read())
    ss_raw, gs_raw = meth["set_structure"], meth["get_structure"]
    # --- default argument values at every entry level
    ctree = ast.parse(open(os.path.join(paths.SRC, "biotite/structure/io/pdb/convert.py")).read())
    facts["defaults"] = {"PDBFile.get_structure": _defaults(gs_raw), "PDBFile.set_structure": _defaults(ss_raw),
                         "PDBFile.get_coord": _defaults(_find_func(tree, "get_coord")), "PDBFile.get_b_factor": _defaults(_find_func(tree, "get_b_factor")),
                         "pdb.get_structure": _defaults(_find_func(ctree, "get_structure")), "pdb.set_structure": _defaults(_find_func(ctree, "set_structure"))}
    wrappers = {}
    for name in ("get_structure", "set_structure"):
        fn = _find_func(ctree, name)
        calls = [n for n in ast.walk(fn) if isinstance(n, ast.Call) and isinstance(n.func, ast.Attribute) and n.func.attr == name]
        wrappers[name] = [_norm(a) for a in calls[0].args] if calls else None
    facts["wrapperForwards"] = wrappers
    # --- hybrid36.pyx: the code lines of the five functions (comments, doc strings, blank lines removed)
    pyx = {name: _pyx_function(psrc, name) for name in
           ("encode_hybrid36", "_encode_base36", "decode_hybrid36", "_decode_base36", "max_hybrid36_number")}
    facts["modelRebind"] = facts.get("modelRebind") or ["-"]
    required = ["recordNames", "atomWrap", "resWrap", "defaultTexts", "alignRule", "chargeText", "isStack", "endmdl", "carriable", "heteroIndices",
                "int64Casts", "setBondsArgs", "solventList", "conectPerRecord", "conectParts", "conectRange", "conectSlices", "bondMapInit", "padWidth", "heteroTest",
                "chargeSigns", "chargeBlank", "chargeReversed", "altlocModes", "extraFields", "altlocBest", "altlocIdOrder"]
    # a fact that is no longer found in the shape the model was written against is not an extractor failure: it is emitted as such,
    # and the obligation that pins it fails by name
    for k in required:
        if not facts.get(k):
            facts[k] = 0 if k == "conectPerRecord" else ("<not found in the expected shape>" if k in ("isStack", "endmdl", "heteroIndices", "bondMapInit",
                                                                                                   "chargeSigns", "chargeReversed", "altlocIdOrder")
                                                         else ["<not found in the expected shape>"])
    if not isinstance(facts.get("padWidth"), int):
        facts["padWidth"] = 0
    if facts.get("conectRange") == ["<not found in the expected shape>"]:
        facts["conectRange"] = []
    if facts.get("conectParts") == ["<not found in the expected shape>"]:
        facts["conectParts"] = []
    if facts.get("conectSlices") == ["<not found in the expected shape>"]:
        facts["conectSlices"] = []

    def relabel(texts):
        """number the canonical locals (v17, P3 …) by first appearance inside this fact only"""
        m = {}

        def sub(mo):
            k = mo.group(0)
            if k not in m:
                m[k] = ("x" if k[0] == "v" else "p") + str(sum(1 for q in m if q[0] == k[0]))
            return m[k]
        if isinstance(texts, str):
            return re.sub(r"\b[vP]\d+\b", sub, texts)
        return [re.sub(r"\b[vP]\d+\b", sub, t) if isinstance(t, str) else t for t in texts]
    for key in ("alignRule", "chargeText", "carriable", "heteroIndices", "int64Casts", "setBondsArgs", "modelIndex", "modelRebind", "modelFilters",
                "checkGuards", "numberCheck"):
        facts[key] = relabel(facts[key])

    def pairs(d):
        return "[" + ", ".join(f"({_lstr(k)}, {_llist(v)})" for k, v in d.items()) + "]"

    def optpairs(lst):
        return "[" + ", ".join(f"({_lstr(a)}, {_lstr(b if b is not None else '<required>')})" for a, b in lst) + "]"
    out = ["/- REGENERATED on every run by harness/props/c07.py (gen_logic) from pdb/file.py, pdb/convert.py, filter.py and hybrid36.pyx. Do not edit. -/",
           "namespace BiotiteModel.Gen.C07Logic",
           f"def recordNames : List String := {_llist(facts['recordNames'])}",
           f"def atomWrap : List String := {_llist(facts['atomWrap'])}",
           f"def resWrap : List String := {_llist(facts['resWrap'])}",
           f"def defaultTexts : List String := {_llist(facts['defaultTexts'])}",
           f"def alignRule : List String := {_llist(facts['alignRule'])}",
           f"def chargeText : List String := {_llist(facts['chargeText'])}",
           f"def isStack : String := {_lstr(facts['isStack'])}",
           f"def endmdl : String := {_lstr(facts['endmdl'])}",
           f"def carriable : List String := {_llist(facts['carriable'])}",
           f"def heteroIndices : String := {_lstr(facts['heteroIndices'])}",
           f"def int64Casts : List String := {_llist(facts['int64Casts'])}",
           f"def setBondsArgs : List String := {_llist(facts['setBondsArgs'])}",
           f"def solventList : List String := {_llist(facts['solventList'])}",
           f"def conectPerRecord : Nat := {facts['conectPerRecord']}",
           "def conectParts : List (List String) := [" + ", ".join(_llist(x) for x in sorted(facts["conectParts"])) + "]",
           f"def conectRange : List Nat := [{', '.join(str(x) for x in facts['conectRange'])}]",
           "def conectSlices : List (List String) := [" + ", ".join(_llist(x) for x in sorted(facts["conectSlices"])) + "]",
           f"def bondMapInit : String := {_lstr(facts['bondMapInit'])}",
           f"def prefixes : List (String × List String) := {pairs({k: [x if isinstance(x, str) else '|'.join(x) for x in v] for k, v in facts['prefixes'].items()})}",
           f"def padWidth : Nat := {facts['padWidth']}",
           f"def heteroTest : List String := {_llist(facts['heteroTest'])}",
           f"def chargeSigns : String := {_lstr(facts['chargeSigns'])}",
           f"def chargeBlank : List String := {_llist(facts['chargeBlank'])}",
           f"def chargeReversed : String := {_lstr(facts['chargeReversed'])}",
           f"def altlocModes : List String := {_llist(facts['altlocModes'])}",
           f"def extraFields : List String := {_llist(facts['extraFields'])}",
           f"def modelIndex : List String := {_llist(facts['modelIndex'])}",
           f"def modelRebind : List String := {_llist(facts['modelRebind'])}",
           f"def modelFilters : List String := {_llist(facts['modelFilters'])}",
           f"def altlocNoneFirst : List String := {_llist(facts['altlocNone:filter_first_altloc'])}",
           f"def altlocNoneOccupancy : List String := {_llist(facts['altlocNone:filter_highest_occupancy_altloc'])}",
           f"def altlocBest : List String := {_llist(facts['altlocBest'])}",
           f"def altlocIdOrder : String := {_lstr(facts['altlocIdOrder'])}",
           f"def checkGuards : List String := {_llist(facts['checkGuards'])}",
           f"def numberCheck : List String := {_llist(facts['numberCheck'])}",
           f"def raises : List (String × List String) := {pairs(facts['raises'])}",
           "def defaults : List (String × List (String × String)) := [" + ", ".join(
               f"({_lstr(k)}, {optpairs(v)})" for k, v in facts["defaults"].items()) + "]",
           f"def wrapperForwards : List (String × List String) := {pairs(facts['wrapperForwards'])}",
           "/-- hybrid36.pyx, code lines per function -/"] + [
        f"def pyx_{k.strip('_')} : List String := {_llist(v)}" for k, v in pyx.items()] + ["end BiotiteModel.Gen.C07Logic", ""]
    return "\n".join(out)


# ---------------------------------------------------------------- structures <-> ops
def cell_values(box):
    """the six numbers `set_structure` formats into CRYST1 for this box (float32 vectors), as Python floats"""
    import numpy as np
    from biotite.structure.box import unitcell_from_vectors
    with np.errstate(all="ignore"):
        a, b, c, al, be, ga = unitcell_from_vectors(np.array(box, dtype=np.float32))
        return [float(a), float(b), float(c)] + [float(x) for x in np.rad2deg([al, be, ga])]


def struct_ops(S, read=True, model_ks=None):
    ops = []
    if S.get("box") is not None:
        ops.append("cell " + " ".join(fx(v) for v in cell_values(S["box"])) + " " +
                   " ".join(fx(f32(v)) for row in S["box"] for v in row))
    for a in S["atoms"]:
        ops.append("atom {} {} {} {} {} {} {} {} {} {} {}".format(
            int(a["het"]), a["id"], hx(a["name"]), hx(a["res"]), hx(a["chain"]), a["resid"], hx(a["ins"]), hx(a["el"]),
            fx(a["occ"]), fx(a["bf"]), a["q"]))
    for m in S["models"]:
        ops.append("model " + (";".join(",".join(fx(c) for c in xyz) for xyz in m) or "_"))
    for i, j in S["bonds"]:
        ops.append(f"bond {i} {j}")
    f = S["flags"]
    ops.append("write {} {} {} {} {} {}".format(*(int(f[k]) for k in ("h36", "id", "b", "occ", "q", "bonds"))))
    if read:
        ops.append(f"read {int(f['bonds'])}")
        for k in (model_ks or []):
            ops.append(f"readmodel {k} {int(f['bonds'])}")
    return ops


def ops_struct(ops):
    """inverse of struct_ops (used by the adapter and the oracle: they act on what the op lines say)"""
    S = {"atoms": [], "models": [], "bonds": [], "flags": None}
    for op in ops:
        w = op.split()
        if w[0] == "atom":
            S["atoms"].append({"het": w[1] == "1", "id": int(w[2]), "name": unhx(w[3]), "res": unhx(w[4]),
                               "chain": unhx(w[5]), "resid": int(w[6]), "ins": unhx(w[7]), "el": unhx(w[8]),
                               "occ": unfx(w[9]), "bf": unfx(w[10]), "q": int(w[11])})
        elif w[0] == "model":
            S["models"].append([] if w[1] == "_" else [[unfx(c) for c in t.split(",")] for t in w[1].split(";")])
        elif w[0] == "bond":
            S["bonds"].append((int(w[1]), int(w[2])))
        elif w[0] == "cell":
            vals = [unfx(t) for t in w[7:16]]
            S["box"] = [vals[0:3], vals[3:6], vals[6:9]]
        elif w[0] == "write":
            S["flags"] = dict(zip(("h36", "id", "b", "occ", "q", "bonds"), (x == "1" for x in w[1:7])))
    return S


def build_array(S, extra=None):
    """AtomArray (one model) or AtomArrayStack from the description."""
    import numpy as np
    import biotite.structure as struc
    n = len(S["atoms"])
    models = S["models"]
    use_stack = len(models) != 1 or (extra or {}).get("stack1", False)
    arr = struc.AtomArrayStack(len(models), n) if use_stack else struc.AtomArray(n)
    coord = np.array(models, dtype=np.float64).reshape(len(models), n, 3).astype(np.float32)
    arr.coord = coord if use_stack else coord[0]
    A = S["atoms"]
    arr.hetero = np.array([a["het"] for a in A], dtype=bool)
    arr.atom_name = np.array([a["name"] for a in A], dtype="U6")
    arr.res_name = np.array([a["res"] for a in A], dtype="U5")
    arr.chain_id = np.array([a["chain"] for a in A], dtype="U4")
    arr.res_id = np.array([a["resid"] for a in A], dtype=int)
    arr.ins_code = np.array([a["ins"] for a in A], dtype="U2")
    arr.element = np.array([a["el"] for a in A], dtype="U3")
    f = S["flags"]
    if f["id"]:
        arr.set_annotation("atom_id", np.array([a["id"] for a in A], dtype=int))
    if f["b"]:
        arr.set_annotation("b_factor", np.array([a["bf"] for a in A], dtype=float))
    if f["occ"]:
        arr.set_annotation("occupancy", np.array([a["occ"] for a in A], dtype=float))
    if f["q"]:
        arr.set_annotation("charge", np.array([a["q"] for a in A], dtype=int))
    if f["bonds"]:
        arr.bonds = struc.BondList(n, np.array([(i, j, 1) for i, j in S["bonds"]], dtype=np.int64).reshape(-1, 3))
    bx = S.get("box") if S.get("box") is not None else (extra or {}).get("box")
    if bx is not None:
        box = np.array(bx, dtype=np.float32)
        arr.box = np.repeat(box[None], len(models), axis=0) if use_stack else box
    return arr


def _setup_ccd():
    import biotite.structure.info.ccd as ccd
    if str(ccd._CCD_FILE) != FIXTURE_CCD:
        import biotite.structure.info as info
        info.set_ccd_path(FIXTURE_CCD)


def _read_back(lines, include_bonds, model=None, cell=None, altloc="first"):
    from biotite.structure.io.pdb import PDBFile
    _setup_ccd()
    text = "\n".join(lines) + "\n"
    f = PDBFile.read(io.StringIO(text))
    # the six numbers parsed from CRYST1 are observed where get_structure hands them to vectors_from_unitcell
    import biotite.structure.io.pdb.file as pdbfile
    orig = pdbfile.vectors_from_unitcell
    seen = []

    def recorder(*args):
        seen.append([float(x) for x in args])
        return orig(*args)
    pdbfile.vectors_from_unitcell = recorder
    try:
        st = f.get_structure(model=model, altloc=altloc, extra_fields=["atom_id", "b_factor", "occupancy", "charge"],
                             include_bonds=include_bonds)
    finally:
        pdbfile.vectors_from_unitcell = orig
    if model is not None:
        import biotite.structure as struc
        st = struc.stack([st])
    if cell is not None:
        cell.extend(seen[:1])
    return st


def _canon_cell(cell):
    if not cell:
        return " X:-"
    u = cell[0]
    return " X:" + ",".join([str(round(v * 1000)) for v in u[:3]] + [str(round(math.degrees(v) * 100)) for v in u[3:]])


def _canon_read(st):
    atoms = []
    for i in range(st.array_length()):
        atoms.append(",".join([str(int(st.hetero[i])), str(st.chain_id[i]), str(int(st.res_id[i])), str(st.ins_code[i]),
                               str(st.res_name[i]), str(st.atom_name[i]), str(st.element[i]), str(int(st.atom_id[i])),
                               str(round(float(st.occupancy[i]) * 100)), str(round(float(st.b_factor[i]) * 100)),
                               str(int(st.charge[i]))]))
    models = []
    for m in range(st.stack_depth()):
        models.append(";".join(",".join(str(round(float(v) * 1000)) for v in st.coord[m, i]) for i in range(st.array_length())))
    bonds = ""
    if st.bonds is not None:
        bonds = ",".join(f"{i}-{j}" for i, j in sorted({(int(min(a, b)), int(max(a, b))) for a, b, _ in st.bonds.as_array()}))
    return f"ok M={st.stack_depth()} N={st.array_length()} A:" + ";".join(atoms) + " C:" + "|".join(models) + " B:" + bonds


def run_impl(case):
    # 6. a crash is a verdict: the Cython hybrid-36 code (boundscheck off) runs in a forked child
    if case.get("kind") in ("h36", "h36dec"):
        from common import sandbox
        r = sandbox.run_forked(_run_impl, case, timeout=120)
        if r[0] == "ok":
            return r[1]
        return ["CRASH" if r[0] == "crash" else r[0].upper()] * len(case["ops"])
    return _run_impl(case)


def _run_impl(case):
    from biotite.structure.io.pdb import PDBFile
    from biotite.structure.io.pdb.hybrid36 import decode_hybrid36, encode_hybrid36
    out = []
    lines = []
    seen = []
    with warnings.catch_warnings():
        warnings.simplefilter("ignore")
        for op in case["ops"]:
            w = op.split()
            seen.append(op)
            try:
                if w[0] == "h36enc":
                    out.append("ok " + encode_hybrid36(int(w[1]), int(w[2])))
                elif w[0] == "h36dec":
                    out.append(f"ok {int(decode_hybrid36(unhx(w[1])))}")
                elif w[0] in ("atom", "model", "bond", "cell"):
                    out.append("ok")
                elif w[0] == "write":
                    lines = []
                    S = ops_struct(seen)
                    f = PDBFile()
                    f.set_structure(build_array(S, case.get("extra")), hybrid36=S["flags"]["h36"])
                    lines = list(f.lines)
                    seen = []
                    out.append(f"ok {len(lines)} |" + "|".join(lines) + "|")
                elif w[0] == "rawline":
                    lines.append(unhx(w[1]))
                    out.append("ok")
                elif w[0] == "readalt":
                    if not lines:
                        out.append("no-file")
                    else:
                        cell = []
                        st = _read_back(lines, w[2] == "1", cell=cell, altloc=w[1])
                        extra_l = (" L:" + "".join("_" if c in (" ", "") else str(c) for c in st.altloc_id)) if w[1] == "all" else ""
                        out.append(_canon_read(st) + extra_l + _canon_cell(cell))
                elif w[0] in ("readmodel", "read"):
                    if not lines:
                        out.append("no-file")
                    else:
                        cell = []
                        st = _read_back(lines, w[-1] == "1", model=int(w[1]) if w[0] == "readmodel" else None, cell=cell)
                        out.append(_canon_read(st) + _canon_cell(cell))
                else:
                    out.append("bad-op")
            except Exception as e:  # noqa: BLE001
                out.append("ERR:" + type(e).__name__)
    return out


# ---------------------------------------------------------------- property oracle (independent of the model)
# PDB format v3.3, ATOM/HETATM record, 1-based inclusive columns
PDB_COLUMNS = {"record": (1, 6), "serial": (7, 11), "name": (13, 16), "altLoc": (17, 17), "resName": (18, 20),
               "chainID": (22, 22), "resSeq": (23, 26), "iCode": (27, 27), "x": (31, 38), "y": (39, 46), "z": (47, 54),
               "occupancy": (55, 60), "tempFactor": (61, 66), "element": (77, 78), "charge": (79, 80)}


def _col(line, key):
    a, b = PDB_COLUMNS[key]
    return line[a - 1:b]


def _rounded(v, d):
    """round-half-even of the exact value of float v to d decimals, as an integer number of 10^-d"""
    return round(Fraction(float(v)) * 10 ** d)


def _printable(s):
    return all(33 <= ord(c) <= 126 for c in s)


def limits(S):
    """(hard, soft): `hard` = reasons the input exceeds a column (must be refused); `soft` = reasons it is merely
    outside the round-trip guarantee (id wrap, odd characters, missing element)."""
    hard, soft = [], []
    f = S["flags"]
    if not S["atoms"]:
        hard.append("no-atoms")
    for i, a in enumerate(S["atoms"]):
        for key, lo, hi in (("name", 0, 4), ("res", 0, 3), ("chain", 0, 1), ("ins", 0, 1), ("el", 0, 2)):
            if len(a[key]) > hi:
                hard.append(key + "-too-long")
            if not _printable(a[key]):
                soft.append(key + "-chars")
        if len(a["el"]) == 0:
            soft.append("el-empty")
        aid = a["id"] if f["id"] else i + 1
        for key, v, w in (("atom_id", aid, 5), ("res_id", a["resid"], 4)):
            if f["h36"]:
                if v < 0 or v > H36_MAX[w]:
                    hard.append(key + "-outside-hybrid36")
            else:
                if v < -(10 ** (w - 1) - 1):
                    hard.append(key + "-negative-overflow")
                if v > 10 ** w - 1:
                    soft.append(key + "-wraps")
        for key, flag, v in (("b_factor", "b", a["bf"]), ("occupancy", "occ", a["occ"])):
            if f[flag]:
                if not math.isfinite(v):
                    hard.append(key + "-not-finite")
                else:
                    k = _rounded(v, 2)
                    if k > 99999 or k < -9999:
                        hard.append(key + "-magnitude")
        if f["q"] and abs(a["q"]) > 9:
            hard.append("charge-magnitude")
    for m in S["models"]:
        for xyz in m:
            for v in xyz:
                if not math.isfinite(v):
                    hard.append("coord-not-finite")
                else:
                    k = _rounded(v, 3)
                    if k > 9999999 or k < -999999:
                        hard.append("coord-magnitude")
    bx = S.get("box")
    if bx is not None:
        vals = cell_values(bx)
        if not all(math.isfinite(v) for v in vals):
            soft.append("box-degenerate")
        else:
            if any(_rounded(v, 3) > 99999999 for v in vals[:3]):
                hard.append("box-length-magnitude")
    return sorted(set(hard)), sorted(set(soft))


def _cell_ref(box):
    """cell lengths and angles (degrees) of box vectors, computed in float64 independently of biotite"""
    import numpy as np
    v = np.array(box, dtype=np.float64)
    ln = [float(np.linalg.norm(x)) for x in v]

    def ang(p, q, lp, lq):
        return float(np.degrees(np.arccos(np.clip(np.dot(p, q) / (lp * lq), -1, 1))))
    return ln + [ang(v[1], v[2], ln[1], ln[2]), ang(v[0], v[2], ln[0], ln[2]), ang(v[0], v[1], ln[0], ln[1])]


def _angle_slack(deg):
    """float32 box vectors resolve cos(angle) to ~1e-7: angle uncertainty in degrees (large only near 0 / 180)"""
    return math.degrees(1e-6 / max(math.sin(math.radians(deg)), 1e-6)) if 0 < deg < 180 else 180.0


def _h36_dec_ref(t):
    """reference hybrid-36 reader (from the published hybrid-36 definition), independent of biotite"""
    t = t.strip()
    digs = "0123456789ABCDEFGHIJKLMNOPQRSTUVWXYZ"
    if t and t[0] in digs[10:]:
        return int(t, 36) - 10 * 36 ** (len(t) - 1) + 10 ** len(t)
    if t and t[0] in digs[10:].lower():
        return int(t, 36) + 16 * 36 ** (len(t) - 1) + 10 ** len(t)
    return int(t)


def carriable_ref(S):
    out = set()
    A = S["atoms"]
    for i, j in S["bonds"]:
        a, b = A[i], A[j]
        het = lambda t: t["het"] and t["res"] not in ("HOH", "SOL")   # noqa: E731
        if het(a) or het(b) or a["resid"] != b["resid"] or a["chain"] != b["chain"]:
            out.add((min(i, j), max(i, j)))
    return out


def oracle(case):
    kind = case.get("kind")
    if kind in ("h36range", "h36", "h36dec", "h36spell"):
        from common import sandbox
        fn = {"h36range": _oracle_h36range, "h36": _oracle_h36ops, "h36dec": _oracle_h36dec, "h36spell": _oracle_h36spell}[kind]
        r = sandbox.run_forked(fn, case, timeout=300)
        if r[0] == "ok":
            return r[1]
        return [(f"C07/hybrid36/{r[0]}", f"the hybrid-36 code ended with {r} on this case")]
    if kind == "altloc":
        return _oracle_alt(case)
    if kind == "oracle-malformed-file":
        return _oracle_malformed_file(case)
    if "ops" not in case or not any(op.startswith("write") for op in case["ops"]):
        return []
    from biotite.structure.io.pdb import PDBFile
    S = case.get("struct") or ops_struct(case["ops"])
    if case.get("struct"):
        S = dict(S, bonds=[tuple(b) for b in S["bonds"]])
    extra = case.get("extra") or {}
    if S.get("box") is None and extra.get("box") is not None:
        S = dict(S, box=[[f32(v) for v in row] for row in extra["box"]])
    hard, soft = limits(S)
    # the two expensive side oracles share the cases: purity on two thirds, entry points / spellings on the other third
    bucket = int(signature(case)[:4], 16) % 3
    v = [] if (case.get("big") or (bucket == 0 and not case.get("force_api"))) else _oracle_purity(S, extra)
    if v:
        return v
    if case.get("big") is None and (case.get("force_api") or bucket == 0):
        v = _oracle_api(S, extra)
        if v:
            return v
    with warnings.catch_warnings():
        warnings.simplefilter("ignore")
        f = PDBFile()
        try:
            f.set_structure(build_array(S, extra), hybrid36=S["flags"]["h36"])
        except Exception as e:  # noqa: BLE001
            cls = type(e).__name__
            if not hard:
                # inside the column limits (id wrap, odd characters, empty element, degenerate box included): no refusal allowed
                v.append(("C07/refused/within-limits" if not soft else f"C07/refused/{soft[0]}",
                          f"{cls}: {e} for a structure within the PDB limits ({soft})"))
            else:
                allowed = {"BadStructureError"}
                if any(h.endswith("outside-hybrid36") for h in hard):
                    allowed |= {"ValueError", "OverflowError"}      # raised by encode_hybrid36
                if "no-atoms" in hard:
                    allowed |= {"ValueError"}                        # NumPy refuses empty character arrays
                if cls not in allowed:
                    v.append((f"C07/refused/wrong-error-class/{hard[0]}", f"{cls}: {e}; the documented refusal for {hard} is {sorted(allowed)}"))
            return v + _oracle_refused_write(S, extra)
        recs = [l for l in f.lines if l.startswith(("ATOM", "HETATM"))]
        n = len(S["atoms"])
        # --- CRYST1 record: standard columns (PDB v3.3: a 7-15, b 16-24, c 25-33, alpha 34-40, beta 41-47, gamma 48-54)
        if S.get("box") is not None and "box-degenerate" not in soft:
            cr = [l for l in f.lines if l.startswith("CRYST1")]
            want = _cell_ref(S["box"])
            tag = None
            if len(cr) != 1 or f.lines[0] != cr[0]:
                tag = "missing"
            elif len(cr[0]) != 80:
                tag = "record-length"
            else:
                try:
                    got = [float(cr[0][a - 1:b]) for a, b in ((7, 15), (16, 24), (25, 33), (34, 40), (41, 47), (48, 54))]
                    if any(abs(g - w_) > 0.00051 + 2e-7 * abs(w_) for g, w_ in zip(got[:3], want[:3])) or \
                            any(abs(g - w_) > 0.0051 + 1e-4 + _angle_slack(w_) for g, w_ in zip(got[3:], want[3:])):
                        tag = "values"
                except ValueError:
                    tag = "unparsable"
            if tag:
                why = ("/" + hard[0]) if hard else ""
                v.append((f"C07/cryst1/{tag}{why}", f"CRYST1 {cr[:1]!r} for cell {want}"))
                return v
        # --- columns (every written record, whatever the input was)
        for r_i, line in enumerate(recs):
            a = S["atoms"][r_i % n]
            xyz = S["models"][r_i // n][r_i % n]
            tag = None
            if len(line) != 80:
                tag = "record-length"
            else:
                try:
                    for key, val in zip("xyz", xyz):
                        t = _col(line, key)
                        if not math.isfinite(val) or _rounded(float(t), 3) != _rounded(val, 3) or t != t.rstrip() or "." not in t:
                            tag = tag or f"{key}-column"
                    for key, flag, val in (("occupancy", "occ", a["occ"]), ("tempFactor", "b", a["bf"])):
                        t = _col(line, key)
                        want = _rounded(val, 2) if S["flags"][flag] and math.isfinite(val) else (100 if key == "occupancy" else 0)
                        if _rounded(float(t), 2) != want or t != t.rstrip():
                            tag = tag or f"{key}-column"
                    for key, val in (("name", a["name"]), ("resName", a["res"]), ("chainID", a["chain"]), ("iCode", a["ins"]),
                                     ("element", a["el"])):
                        if _col(line, key).strip() != val.strip():
                            tag = tag or f"{key}-column"
                    if _col(line, "record").strip() != ("HETATM" if a["het"] else "ATOM") or _col(line, "altLoc") != " ":
                        tag = tag or "record-column"
                    for c in (12, 21, 28, 29, 30, 67, 68, 69, 70, 71, 72, 73, 74, 75, 76):
                        if line[c - 1] != " ":
                            tag = tag or "blank-columns"
                    rs = _h36_dec_ref(_col(line, "resSeq"))
                    sr = _h36_dec_ref(_col(line, "serial"))
                    aid = a["id"] if S["flags"]["id"] else r_i % n + 1
                    def wrapped(x, mx):
                        return x if (S["flags"]["h36"] or x <= 0) else (x - 1) % mx + 1      # "will be wrapped"
                    if rs != wrapped(a["resid"], 9999):
                        tag = tag or "resSeq-column"
                    if sr != wrapped(aid, 99999):
                        tag = tag or "serial-column"
                    ch = _col(line, "charge")
                    q = a["q"] if S["flags"]["q"] else 0
                    if (ch.strip() == "" and q != 0) or (ch.strip() and int(ch[::-1] if ch[0] not in "+-" else ch) != q):
                        tag = tag or "charge-column"
                except Exception as e:  # noqa: BLE001
                    tag = tag or f"unparsable-{type(e).__name__}"
            if tag:
                why = ("/" + hard[0]) if hard else ""
                v.append((f"C07/columns/{tag}{why}", f"record {r_i}: {line!r} (len {len(line)})"))
                return v
        if hard:
            v.append((f"C07/accepted/{hard[0]}", f"input exceeding a column was written without an error: {hard}"))
            return v
        if soft and set(soft) != {"el-empty"}:
            if "box-degenerate" in soft:
                cr = [l for l in f.lines if l.startswith("CRYST1")]
                try:
                    ok = len(cr) == 1 and len(cr[0]) == 80 and all(
                        abs(float(cr[0][a_ - 1:b_]) - w_) <= 0.00051 + 2e-7 * w_ for (a_, b_), w_ in zip(((7, 15), (16, 24), (25, 33)), _cell_ref(S["box"])[:3]))
                except ValueError:
                    ok = False
                if not ok:
                    v.append(("C07/cryst1/degenerate-box", f"CRYST1 {cr!r} for the degenerate box {S['box']}"))
            return v
        if soft:
            # an empty element is written as blanks; the reader fills in its guess from the atom name (documented, with a warning)
            from biotite.structure import infer_elements
            S = dict(S, atoms=[dict(a, el=a["el"] if a["el"] else str(infer_elements([a["name"]])[0])) for a in S["atoms"]])
        # --- round trip (within the limits)
        try:
            st = _read_back(f.lines, S["flags"]["bonds"])
        except Exception as e:  # noqa: BLE001
            ids_ = [a["id"] if S["flags"]["id"] else i + 1 for i, a in enumerate(S["atoms"])]
            if type(e).__name__ == "InvalidFileError" and S["flags"]["bonds"] and ids_ and max(ids_) != ids_[-1]:
                return v          # documented refusal: atom ids not increasing
            v.append(("C07/roundtrip/read-error", f"{type(e).__name__}: {e}"))
            return v
        bad = None
        if st.stack_depth() != len(S["models"]) or st.array_length() != n:
            bad = f"shape {st.stack_depth()}x{st.array_length()}"
        else:
            for i, a in enumerate(S["atoms"]):
                aid = a["id"] if S["flags"]["id"] else i + 1
                got = (bool(st.hetero[i]), str(st.chain_id[i]), int(st.res_id[i]), str(st.ins_code[i]), str(st.res_name[i]),
                       str(st.atom_name[i]), str(st.element[i]), int(st.atom_id[i]))
                want = (a["het"], a["chain"], a["resid"], a["ins"], a["res"], a["name"], a["el"], aid)
                if got != want:
                    bad = bad or f"atom {i}: {got} != {want}"
                if S["flags"]["b"] and abs(float(st.b_factor[i]) - a["bf"]) > 0.005 + 1e-9:
                    bad = bad or f"b_factor {i}"
                if S["flags"]["occ"] and abs(float(st.occupancy[i]) - a["occ"]) > 0.005 + 1e-9:
                    bad = bad or f"occupancy {i}"
                if S["flags"]["q"] and int(st.charge[i]) != a["q"]:
                    bad = bad or f"charge {i}"
                for m in range(len(S["models"])):
                    for k in range(3):
                        if abs(float(st.coord[m, i, k]) - S["models"][m][i][k]) > 0.001:
                            bad = bad or f"coord model {m} atom {i}"
            if S["flags"]["bonds"] and not bad:
                ids = [a["id"] if S["flags"]["id"] else i + 1 for i, a in enumerate(S["atoms"])]
                got = {(int(min(x, y)), int(max(x, y))) for x, y, _ in st.bonds.as_array()}
                if len(set(ids)) == len(ids):
                    if got != carriable_ref(S):
                        bad = f"bonds {sorted(got)} != {sorted(carriable_ref(S))}"
                else:
                    # duplicate atom ids: CONECT can only name ids -- the bonds must survive at the level of ids
                    as_ids = lambda bs: {tuple(sorted((ids[i], ids[j]))) for i, j in bs}      # noqa: E731
                    if as_ids(got) != as_ids(carriable_ref(S)):
                        bad = f"bonds (as atom ids) {sorted(as_ids(got))} != {sorted(as_ids(carriable_ref(S)))}"
            if S.get("box") is not None and not bad:
                if st.box is None:
                    bad = "box lost"
                else:
                    u0 = _cell_ref(S["box"])
                    u1 = _cell_ref(st.box[0].tolist())
                    # CRYST1 precision (half a unit of the last decimal) + float32 storage of the box vectors
                    if any(abs(p - q) > 0.00051 + 4e-7 * abs(p) for p, q in zip(u0[:3], u1[:3])) or \
                            any(abs(p - q) > 0.0051 + 2e-4 + 2 * _angle_slack(p) for p, q in zip(u0[3:], u1[3:])):
                        bad = f"box {u0} != {u1}"
                    # ... and against the CRYST1 text that was written: the box read back, converted to cell parameters,
                    # is the text to within float32 storage (lengths 0.0005 A, angles 0.005 deg)
                    cr = [l for l in f.lines if l.startswith("CRYST1")]
                    if not bad and cr:
                        txt = [float(cr[0][a_ - 1:b_]) for a_, b_ in ((7, 15), (16, 24), (25, 33), (34, 40), (41, 47), (48, 54))]
                        if any(abs(p - q) > 0.0005 + 4e-7 * abs(p) for p, q in zip(txt[:3], u1[:3])) or \
                                any(abs(p - q) > 0.005 + _angle_slack(p) for p, q in zip(txt[3:], u1[3:])):
                            bad = f"box-text CRYST1 {txt} read back as cell {u1}"
        if bad:
            v.append(("C07/roundtrip/" + bad.split()[0], bad))
            return v
        # --- model selection: model k / -k is exactly that model, anything else is refused
        M = len(S["models"])
        for k in list(range(-2 * M - 2, 2 * M + 3)):
            want = k - 1 if 1 <= k <= M else (M + k if -M <= k <= -1 else None)
            try:
                one = _read_back(f.lines, False, model=k)
            except Exception:  # noqa: BLE001
                if want is not None:
                    v.append(("C07/model-index/refused-valid", f"get_structure(model={k}) raised for a file with {M} models"))
                    return v
                continue
            if want is None:
                v.append((f"C07/model-index/out-of-range-{'negative' if k < 0 else 'positive'}-accepted",
                          f"get_structure(model={k}) on a file with {M} models returned {one.array_length()} atoms instead of an error"))
                return v
            if one.array_length() != n or any(abs(float(one.coord[0, i, d]) - S["models"][want][i][d]) > 0.001
                                              for i in range(n) for d in range(3)):
                v.append(("C07/model-index/wrong-model", f"get_structure(model={k}) is not model {want + 1} of {M}"))
                return v
    return v


def _snapshot(arr):
    """everything a caller can observe of an AtomArray / AtomArrayStack, as plain bytes"""
    import numpy as np
    snap = {"coord": (arr.coord.dtype.str, arr.coord.shape, arr.coord.tobytes())}
    for cat in arr.get_annotation_categories():
        a = arr.get_annotation(cat)
        snap["annot:" + cat] = (a.dtype.str, a.shape, a.tobytes())
    snap["box"] = None if arr.box is None else (arr.box.dtype.str, arr.box.shape, arr.box.tobytes())
    snap["bonds"] = None if arr.bonds is None else (arr.bonds.get_atom_count(), np.ascontiguousarray(arr.bonds.as_array()).tobytes())
    return snap


def _oracle_purity_impl(S, extra, step):
    """set_structure / get_structure are observers: the structure handed to the writer is bit-identical afterwards (also when
    the writer refuses it), exporting the same object again gives the file a fresh copy gives, and reading changes neither
    the file object nor the argument lists."""
    from biotite.structure.io.pdb import PDBFile
    v = []

    def export(arr, h36):
        f = PDBFile()
        try:
            f.set_structure(arr, hybrid36=h36)
        except Exception as e:  # noqa: BLE001
            return "ERR:" + type(e).__name__
        return list(f.lines)
    with warnings.catch_warnings():
        warnings.simplefilter("ignore")
        step[0] = "repeated-export"
        pick = len(S["atoms"]) + len(S["models"]) + len(S["bonds"]) + sum(map(int, S["flags"].values()))      # deterministic per case
        seqs = ((False, True), (True, False), (False, False), (True, True))
        for seq in (seqs[pick % 4], seqs[(pick + 1) % 4]):
            arr = build_array(S, extra)
            before = _snapshot(arr)
            for stepno, h36 in enumerate(seq):
                fresh = export(build_array(S, extra), h36)
                got = export(arr, h36)
                after = _snapshot(arr)
                changed = [k for k in before if before[k] != after.get(k)] + [k for k in after if k not in before]
                if changed:
                    return [(f"C07/purity/set_structure-mutates-input/{changed[0].split(':')[-1]}",
                             f"set_structure(hybrid36={h36}) changed {changed} of the structure it was given")]
                if got != fresh:
                    name = "+".join("hybrid36" if x else "classic" for x in seq[:stepno + 1])
                    return [(f"C07/purity/repeated-export-differs/{name}",
                             f"export #{stepno + 1} of the same object ({name}) differs from the export of a fresh copy")]
        step[0] = "file-object-reuse"
        # one PDBFile object used again: set_structure(A), read, set_structure(B), read -- B must be read as from a fresh object
        n = len(S["atoms"])
        variants = []
        if n > 1:
            keep = list(range(n - 1))
            variants.append({"atoms": S["atoms"][:-1], "models": [m[:-1] for m in S["models"]], "flags": S["flags"], "box": S.get("box"),
                             "bonds": [b for b in S["bonds"] if b[0] in keep and b[1] in keep]})
        variants.append({"atoms": S["atoms"] + S["atoms"][:1], "models": [m + m[:1] for m in S["models"]] + [S["models"][0] + S["models"][0][:1]],
                         "flags": dict(S["flags"], bonds=False, id=False), "box": None, "bonds": []})
        fields4 = ["atom_id", "b_factor", "occupancy", "charge"]
        for B in variants[pick % len(variants):][:1]:
            for first, second in ((S, B), (B, S)):
                f = PDBFile()
                try:
                    f.set_structure(build_array(first, extra), hybrid36=first["flags"]["h36"])
                    f.get_structure(extra_fields=fields4)
                    f.get_coord()
                    f.get_b_factor()
                    f.set_structure(build_array(second, extra), hybrid36=second["flags"]["h36"])
                    g = PDBFile()
                    g.set_structure(build_array(second, extra), hybrid36=second["flags"]["h36"])
                except Exception:  # noqa: BLE001
                    continue
                if list(f.lines) != list(g.lines):
                    return [("C07/purity/file-object-reuse/lines", "set_structure on a used PDBFile object wrote different lines than on a fresh one")]
                res = []
                for obj in (f, g):
                    try:
                        st = obj.get_structure(extra_fields=fields4)
                        res.append((_snapshot(st), obj.get_coord().tobytes(), obj.get_coord().shape, obj.get_b_factor().tobytes(),
                                    obj.get_model_count()))
                    except Exception as e:  # noqa: BLE001
                        res.append("ERR:" + type(e).__name__)
                if res[0] != res[1]:
                    what = res[0] if isinstance(res[0], str) else f"coord shape {res[0][2]}"
                    want = res[1] if isinstance(res[1], str) else f"coord shape {res[1][2]}"
                    return [("C07/purity/file-object-reuse/read",
                             f"after set_structure(A) + reads + set_structure(B) on one PDBFile, reading gives {what}; a fresh object gives {want}")]
        step[0] = "read-purity"
        # reading
        f = PDBFile()
        try:
            f.set_structure(build_array(S, extra), hybrid36=S["flags"]["h36"])
        except Exception:  # noqa: BLE001
            return v
        f = PDBFile.read(io.StringIO("\n".join(f.lines) + "\n"))
        lines0 = list(f.lines)
        fields = ["atom_id", "b_factor", "occupancy", "charge"]
        _setup_ccd()
        kw_all = ({"model": None}, {"model": 1}, {"model": -1, "altloc": "all"}, {"model": None, "altloc": "occupancy"})
        for kwargs in (kw_all[pick % 4], kw_all[(pick + 2) % 4]):
            ef = list(fields)
            try:
                first = f.get_structure(extra_fields=ef, include_bonds=S["flags"]["bonds"], **kwargs)
                second = f.get_structure(extra_fields=ef, include_bonds=S["flags"]["bonds"], **kwargs)
            except Exception:  # noqa: BLE001
                continue
            if ef != fields:
                return [("C07/purity/get_structure-mutates-extra_fields", f"extra_fields became {ef}")]
            if list(f.lines) != lines0:
                return [("C07/purity/get_structure-mutates-file", "PDBFile.lines changed by get_structure")]
            if _snapshot(first) != _snapshot(second):
                return [("C07/purity/get_structure-not-repeatable", f"two get_structure({kwargs}) calls on the same file differ")]
    return v


def _tmpdir():
    from common import paths
    d = os.path.join(paths.BUILD, "tmp-C07")
    os.makedirs(d, exist_ok=True)
    return d


def _respell(arr, S, how, np):
    """the same structure with annotations / coordinates given in another NumPy spelling"""
    a = arr.copy()
    f = S["flags"]

    def put(name, values):
        # set_annotation() on an existing category casts to the dtype that is already there: remove it first
        a.del_annotation(name)
        a.set_annotation(name, values)
        if a.get_annotation(name).dtype != values.dtype and values.dtype != np.float32:
            raise AssertionError(f"harness: {name} did not keep dtype {values.dtype}")
    if how == "float32-annotations":
        if f["b"]:
            put("b_factor", a.b_factor.astype(np.float32))
        if f["occ"]:
            put("occupancy", a.occupancy.astype(np.float32))
    elif how == "narrow-ints":
        if f["q"]:
            put("charge", a.charge.astype(np.int8))
        if f["id"]:
            ids = a.atom_id
            for dt in (np.int8, np.uint8, np.int16, np.uint16, np.int32, np.uint32):
                if ids.min() >= np.iinfo(dt).min and ids.max() <= np.iinfo(dt).max:
                    put("atom_id", ids.astype(dt))
                    break
        a.res_id = a.res_id.astype(np.int32)
    elif how == "float-ints":
        # integral values held in floating-point arrays (e.g. the result of arithmetics)
        if f["id"]:
            put("atom_id", a.atom_id.astype(np.float64))
        if f["q"]:
            put("charge", a.charge.astype(np.float64))
        a.res_id = a.res_id.astype(np.float64)
    elif how == "layout":
        c64 = np.asfortranarray(a.coord.astype(np.float64))
        a.coord = c64
        wide = np.zeros((len(a.res_id), 2), dtype=np.int64)
        wide[:, 0] = a.res_id
        a.res_id = wide[:, 0]                      # strided view
        ro = a.chain_id.copy()
        ro.setflags(write=False)
        a.chain_id = ro
        a.atom_name = a.atom_name.astype("U12")
        a.element = list(a.element)
        if f["b"]:
            put("b_factor", a.b_factor.astype(">f8"))     # byte-swapped
        if f["q"]:
            put("charge", a.charge.astype(">i4"))
        if f["id"]:
            put("atom_id", a.atom_id.astype(">i8"))
        # the box is NOT re-laid out: its cell angles are float32 dot products whose last bit depends on the summation order
        # (contiguous vs strided), which flips a rounding tie such as 45.005 -> 45.00/45.01 or arccos near 0/180 degrees
    return a


def _oracle_api_impl(S, extra, step):
    """the same value in another spelling, every entry level and the less-used entry points of PDBFile / the pdb package"""
    import numpy as np
    import biotite.structure.io.pdb as pdb
    from biotite.structure.io.pdb import PDBFile
    from collections import namedtuple
    v = []
    f = S["flags"]
    # annotations hold float32-exact values so that a float32 spelling denotes the same numbers
    S32 = dict(S, atoms=[dict(a, bf=f32(a["bf"]) if math.isfinite(a["bf"]) else a["bf"],
                              occ=f32(a["occ"]) if math.isfinite(a["occ"]) else a["occ"]) for a in S["atoms"]])
    with warnings.catch_warnings():
        warnings.simplefilter("ignore")
        with np.errstate(all="ignore"):
            base = build_array(S32, extra)
            f0 = PDBFile()
            try:
                f0.set_structure(base, hybrid36=f["h36"])
            except Exception as e:  # noqa: BLE001
                ref = "ERR:" + type(e).__name__
            else:
                ref = list(f0.lines)
            step[0] = "writer-spelling"
            # --- 3. same value, another spelling (writer)
            for how in ("float32-annotations", "narrow-ints", "float-ints", "layout"):
                for flag in (f["h36"], np.bool_(f["h36"]), int(f["h36"])):
                    g = PDBFile()
                    try:
                        if how == "layout":
                            pdb.set_structure(g, _respell(base, S32, how, np), flag)       # wrapper function, positional
                        else:
                            g.set_structure(_respell(base, S32, how, np), hybrid36=flag)
                        got = list(g.lines)
                    except Exception as e:  # noqa: BLE001
                        got = "ERR:" + type(e).__name__
                    if got != ref:
                        return [(f"C07/api/spelling/{how}", f"set_structure with {how} (hybrid36={flag!r}) gives "
                                 f"{got if isinstance(got, str) else 'another file'}, the plain spelling gives {ref if isinstance(ref, str) else 'a file'}")]
            if isinstance(ref, str):
                return v
            step[0] = "reader-entry"
            # --- 7./4. entry points and levels of the reader
            M, n = len(S["models"]), len(S["atoms"])
            text = "\n".join(ref) + "\n"
            path = os.path.join(_tmpdir(), f"t{os.getpid()}.pdb")
            f0.write(path)
            sio = io.StringIO()
            f0.write(sio)
            PDBFile.write_iter(path + ".iter", ref)
            readers = {"path": PDBFile.read(path), "stringio": PDBFile.read(io.StringIO(sio.getvalue())),
                       "write_iter": PDBFile.read(path + ".iter"), "copy": f0.copy(), "copy-of-read": PDBFile.read(io.StringIO(text)).copy()}
            if [l.rstrip("\n") for l in PDBFile.read_iter(path)] != ref:
                return [("C07/api/read_iter", "read_iter does not return the written lines")]
            _setup_ccd()
            fields = ["atom_id", "b_factor", "occupancy", "charge"]
            try:
                want = _snapshot(PDBFile.read(io.StringIO(text)).get_structure(extra_fields=fields, include_bonds=f["bonds"]))
            except Exception as e:  # noqa: BLE001
                want = "ERR:" + type(e).__name__       # e.g. InvalidFileError for atom ids whose largest is not the last
            for name, fr in readers.items():
                try:
                    got = _snapshot(fr.get_structure(None, "first", tuple(reversed(fields)), f["bonds"]))
                except Exception as e:  # noqa: BLE001
                    got = "ERR:" + type(e).__name__
                # order of extra_fields decides the order of the annotations only
                if isinstance(got, str) or isinstance(want, str):
                    same = got == want
                else:
                    same = {k: got[k] for k in sorted(got)} == {k: want[k] for k in sorted(want)}
                if not same:
                    return [(f"C07/api/reader-entry/{name}", f"reading through {name} differs from reading the text: {got if isinstance(got, str) else 'other content'}")]
            step[0] = "copy"
            cp = f0.copy()
            cp.lines.append("REMARK   1 x")
            if list(f0.lines) != ref:
                return [("C07/api/copy-shares-lines", "changing the copy changed the original")]
            fr = readers["stringio"]
            if not (pdb.get_model_count(fr) == fr.get_model_count() == M):
                return [("C07/api/get_model_count", f"{pdb.get_model_count(fr)} / {fr.get_model_count()} for {M} models")]
            step[0] = "get_structure"
            stack = fr.get_structure(extra_fields=fields)
            step[0] = "get_coord"
            if fr.get_coord().tobytes() != stack.coord.tobytes() or fr.get_coord().shape != (M, n, 3):
                return [("C07/api/get_coord", "get_coord() differs from get_structure().coord")]
            if fr.get_b_factor().shape != (M, n) or any(fr.get_b_factor()[m].tolist() != [float(np.float32(x)) for x in stack.b_factor] for m in range(M)):
                return [("C07/api/get_b_factor", "get_b_factor() differs from the b_factor annotation")]
            step[0] = "model-argument"
            for k in range(1, M + 1):
                for kk in (k, k - M - 1):
                    for spelled in (kk, np.int64(kk), np.int8(kk), np.int32(kk)) + ((np.uint8(kk),) if kk > 0 else ()):
                        one = pdb.get_structure(fr, spelled, "first", fields, False)
                        if one.coord.tobytes() != stack.coord[k - 1].tobytes() or fr.get_coord(model=spelled).tobytes() != stack.coord[k - 1].tobytes() \
                                or fr.get_b_factor(spelled).tolist() != [float(np.float32(x)) for x in stack.b_factor]:
                            return [("C07/api/model-argument", f"model={spelled!r} ({type(spelled).__name__}) of {M} is not model {k}")]
            step[0] = "extra_fields"
            for single in fields:
                st1 = fr.get_structure(extra_fields=[single])
                if getattr(st1, single).tolist() != getattr(stack, single).tolist():
                    return [("C07/api/extra_fields", f"extra_fields=[{single!r}] differs from asking for all four")]
            if fr.get_structure(extra_fields=None).get_annotation_categories() != fr.get_structure().get_annotation_categories():
                return [("C07/api/extra_fields", "extra_fields=None differs from the default")]
            step[0] = "refused-read"
            # --- 2. a refused call changes nothing
            lines0 = list(fr.lines)
            for bad in ({"model": 0}, {"model": M + 1}, {"model": -M - 1}, {"altloc": "bogus"}, {"extra_fields": ["bogus"]}, {"model": M + 1, "altloc": "all"}):
                try:
                    fr.get_structure(**bad)
                except Exception:  # noqa: BLE001
                    pass
                else:
                    return [("C07/api/bad-argument-accepted", f"get_structure({bad}) did not raise")]
                if list(fr.lines) != lines0 or _snapshot(fr.get_structure(extra_fields=fields)) != _snapshot(stack):
                    return [("C07/api/refused-read-changes-file", f"after the refused get_structure({bad}) the file reads differently")]
            step[0] = "space-group"
            # --- space group of a written box
            if S.get("box") is not None and ref and ref[0].startswith("CRYST1"):
                SG = namedtuple("SpaceGroupInfo", ["space_group", "z_val"])
                sg = fr.get_space_group()
                if (sg.space_group.strip(), sg.z_val) != ("P 1", 1):
                    return [("C07/api/space-group", f"written CRYST1 gives space group {sg}")]
                box0 = fr.get_structure().box.tobytes()
                fr.set_space_group(SG("P 21 21 21", 4))
                sg = fr.get_space_group()
                if (sg.space_group.strip(), sg.z_val) != ("P 21 21 21", 4) or any(len(l) != 80 for l in fr.lines if l.startswith("CRYST1")) \
                        or fr.get_structure().box.tobytes() != box0:
                    return [("C07/api/set_space_group", "set_space_group changes the box or the record length, or is not read back")]
    return v


def _keyed(impl, area, S, extra):
    """an exception escaping a sub-oracle is a verdict about the API step that raised it, with a key of its own"""
    step = ["start"]
    try:
        return impl(S, extra, step)
    except Exception as e:  # noqa: BLE001
        return [(f"C07/{area}/{step[0]}/raised-{type(e).__name__}", f"{area} check, step {step[0]}: {type(e).__name__}: {str(e)[:200]}")]


def _oracle_purity(S, extra):
    return _keyed(_oracle_purity_impl, "purity", S, extra)


def _oracle_api(S, extra):
    return _keyed(_oracle_api_impl, "api", S, extra)


def _oracle_refused_write(S, extra):
    """a refused set_structure leaves a used PDBFile object as it was, and the next valid call behaves as on a fresh object"""
    from biotite.structure.io.pdb import PDBFile
    good = _one(f_b=True, bf=1.5)
    good["models"] = [[[1.0, 2.0, 3.0]], [[4.0, 5.0, 6.0]]]
    with warnings.catch_warnings():
        warnings.simplefilter("ignore")
        f = PDBFile()
        f.set_structure(build_array(good, {}))
        lines0 = list(f.lines)
        snap0 = _snapshot(f.get_structure(extra_fields=["b_factor"]))
        arr = build_array(S, extra)
        before = _snapshot(arr)
        try:
            f.set_structure(arr, hybrid36=S["flags"]["h36"])
        except Exception:  # noqa: BLE001
            if _snapshot(arr) != before:
                return [("C07/purity/refused-write-mutates-input", "the refused structure was changed")]
            try:
                ok = list(f.lines) == lines0 and _snapshot(f.get_structure(extra_fields=["b_factor"])) == snap0 and f.get_model_count() == 2
            except Exception as e:  # noqa: BLE001
                ok = False
            if not ok:
                return [("C07/purity/refused-write-changes-file", "after a refused set_structure the PDBFile object no longer holds its old content")]
            f.set_structure(build_array(good, {}))
            if list(f.lines) != lines0:
                return [("C07/purity/refused-write-changes-file", "set_structure after a refused one differs from a fresh object")]
    return []


def _oracle_alt(case):
    """altloc='first' keeps, per residue, the rows without altloc id and those with the first id that occurs;
    'occupancy' those with the id of highest summed occupancy (smallest id on ties); 'all' keeps everything."""
    recs = case["alt"]["recs"]
    lines = [unhx(op.split()[1]) for op in case["ops"] if op.startswith("rawline")]
    runs = []
    for r in recs:
        if runs and runs[-1][-1][3] == r[3]:
            runs[-1].append(r)
        else:
            runs.append([r])
    v = []
    for mode in ("first", "occupancy", "all"):
        want = []
        for run in runs:
            ids = [r[2] for r in run if r[2] != " "]
            if mode == "all":
                keep = None
            elif not ids:
                keep = " "
            elif mode == "first":
                keep = ids[0]
            else:
                sums = {}
                for r in run:
                    if r[2] != " ":
                        sums[r[2]] = sums.get(r[2], 0) + round(r[4] * 100)
                keep = min(sums, key=lambda k: (-sums[k], k))
            want += [(r[0], r[1]) for r in run if keep is None or r[2] == " " or r[2] == keep]
        with warnings.catch_warnings():
            warnings.simplefilter("ignore")
            try:
                st = _read_back(lines, bool(case["alt"].get("bonds")), altloc=mode)
            except Exception as e:  # noqa: BLE001
                return [(f"C07/altloc/{mode}/raised-{type(e).__name__}", f"get_structure(altloc={mode!r}) on a well-formed file: {type(e).__name__}: {str(e)[:200]}")]
        got = [(int(i), str(nme)) for i, nme in zip(st.atom_id, st.atom_name)]
        if got != want or st.stack_depth() != case["alt"]["nm"]:
            v.append((f"C07/altloc/{mode}", f"altloc={mode!r} kept {got}, expected {want}"))
            break
        if case["alt"].get("bonds"):
            # a CONECT record is a bond only between atoms that are both in the returned structure
            pos = {}
            for i, (sr, _) in enumerate(want):
                pos[sr] = i                       # serial numbers are unique here
            wb = {tuple(sorted((pos[c_], pos[p_]))) for c_, p_ in case["alt"]["conect"] if c_ in pos and p_ in pos}
            gb = {(int(min(x, y)), int(max(x, y))) for x, y, _ in st.bonds.as_array()}
            if gb != wb:
                v.append((f"C07/altloc/{mode}/bonds", f"altloc={mode!r}: bonds {sorted(gb)}, expected {sorted(wb)} from CONECT {case['alt']['conect']}"))
                break
    return v


def _oracle_h36ops(case):
    from biotite.structure.io.pdb.hybrid36 import decode_hybrid36, encode_hybrid36, max_hybrid36_number
    v = []
    for op in case["ops"]:
        w = op.split()
        if w[0] != "h36enc":
            continue
        n, wd = int(w[1]), int(w[2])
        if wd < 1 or wd > 5:
            continue
        try:
            s = encode_hybrid36(n, wd)
        except Exception:  # noqa: BLE001
            if 0 <= n <= max_hybrid36_number(wd):
                v.append((f"C07/hybrid36/refused-width-{wd}", f"encode_hybrid36({n}, {wd}) raised"))
            continue
        if not (0 <= n <= max_hybrid36_number(wd)):
            v.append((f"C07/hybrid36/accepted-out-of-range-width-{wd}", f"encode_hybrid36({n}, {wd}) = {s!r}"))
        else:
            try:
                back = (decode_hybrid36(s), _h36_dec_ref(s))
            except Exception as e:  # noqa: BLE001
                back = (type(e).__name__, None)
            if len(s) > wd or back != (n, n):
                v.append((f"C07/hybrid36/roundtrip-width-{wd}", f"encode_hybrid36({n}, {wd}) = {s!r} decodes to {back}"))
    return v


def _oracle_h36dec(case):
    """decoding arbitrary ASCII text either raises a ValueError or returns an integer (never anything else, never a crash)"""
    from biotite.structure.io.pdb.hybrid36 import decode_hybrid36
    for op in case["ops"]:
        t = unhx(op.split()[1])
        try:
            r = decode_hybrid36(t)
        except ValueError:
            continue
        except Exception as e:  # noqa: BLE001
            return [("C07/hybrid36/decode-error-class", f"decode_hybrid36({t!r}) raised {type(e).__name__}")]
        if not isinstance(r, int):
            return [("C07/hybrid36/decode-type", f"decode_hybrid36({t!r}) returned {type(r).__name__}")]
    return []


def _oracle_h36spell(case):
    """hybrid-36 functions called with NumPy scalars of several widths denote the same numbers"""
    import numpy as np
    from biotite.structure.io.pdb.hybrid36 import decode_hybrid36, encode_hybrid36, max_hybrid36_number
    v = []
    for w in (1, 2, 3, 4, 5):
        want = 10 ** w - 1 + 52 * 36 ** (w - 1)
        for dt in (np.int8, np.uint8, np.int16, np.uint16, np.int32, np.uint32, np.int64, np.uint64):
            try:
                got = int(max_hybrid36_number(dt(w)))
            except Exception as e:  # noqa: BLE001
                got = "ERR:" + type(e).__name__
            if got != want:
                cls = "narrow-int" if np.dtype(dt).itemsize <= 2 else np.dtype(dt).name
                v.append((f"C07/hybrid36/max_hybrid36_number/numpy-{cls}-length",
                          f"max_hybrid36_number(np.{np.dtype(dt).name}({w})) = {got}, expected {want}"))
    # width 6: every intermediate value must fit a C int -- it does not (num + 10*36**5 overflows above ~1.5e9)
    for n in (10 ** 6 - 1, 10 ** 6, 10 ** 6 + 26 * 36 ** 5 - 1, 10 ** 6 + 26 * 36 ** 5, 1_572_120_576 + 10 ** 6 - 1, 2 ** 31 - 1):
        try:
            t = encode_hybrid36(n, 6)
            back = decode_hybrid36(t)
        except (ValueError, OverflowError):
            back = t = None
            if n <= 10 ** 6 - 1 + 52 * 36 ** 5:
                back = "refused"
        if back != n:
            v.append(("C07/hybrid36/width-6-int-overflow", f"encode_hybrid36({n}, 6) = {t!r}, decoded {back!r}"))
            break
    # strings that are not hybrid-36 numbers must be refused, not decoded to some number
    for bad, twin in (("A0a", "A16"), ("Aa00", None), ("A-1!", None), ("a0A", None), ("A 12", None)):
        try:
            r = decode_hybrid36(bad)
        except ValueError:
            continue
        v.append(("C07/hybrid36/decode-accepts-invalid-characters",
                  f"decode_hybrid36({bad!r}) = {r}" + (f" = decode_hybrid36({twin!r})" if twin else "")))
        break
    for t in ("A\u00e9", "\u0661\u0662"):
        try:
            r = decode_hybrid36(t)
        except ValueError:
            continue
        if r != int(t):
            v.append(("C07/hybrid36/non-ascii", f"decode_hybrid36({t!r}) = {r}"))
    for n, w in case["numbers"]:
        ref = encode_hybrid36(n, w)
        for dn in (np.int32, np.int64, np.uint32):
            for dw in (np.int8, np.uint8, np.int64, np.uint16):
                try:
                    got = encode_hybrid36(dn(n), dw(w))
                except Exception as e:  # noqa: BLE001
                    got = "ERR:" + type(e).__name__
                if got != ref or decode_hybrid36(str(np.str_(got))) != n:
                    v.append(("C07/hybrid36/numpy-scalar-arguments", f"encode_hybrid36(np.{np.dtype(dn).name}({n}), np.{np.dtype(dw).name}({w})) = {got!r}, expected {ref!r}"))
                    return v
    return v


def _oracle_h36range(case):
    from biotite.structure.io.pdb.hybrid36 import decode_hybrid36, encode_hybrid36
    wd = case["w"]
    for n in range(case["lo"], case["hi"], case.get("step", 1)):
        try:
            s = encode_hybrid36(n, wd)
            bad = len(s) > wd or decode_hybrid36(s) != n or (n >= 10 ** (wd - 1) and len(s) != wd)
        except Exception as e:  # noqa: BLE001
            s, bad = type(e).__name__, True
        if bad:
            return [(f"C07/hybrid36/roundtrip-width-{wd}", f"encode_hybrid36({n}, {wd}) = {s!r}")]
    return []


# ---------------------------------------------------------------- generator
def _name(rng, lo, hi):
    return "".join(rng.choice(ALPHA) for _ in range(rng.randint(lo, hi)))


COORD_EDGES = [-999.9995, 9999.9995, -999.999, 9999.999, -1000.0, 10000.0, 0.0005, -0.0005, 0.0625, 0.1875, 8191.9995, -99.9995]
BF_EDGES = [999.995, -99.995, 999.99, -99.99, 999.994999, -99.994999, 0.005, 0.125, 0.375, 0.015, 1.0, 0.0, 100.0, -0.001]


def _coord(rng, ok):
    """a float32 value; ok=True: inside the writable range (after rounding)"""
    for _ in range(100):
        r = rng.random()
        if r < 0.45:
            v = rng.choice(f32_neighbours(rng.choice(COORD_EDGES), 3))
        elif r < 0.5:
            v = rng.choice([0.0, -0.0, 1.0, -1.0])
        elif r < 0.8:
            v = f32(rng.uniform(-999.9, 9999.9))
        else:
            v = f32(round(rng.uniform(-99, 99), rng.randint(0, 3)))
        k = _rounded(v, 3)
        if (-999999 <= k <= 9999999) == ok:
            return v
    return 1.0 if ok else 10000.0


def _bf(rng, ok):
    for _ in range(100):
        r = rng.random()
        if r < 0.5:
            e = rng.choice(BF_EDGES)
            v = rng.choice([e, math.nextafter(e, math.inf), math.nextafter(e, -math.inf), e + 1e-9, e - 1e-9])
        elif r < 0.8:
            v = rng.uniform(-99.9, 999.9)
        else:
            v = round(rng.uniform(0, 100), rng.randint(0, 2))
        k = _rounded(v, 2)
        if (-9999 <= k <= 99999) == ok:
            return v
    return 1.0 if ok else 1000.0


LEN_EDGES = [9999.999, 10000.0, 10000.001, 99999.99, 99999.984, 12345.625, 65536.5, 0.001, 0.0005, 0.004, 1.0, 999.9995, 54.321]
ANGLE_EDGES = [90.0, 89.99, 90.01, 0.01, 0.5, 179.99, 179.5, 60.0, 120.0, 109.47, 45.005, 33.333]


def _vectors_ref(ln, an):
    """box vectors of a cell (lengths, angles in degrees), float64, independent of biotite (standard crystallographic setting)"""
    al, be, ga = (math.radians(x) for x in an)
    a, b, c = ln
    cx = math.cos(be)
    cy = (math.cos(al) - math.cos(be) * math.cos(ga)) / math.sin(ga)
    cz2 = 1 - cx * cx - cy * cy
    if cz2 <= 1e-9:
        return None
    return [[a, 0.0, 0.0], [b * math.cos(ga), b * math.sin(ga), 0.0], [c * cx, c * cy, c * math.sqrt(cz2)]]


def _rotate(box, rng):
    """the three box vectors under a random proper rotation (unit quaternion), float64"""
    while True:
        q = [rng.gauss(0, 1) for _ in range(4)]
        nq = math.sqrt(sum(x * x for x in q))
        if nq > 1e-3:
            break
    w, x, y, z = (t / nq for t in q)
    R = [[1 - 2 * (y * y + z * z), 2 * (x * y - z * w), 2 * (x * z + y * w)],
         [2 * (x * y + z * w), 1 - 2 * (x * x + z * z), 2 * (y * z - x * w)],
         [2 * (x * z - y * w), 2 * (y * z + x * w), 1 - 2 * (x * x + y * y)]]
    if rng.random() < 0.25:            # axis permutations / sign flips: exact in float32
        R = rng.choice([[[0, 1, 0], [0, 0, 1], [1, 0, 0]], [[0, 0, 1], [1, 0, 0], [0, 1, 0]],
                        [[-1, 0, 0], [0, -1, 0], [0, 0, 1]], [[0, -1, 0], [1, 0, 0], [0, 0, 1]]])
    return [[sum(R[i][k] * v[k] for k in range(3)) for i in range(3)] for v in box]


ANGLE_DEV = [0.01, 0.02, 0.03, 0.05, 0.1, 0.5]


def gen_box(rng, ok=True):
    """box vectors (float32 values) for a cell with lengths / angles on the CRYST1 column boundaries; the vectors are
    computed here, not with the library under test"""
    for _ in range(300):
        r0 = rng.random()
        if r0 < 0.25:
            ln = [rng.choice([0.5, 2.0, 37.5, 5000.0, 20000.0, 99999.0]) for _ in range(3)]       # very anisotropic
        else:
            ln = [rng.choice(LEN_EDGES) if rng.random() < 0.6 else round(rng.uniform(1, 400), rng.randint(0, 3)) for _ in range(3)]
        if not ok:
            ln[rng.randrange(3)] = rng.choice([99999.9996, 100000.0, 123456.0, 99999.999, 1e6])
        r = rng.random()
        if r < 0.25:
            an = [90.0, 90.0, 90.0]
        elif r < 0.7:
            # one, two or three angles a few hundredths of a degree away from 90 / 60 / 120
            base = rng.choice([90.0, 90.0, 90.0, 60.0, 120.0])
            an = [base if base != 120.0 else 90.0] * 3 if base != 120.0 else [90.0, 90.0, 120.0]
            if base == 60.0:
                an = [60.0, 60.0, 60.0] if rng.random() < 0.5 else [90.0, 60.0, 90.0]
            for k in rng.sample(range(3), rng.randint(1, 3)):
                an[k] = round(an[k] + rng.choice([-1, 1]) * rng.choice(ANGLE_DEV), 2)
        elif r < 0.85:
            an = [90.0, rng.choice(ANGLE_EDGES), 90.0]
        else:
            an = [rng.choice(ANGLE_EDGES) if rng.random() < 0.5 else round(rng.uniform(20, 160), 2) for _ in range(3)]
        box = _vectors_ref(ln, an)
        if box is None:
            continue
        if rng.random() < 0.45:
            box = _rotate(box, rng)       # not in the standard orientation (a along +x, b in the xy plane)
        box = [[f32(v) for v in row] for row in box]
        vals = cell_values(box)
        if not all(math.isfinite(v) for v in vals) or min(vals[:3]) <= 0:
            continue
        fits = all(_rounded(v, 3) <= 99999999 for v in vals[:3])
        if fits == ok:
            return box
    return [[10.0, 0.0, 0.0], [0.0, 10.0, 0.0], [0.0, 0.0, 10.0]] if ok else [[100000.0, 0.0, 0.0], [0.0, 10.0, 0.0], [0.0, 0.0, 10.0]]


RES_POOL = ["ALA", "GLY", "HOH", "SOL", "LIG", "XX", "Z", "A1*", "U"]
EL_POOL = ["C", "N", "O", "H", "S", "CA", "FE", "ZN", "Na", "D"]


def _ids(rng, h36, w, n, increasing, ok=True):
    if h36:
        mx = H36_MAX[w]
        edges = [0, 1, 10 ** w - 1, 10 ** w, 10 ** w + 1, 10 ** w + 26 * 36 ** (w - 1) - 1, 10 ** w + 26 * 36 ** (w - 1), mx - 1, mx]
        lo = 0
    else:
        mx = 10 ** w - 1
        lo = -(10 ** (w - 1) - 1)
        edges = [lo, lo + 1, -1, 0, 1, 2, mx - 1, mx]
    if increasing:
        start = rng.choice([1, 1, rng.randint(1, 50), max(1, mx - n - rng.randint(0, 3)), max(1, 10 ** w - n // 2 - 1) if h36 else 1])
        start = min(start, mx - 5 * n)
        out = []
        cur = start
        for _ in range(n):
            out.append(cur)
            cur += rng.choice([1, 1, 1, 2, 5])
        return out
    return [rng.choice(edges) if rng.random() < 0.5 else rng.randint(lo, mx) for _ in range(n)]


def gen_struct(rng, malformed=None):
    n = rng.choice([1, 1, 2, 3, 4, 6, 9, 12])
    if malformed == "empty":
        n = 0
    nm = rng.choice([1, 1, 1, 2, 3])
    f = {"h36": rng.random() < 0.35, "id": rng.random() < 0.5, "b": rng.random() < 0.6, "occ": rng.random() < 0.5,
         "q": rng.random() < 0.5, "bonds": rng.random() < 0.4}
    aids = _ids(rng, f["h36"], 5, n, increasing=f["bonds"] or rng.random() < 0.5)
    if f["bonds"] and n > 1:
        r = rng.random()
        if r < 0.12 and not f["h36"]:
            start = rng.choice([-9999, -5, -n, -1])                 # increasing, starting below zero
            aids = [start + i for i in range(n)]
        elif r < 0.24:
            if not f["h36"] and rng.random() < 0.5:
                # unique, unsorted, with negative ids anywhere (not only in front): the id map must be offset by the smallest id
                aids = rng.sample(list(range(-9999, -9990)) + list(range(-12, 40)) + [0], n) if n <= 60 else rng.sample(range(-9999, 90000), n)
                if all(x >= 0 for x in aids[1:]):
                    aids[rng.randrange(1, n)] = -rng.randint(1, 9999)
                    while len(set(aids)) < n:
                        aids[rng.randrange(1, n)] = -rng.randint(1, 9999)
            else:
                aids = rng.sample(range(1, 90000), n)                 # unique, unsorted
            if rng.random() < 0.8:
                aids[-1] = max(aids) + 1                              # the reader needs the largest id last
        elif r < 0.32:
            aids = sorted(rng.choice(range(1, 4 + n // 2)) for _ in range(n))      # duplicates
        if r < 0.32:
            f["id"] = True
    same_res = rng.random() < 0.5
    rids = _ids(rng, f["h36"], 4, n, increasing=False)
    atoms = []
    for i in range(n):
        el = rng.choice(EL_POOL)
        a = {"het": rng.random() < 0.4, "id": aids[i], "name": _name(rng, 1, 4) if rng.random() < 0.95 else "",
             "res": rng.choice(RES_POOL) if rng.random() < 0.9 else _name(rng, 0, 3),
             "chain": rng.choice(["A", "B", "", "1", "z"]), "resid": rids[0] if (same_res and i % 3) else rids[i],
             "ins": rng.choice(["", "", "", "A", "1"]), "el": el, "occ": _bf(rng, True), "bf": _bf(rng, True),
             "q": rng.choice([0, 0, 1, -1, 2, -2, 9, -9])}
        atoms.append(a)
    models = [[[_coord(rng, True) for _ in range(3)] for _ in range(n)] for _ in range(nm)]
    bonds = []
    if f["bonds"] and n > 1:
        pairs = [(i, j) for i in range(n) for j in range(i + 1, n)]
        rng.shuffle(pairs)
        bonds = pairs[:rng.randint(0, min(len(pairs), 2 * n))]
    S = {"atoms": atoms, "models": models, "bonds": bonds, "flags": f}
    if rng.random() < 0.35 or malformed == "box":
        S["box"] = gen_box(rng, ok=malformed != "box")
    if malformed == "empty":
        return S
    if malformed:
        a = rng.choice(atoms)
        if malformed == "name":
            a["name"] = _name(rng, 5, 6)
        elif malformed == "res":
            a["res"] = _name(rng, 4, 5)
        elif malformed == "chain":
            a["chain"] = _name(rng, 2, 3)
        elif malformed == "ins":
            a["ins"] = _name(rng, 2, 2)
        elif malformed == "el":
            a["el"] = _name(rng, 3, 3)
        elif malformed == "coord":
            models[rng.randrange(nm)][rng.randrange(n)][rng.randrange(3)] = _coord(rng, False)
        elif malformed == "bf":
            f["b"] = True
            a["bf"] = _bf(rng, False)
        elif malformed == "occ":
            f["occ"] = True
            a["occ"] = _bf(rng, False)
        elif malformed == "q":
            f["q"] = True
            a["q"] = rng.choice([10, -10, 11, -128, 99])
        elif malformed == "nonfinite":
            v = rng.choice([float("nan"), float("inf"), float("-inf")])
            what = rng.choice(["coord", "coord", "bf", "occ", "bf-unused", "occ-unused"])
            if what == "coord":
                models[rng.randrange(nm)][rng.randrange(n)][rng.randrange(3)] = v
            elif what == "bf":
                f["b"] = True
                a["bf"] = v
            elif what == "occ":
                f["occ"] = True
                a["occ"] = v
            elif what == "bf-unused":       # annotation absent: the value is not part of the structure at all
                f["b"] = False
                a["bf"] = v
            else:
                f["occ"] = False
                a["occ"] = v
        elif malformed == "resid":
            a["resid"] = rng.choice([-1, -7, 2436112, 2436113 + rng.randint(0, 10 ** 6)]) if f["h36"] else rng.choice([-1000, -1001, -9999, -10 ** 5, 10000, 10001, 12345, 19999, 20000])
        elif malformed == "atomid":
            f["id"] = True
            f["bonds"] = False
            S["bonds"] = []
            a["id"] = rng.choice([-1, -3, 87440032, 87440032 + rng.randint(0, 10 ** 6)]) if f["h36"] else rng.choice([-10000, -10001, -123456, 100000, 100001, 199999, 199998])
    return S


MALFORMED = ["name", "res", "chain", "ins", "el", "coord", "coord", "bf", "occ", "q", "resid", "resid", "atomid", "atomid", "box", "box", "nonfinite", "nonfinite", "nonfinite", "empty"]


def pdb_line(rng, rec):
    """an ATOM/HETATM record in a valid but not necessarily canonical layout (for the reader)"""
    def num(v, d, w):
        style = rng.random()
        t = f"{v:.{d}f}" if style < 0.6 else f"{v:.{rng.randint(1, d)}f}" if style < 0.8 else (f"{v:+.{d}f}" if style < 0.9 else f"{v:.0f}")
        if len(t) > w:
            t = f"{v:.{d}f}"
        return t.rjust(w) if rng.random() < 0.8 else t.ljust(w)
    q = rec["q"]
    ch = "  " if q == 0 else rng.choice([f"{abs(q)}{'+' if q > 0 else '-'}", f"{'+' if q > 0 else '-'}{abs(q)}"])
    name = rec["name"]
    name = (" " + name).ljust(4) if len(name) < 4 and rng.random() < 0.7 else name.ljust(4)
    return (("HETATM" if rec["het"] else "ATOM").ljust(6) + rec["aid"].rjust(5) + " " + name + " " + rec["res"].rjust(3) + " "
            + rec["chain"].ljust(1) + (rec["rid"].rjust(4) if rng.random() < 0.8 else rec["rid"].ljust(4)) + rec["ins"].ljust(1) + "   "
            + num(rec["x"], 3, 8) + num(rec["y"], 3, 8) + num(rec["z"], 3, 8) + num(rec["occ"], 2, 6) + num(rec["bf"], 2, 6)
            + " " * 10 + rec["el"].rjust(2) + ch)


def gen_raw(rng):
    from biotite.structure.io.pdb.hybrid36 import encode_hybrid36
    n = rng.randint(1, 4)
    nm = rng.choice([1, 1, 2, 3])
    recs = []
    for i in range(n):
        aid = rng.choice([i + 1, 99990 + i, 100000 + i * 7, 43770016 + i])
        rid = rng.choice([rng.randint(-999, 9999), 10000 + rng.randint(0, 2 * 10 ** 6), 5, 9999])
        recs.append({"het": rng.random() < 0.4, "aid": encode_hybrid36(aid, 5) if rng.random() < 0.8 else str(i + 1).zfill(rng.randint(1, 5)),
                     "name": _name(rng, 1, 4), "res": _name(rng, 1, 3), "chain": rng.choice(["A", "", "b"]),
                     "rid": encode_hybrid36(rid, 4) if rid >= 0 else str(rid), "ins": rng.choice(["", "A"]),
                     "el": rng.choice(EL_POOL), "q": rng.choice([0, 0, 1, -1, 5, -9])})
    lines = []
    for m in range(nm):
        if nm > 1 or rng.random() < 0.2:
            lines.append(f"MODEL     {m + 1:4}")
        for r in recs:
            r = dict(r, x=round(rng.uniform(-999, 9999), 3), y=round(rng.uniform(-99, 99), 3), z=rng.choice([0.0, 1.5, -0.001, 9999.999]),
                     occ=round(rng.uniform(0, 1), 2), bf=round(rng.uniform(-99, 999), 2))
            lines.append(pdb_line(rng, r))
        if nm > 1:
            lines.append("ENDMDL")
    if rng.random() < 0.1 and nm > 1:
        lines.pop(-2)          # models of different length -> InvalidFileError
    if rng.random() < 0.3:
        lines = [l.rstrip() for l in lines]      # PDBFile.read pads short lines
    return {"kind": "rawread", "ops": ["rawline " + hx(l) for l in lines] + ["read 0"] +
            [f"readmodel {k} 0" for k in rng.sample(range(-nm - 2, nm + 3), 2)]}


def gen_alt(rng):
    """a file with alternate locations: residues whose atoms come in 1-3 alternates (letters or digits), 1-2 models"""
    nres = rng.randint(1, 4)
    recs = []
    serial = 0
    for r_i in range(nres):
        while True:
            key = (rng.choice(["A", "B"]), rng.choice([5, 5, 6, 7]), rng.choice(["", "", "A"]), rng.choice(["ALA", "GLY", "LIG"]))
            ids = rng.choice([[" "], ["A", "B"], ["B", "A"], ["1", "2"], ["A", "B", "C"], ["A"], ["b", "a"]])
            dyadic = rng.random() < 0.5
            atoms = []
            for a_i in range(rng.randint(1, 3)):
                alts = ids if rng.random() < 0.7 else [" "]
                if len(ids) > 1 and rng.random() < 0.2:
                    alts = ids[:1]
                for alt in alts:
                    occ = rng.choice([0.25, 0.5, 0.75, 1.0, 0.0]) if dyadic else rng.randint(0, 100) / 100
                    atoms.append((f"C{a_i}", alt, occ))
            if rng.random() < 0.3:
                rng.shuffle(atoms)
            sums = {}
            for _, alt, occ in atoms:
                if alt != " ":
                    sums[alt] = sums.get(alt, 0) + round(occ * 100)
            if dyadic or len(set(sums.values())) == len(sums):
                break
        for name, alt, occ in atoms:
            serial += 1
            recs.append((serial, name, alt, key, occ))
    nm = rng.choice([1, 1, 2])
    lines = []
    for m in range(nm):
        if nm > 1:
            lines.append(f"MODEL     {m + 1:4}")
        for serial, name, alt, (ch, rid, ins, rn), occ in recs:
            x, y, z = (round(rng.uniform(-50, 50), 3) for _ in range(3))
            lines.append(f"ATOM  {serial:>5} {(' ' + name).ljust(4)}{alt}{rn:>3} {ch}{rid:>4}{ins:1}   {x:>8.3f}{y:>8.3f}{z:>8.3f}{occ:>6.2f}{10.0:>6.2f}"
                         + " " * 10 + " C" + "  ")
        if nm > 1:
            lines.append("ENDMDL")
    mode = rng.choice(["first", "first", "occupancy", "occupancy", "all"])
    conect = []
    wb = 0
    if rng.random() < 0.5:
        # CONECT records between the serial numbers, also naming atoms the altloc filter removes and a serial that does not exist
        pool = [r[0] for r in recs] + [serial + 3]
        for _ in range(rng.randint(1, 4)):
            c_, p_ = rng.sample(pool, 2) if len(pool) > 1 else (pool[0], pool[0])
            if c_ != p_:
                conect.append((c_, p_))
                lines.append(f"CONECT{c_:>5}{p_:>5}")
        wb = 1
    return {"kind": "altloc", "ops": ["rawline " + hx(l) for l in lines] + [f"readalt {mode} {wb}", f"readalt {rng.choice(['first', 'occupancy', 'all'])} {wb}"],
            "alt": {"recs": [[sr, nme, al, list(k), oc] for sr, nme, al, k, oc in recs], "nm": nm, "conect": conect, "bonds": wb}}


def h36_numbers(rng, count):
    out = []
    for w in (1, 2, 3, 4, 5):
        up = 10 ** w + 26 * 36 ** (w - 1)
        mx = 10 ** w - 1 + 52 * 36 ** (w - 1)
        for b in (0, 10 ** (w - 1), 10 ** w, up, mx + 1):
            for d in range(-3, 4):
                if 0 <= b + d < 2 ** 31 - 1:
                    out.append((b + d, w))
        out.append((-1, w))
    out.append((5, 0))
    while len(out) < count:
        w = rng.choice([1, 2, 3, 4, 4, 4, 5, 5, 5])
        mx = min(10 ** w - 1 + 52 * 36 ** (w - 1), 2 ** 31 - 2)
        out.append((rng.randint(0, mx + (20 if mx < 2 ** 31 - 100 else 0)) if rng.random() < 0.9 else rng.randint(0, 10 ** w), w))
    return out


def h36_strings(rng, count):
    out = ["A000", "zzzz", "a000", "ZZZZ", " 123", "-999", "    ", "", " A00", "A00 ", "1_0", "+5", "- 5", "A", "z", "a", "Z", "9", "ZZZZZ", "zzzzz",
           "A-1!", "{ab", "@AB", "[12", "`12", "_1", "1_", "1__2", "0x10", "\t12 ", "Aa0B", "aA0b", "12a", "A 12"]
    digs = "0123456789"
    while len(out) < count:
        w = rng.randint(1, 5)
        case = rng.random()
        if case < 0.4:
            al = digs + "ABCDEFGHIJKLMNOPQRSTUVWXYZ"
            s = rng.choice(al[10:]) + "".join(rng.choice(al) for _ in range(w - 1))
        elif case < 0.8:
            al = digs + "abcdefghijklmnopqrstuvwxyz"
            s = rng.choice(al[10:]) + "".join(rng.choice(al) for _ in range(w - 1))
        elif case < 0.9:
            s = str(rng.randint(-999, 99999)).rjust(rng.randint(1, 6))
        else:
            s = "".join(chr(rng.randint(32, 126)) for _ in range(w))
        out.append(s)
    return out


def cases(rng, tier):
    quick = tier == "quick"
    n_struct, n_mal, n_raw, n_h36 = (380, 200, 150, 5000) if quick else (6000, 3000, 2000, 60000)
    for _ in range(n_struct):
        S = gen_struct(rng)
        M = len(S["models"])
        ks = rng.sample([k for k in range(-M - 3, M + 3)], 3)
        c = {"kind": "roundtrip", "ops": struct_ops(S, model_ks=ks)}
        if rng.random() < 0.2 and len(S["models"]) == 1:
            c["extra"] = {"stack1": True}
        yield c
    for _ in range(n_mal):
        S = gen_struct(rng, malformed=rng.choice(MALFORMED))
        yield {"kind": "malformed", "ops": struct_ops(S)}
    for _ in range(n_raw):
        yield gen_raw(rng)
    for _ in range(120 if quick else 1500):
        yield gen_alt(rng)
    nums = h36_numbers(rng, n_h36)
    for i in range(0, len(nums), 250):
        yield {"kind": "h36", "ops": [f"h36enc {n} {w}" for n, w in nums[i:i + 250]]}
    strs = h36_strings(rng, n_h36 // 5)
    for i in range(0, len(strs), 250):
        yield {"kind": "h36dec", "ops": ["h36dec " + hx(s) for s in strs[i:i + 250]]}
    # oracle-only streams
    yield from oracle_only(rng, tier)


def oracle_only(rng, tier):
    quick = tier == "quick"
    step4 = 1
    for lo in range(0, H36_MAX[4] + 1, 400000):
        yield {"kind": "h36range", "w": 4, "lo": lo, "hi": min(lo + 400000, H36_MAX[4] + 1), "step": step4}
    if not quick:
        for lo in range(0, H36_MAX[5] + 1, 4000000):
            yield {"kind": "h36range", "w": 5, "lo": lo + rng.randint(0, 6), "hi": min(lo + 4000000, H36_MAX[5] + 1), "step": 7}
    for w in (5,):
        for b in (10 ** 5, 10 ** 5 + 26 * 36 ** 4, H36_MAX[5] + 1):
            yield {"kind": "h36range", "w": w, "lo": max(0, b - 3000), "hi": min(b + 3000, H36_MAX[5] + 1)}
    yield {"kind": "h36spell", "numbers": [(rng.choice([0, 9999, 10000, 1223055, 1223056, 2436111]), 4), (rng.choice([99999, 100000, 43770015, 43770016, 87440031]), 5),
                                           (rng.randint(0, 2436111), 4), (rng.randint(0, 87440031), 5), (rng.randint(0, 61), 1)]}
    # unique but unsorted atom ids with bonds (the reader needs the largest id last: otherwise InvalidFileError, never wrong bonds)
    for _ in range(25 if quick else 300):
        S = gen_struct(rng)
        S["flags"].update(id=True, bonds=True)
        n = len(S["atoms"])
        ids = rng.sample(range(1, 90000), n)
        if rng.random() < 0.6:
            ids[-1] = max(ids) + 1
        for a, i in zip(S["atoms"], ids):
            a["id"] = i
        pairs = [(i, j) for i in range(n) for j in range(i + 1, n)]
        rng.shuffle(pairs)
        S["bonds"] = pairs[:rng.randint(0, min(len(pairs), 2 * n))]
        yield {"kind": "oracle-unsorted-ids", "struct": S, "extra": {}}
    # exactly on the wrap point of the default numbering: 100001 atoms (hybrid-36: id 100000 = A0000)
    if quick:
        yield {"kind": "oracle-big", "big": True, "struct": _big_struct(100001, True), "extra": {}}
    else:
        for h in (True, False):
            yield {"kind": "oracle-big", "big": True, "struct": _big_struct(100001, h), "extra": {}}
    # audit 6: regions the model abstains from / the theorems exclude, run on the real code
    for _ in range(12 if quick else 120):
        S = gen_struct(rng)
        S["flags"].update(h36=False, bonds=False)
        S["bonds"] = []
        for a in rng.sample(S["atoms"], max(1, len(S["atoms"]) // 2)):
            a["el"] = ""                                            # the reader guesses the element from the atom name
            a["name"] = rng.choice(["CA", "N", "O1", "HG", "FE", "ZN", "C12", "1HB"])
        yield {"kind": "oracle-empty-element", "struct": S, "extra": {}}
    for _ in range(12 if quick else 120):
        S = gen_struct(rng)
        a_, b_ = round(rng.uniform(1, 50), 3), round(rng.uniform(1, 50), 3)
        S["box"] = rng.choice([[[0.0, 0.0, 0.0], [0.0, b_, 0.0], [0.0, 0.0, a_]],           # a zero vector (no periodicity)
                               [[0.0, 0.0, 0.0], [0.0, 0.0, 0.0], [0.0, 0.0, 0.0]],
                               [[a_, 0.0, 0.0], [2 * a_, 0.0, 0.0], [0.0, 0.0, b_]]])       # collinear vectors
        yield {"kind": "oracle-degenerate-box", "struct": S, "extra": {}}
    for _ in range(10 if quick else 100):
        S = gen_struct(rng)
        S["flags"].update(bonds=False)
        S["bonds"] = []
        for a in rng.sample(S["atoms"], max(1, len(S["atoms"]) // 2)):
            key = rng.choice(["name", "res", "chain", "ins", "el"])
            a[key] = {"name": rng.choice([" CA", "C A", "CA ", "C\tA"]), "res": rng.choice([" AL", "A L", "AL "]), "chain": " ",
                      "ins": rng.choice([" ", "\t"]), "el": rng.choice([" C", "C "])}[key]
        yield {"kind": "oracle-blank-characters", "struct": S, "extra": {}}
    yield from malformed_files(rng, 10 if quick else 100)
    # non-finite values and boxes: judged by the oracle only
    for _ in range(60 if quick else 600):
        S = gen_struct(rng)
        S["flags"]["h36"] = False
        what = rng.choice(["nan", "inf", "-inf", "bnan", "binf", "onan", "box", "box", "box"])
        extra = {}
        if what in ("nan", "inf", "-inf"):
            S["models"][0][0][rng.randrange(3)] = float(what)
        elif what in ("bnan", "binf"):
            S["flags"]["b"] = True
            S["atoms"][0]["bf"] = float(what[1:])
        elif what == "onan":
            S["flags"]["occ"] = True
            S["atoms"][0]["occ"] = float("nan")
        else:
            a, b, c = (round(rng.uniform(5, 300), 3) for _ in range(3))
            if rng.random() < 0.5:
                box = [[a, 0, 0], [0, b, 0], [0, 0, c]]
            else:
                box = [[a, 0, 0], [b * 0.3, b, 0], [c * 0.1, c * 0.2, c]]
            extra["box"] = box
        yield {"kind": "oracle-" + ("box" if what == "box" else "nonfinite"), "struct": _json_struct(S), "extra": extra}


def _json_struct(S):
    return S   # non-finite floats are serialised by json (NaN/Infinity) and read back as floats


def _one(**kw):
    """a one-atom structure description; keyword = atom field, flag name (h36/id/b/occ/q/bonds) or x"""
    a = {"het": False, "id": 1, "name": "CA", "res": "ALA", "chain": "A", "resid": 1, "ins": "", "el": "C", "occ": 1.0,
         "bf": 0.0, "q": 0}
    fl = {"h36": False, "id": False, "b": False, "occ": False, "q": False, "bonds": False}
    xyz = [1.0, 2.0, 3.0]
    for k, v in kw.items():
        if k == "x":
            xyz[0] = f32(v)
        elif k.startswith("f_"):
            fl[k[2:]] = v
        else:
            a[k] = v
    return {"atoms": [a], "models": [[xyz]], "bonds": [], "flags": fl}


def malformed_files(rng, count):
    """hand-made files outside what the writer produces: the reader must refuse or read what the text says, never guess"""
    rec = "ATOM  {:>5} {:<4} ALA A{:>4}    {:>8}{:>8}{:>8}{:>6}{:>6}           C  "
    for _ in range(count):
        kind = rng.choice(["atoms-before-model", "no-atoms", "numbers"])
        if kind == "atoms-before-model":
            lines = [rec.format(1, " N", 1, "1.000", "1.000", "1.000", "1.00", "0.00"), "MODEL        1",
                     rec.format(2, " CA", 1, "2.000", "1.000", "1.000", "1.00", "0.00"), "ENDMDL", "MODEL        2",
                     rec.format(2, " CA", 1, "3.000", "1.000", "1.000", "1.00", "0.00"), "ENDMDL"]
            yield {"kind": "oracle-malformed-file", "lines": lines, "expect": "raise"}
        elif kind == "no-atoms":
            yield {"kind": "oracle-malformed-file", "lines": rng.choice([["REMARK   1 nothing"], ["CRYST1   10.000   10.000   10.000  90.00  90.00  90.00 P 1           1"]]),
                   "expect": "raise"}
        else:
            # number spellings float() accepts but the writer never produces (the model abstains from them)
            xs = [rng.choice(["1e2", "1.5E1", ".5", "5.", "+.25", "1_0.5", "1.234567", "-0.00001", "12345678", "1e-3"]) for _ in range(3)]
            occ = rng.choice(["1e0", ".5", "1.", "0.333"])
            lines = [rec.format(1, " N", 1, xs[0], xs[1], xs[2], occ, "1e1")]
            yield {"kind": "oracle-malformed-file", "lines": lines, "expect": "values", "xyz": xs, "occ": occ}


def _oracle_malformed_file(case):
    from biotite.structure.io.pdb import PDBFile
    import numpy as np
    with warnings.catch_warnings():
        warnings.simplefilter("ignore")
        f = PDBFile.read(io.StringIO("\n".join(case["lines"]) + "\n"))
        try:
            st = f.get_structure(extra_fields=["occupancy", "b_factor"])
        except Exception as e:  # noqa: BLE001
            if case["expect"] == "raise":
                return []
            return [("C07/reader/refused-valid-number", f"{type(e).__name__}: {e} for fields {case.get('xyz')}")]
        if case["expect"] == "raise":
            return [("C07/reader/accepted-malformed-file", f"get_structure() returned {st.stack_depth()}x{st.array_length()} for {case['lines'][:3]}")]
        want = [float(np.float32(float(t))) for t in case["xyz"]]
        got = [float(x) for x in st.coord[0, 0]]
        if got != want or float(st.occupancy[0]) != float(case["occ"]) or float(st.b_factor[0]) != 10.0:
            return [("C07/reader/number-spelling", f"fields {case['xyz']} / {case['occ']} read as {got} / {float(st.occupancy[0])}")]
    return []


def _big_struct(n, h36):
    a = {"het": False, "id": 1, "name": "CA", "res": "ALA", "chain": "A", "resid": 1, "ins": "", "el": "C", "occ": 1.0, "bf": 0.0, "q": 0}
    return {"atoms": [dict(a, resid=i % 9999 + 1) for i in range(n)], "models": [[[float(i % 1000), 1.0, -1.0] for i in range(n)]],
            "bonds": [], "flags": {"h36": h36, "id": False, "b": False, "occ": False, "q": False, "bonds": False}}


def corpus():
    out = []
    for name, S in [("x-ok-neg", _one(x=-999.9994)), ("x-ok-pos", _one(x=9999.999)), ("b-ok", _one(f_b=True, bf=999.994)),
                    ("b-ok-neg", _one(f_b=True, bf=-99.994)), ("res-ok", _one(resid=-999)), ("aid-ok", _one(f_id=True, id=-9999)),
                    ("h36-max", _one(resid=2436111, f_h36=True, f_id=True, id=87440031)), ("neg-zero", _one(x=-0.0001)),
                    ("tie", _one(x=0.0625, f_b=True, bf=0.125)), ("empty-chain", _one(chain="", resid=1234, ins="B"))]:
        out.append({"kind": "corpus-" + name, "ops": struct_ops(S)})
    # atom ids [3, -2, 5, 6, 7] with bonds of the negative-id atom (the id map is offset by the smallest id, wherever it is)
    S = _one()
    S["atoms"] = [dict(S["atoms"][0], id=i, resid=k + 1, het=True) for k, i in enumerate([3, -2, 5, 6, 7])]
    S["models"] = [[[1.0, 2.0, 3.0]] * 5]
    S["bonds"] = [(0, 1), (1, 2), (1, 4), (3, 4)]
    S["flags"].update(id=True, bonds=True)
    out.append({"kind": "corpus-negative-id-not-first", "ops": struct_ops(S)})
    return out


def nontrivial(case, impl_out):
    if case.get("kind", "").startswith("h36"):
        return True
    return any(op.startswith(("atom", "rawline")) for op in case.get("ops", [])) or bool(case.get("struct"))


def signature(case):
    import hashlib
    if "ops" in case:
        return hashlib.sha1("|".join(case["ops"]).encode()).hexdigest()
    return hashlib.sha1(repr(sorted(case.items(), key=lambda kv: kv[0])).encode()).hexdigest()


def distribution(cases_, impl_outs):
    d = {"write_ok": 0, "write_refused": 0, "read_ok": 0, "read_err": 0, "h36_ops": 0, "atoms": {}, "models": {}, "hybrid36_files": 0}
    for c, o in zip(cases_, impl_outs):
        if not o:
            continue
        for op, line in zip(c["ops"], o):
            if op.startswith("write"):
                d["write_ok" if line.startswith("ok") else "write_refused"] += 1
                d["hybrid36_files"] += op.split()[1] == "1"
            elif op.startswith("read"):
                d["read_ok" if line.startswith("ok") else "read_err"] += 1
            elif op.startswith("h36"):
                d["h36_ops"] += 1
        na = sum(1 for op in c["ops"] if op.startswith("atom"))
        nm = sum(1 for op in c["ops"] if op.startswith("model"))
        if na:
            d["atoms"][str(na)] = d["atoms"].get(str(na), 0) + 1
            d["models"][str(nm)] = d["models"].get(str(nm), 0) + 1
    return d


def search(rng, problems, tier):
    """failing-input search: boundary-heavy structures (oracle only)"""
    for _ in range(1500 if tier == "quick" else 8000):
        S = gen_struct(rng, malformed=rng.choice(MALFORMED + [None] * 10))
        yield {"kind": "search", "ops": struct_ops(S)}
    nums = h36_numbers(rng, 3000)
    yield {"kind": "h36", "ops": [f"h36enc {n} {w}" for n, w in nums]}
    yield from oracle_only(rng, tier)


def shrink(case, key):
    if "ops" not in case or not any(op.startswith("atom") for op in case["ops"]):
        return case
    S = ops_struct(case["ops"])
    if not S["flags"]:
        return case

    def fails(S2):
        c2 = dict(case, ops=struct_ops(S2))
        c2.pop("struct", None)
        try:
            return any(k == key for k, _ in oracle(c2))
        except Exception:  # noqa: BLE001
            return False
    # drop models, then atoms (with their bonds)
    while len(S["models"]) > 1:
        S2 = dict(S, models=S["models"][:-1])  # keeps the box
        if fails(S2):
            S = S2
        else:
            break
    i = 0
    while len(S["atoms"]) > 1 and i < len(S["atoms"]):
        keep = [k for k in range(len(S["atoms"])) if k != i]
        remap = {k: n for n, k in enumerate(keep)}
        S2 = {"atoms": [S["atoms"][k] for k in keep], "models": [[m[k] for k in keep] for m in S["models"]],
              "bonds": [(remap[a], remap[b]) for a, b in S["bonds"] if a in remap and b in remap], "flags": S["flags"],
              "box": S.get("box")}
        if fails(S2):
            S = S2
        else:
            i += 1
    return dict(case, ops=struct_ops(S))
